//! Typing + lowering of function bodies to the prototype IR (spike).
use crate::env::*;
use quote::ToTokens;
use std::collections::HashMap;
use syn::*;

#[derive(Clone, Debug)]
pub enum Ir {
    Var(usize), LitF32(u32), LitF64(u64), LitI(&'static str, i128), LitB(bool), Unit,
    Prim(String, Vec<Ir>), Call(usize, Vec<Ir>),
    If(Box<Ir>, Box<Ir>, Box<Ir>), MatchI(Box<Ir>, Vec<(i128, Ir)>, Box<Ir>), MatchOpt(Box<Ir>, Box<Ir>, Box<Ir>),
    Block(Vec<St>, Box<Ir>), Panic, Return(Box<Ir>), Try(Box<Ir>), Fold(Box<Ir>, Box<Ir>, Box<Ir>),
}
#[derive(Clone, Debug)]
pub enum St { Let(Ir), Assign(Pl, Ir), If(Ir, Vec<St>, Vec<St>), Expr(Ir), Assert(Ir) }
#[derive(Clone, Debug)]
pub enum Pl { Var(usize), Fld(Box<Pl>, usize) }

pub type R = std::result::Result<(Ty, Ir), String>;

fn prim(p: &str, args: Vec<Ir>) -> Ir { Ir::Prim(p.to_string(), args) }
fn proj(i: usize, e: Ir) -> Ir { prim(&format!("PProj {i}"), vec![e]) }
fn mk(v: Vec<Ir>) -> Ir { prim("PMk", v) }
fn ikc(k: &str) -> String { match k { "usize" => "USize".into(), o => o.to_uppercase() } }
fn fkc(t: &Ty) -> &'static str { if *t == F64 { "K64" } else { "K32" } }

pub fn unify_num(a: &Ty, b: &Ty) -> Option<Ty> {
    match (a, b) { (x, y) if x == y => Some(x.clone()), (IntLit, Int(_)) | (FloatLit, F32) | (FloatLit, F64) => Some(b.clone()), (Int(_), IntLit) | (F32, FloatLit) | (F64, FloatLit) => Some(a.clone()), _ => None }
}
pub fn compat(param: &Ty, arg: &Ty) -> bool {
    if param == arg { return true; }
    match (param, arg) { (Unknown(_), _) | (_, Unknown(_)) => true, (Int(_), IntLit) | (F32, FloatLit) | (F64, FloatLit) => true, (Never, _) | (_, Never) => true,
        (Array(a, n), Array(b, m)) => compat(a, b) && (n == m || n.is_none() || m.is_none()), (Slice(a), Array(b, _)) | (Slice(a), Slice(b)) => compat(a, b),
        (Tuple(a), Tuple(b)) => a.len() == b.len() && a.iter().zip(b).all(|(x, y)| compat(x, y)), (Opt(a), Opt(b)) | (Res(a), Res(b)) | (Ptr(a), Ptr(b)) => compat(a, b), (Closure, _) | (_, Closure) => true, _ => false }
}

pub struct Lower<'e> { pub env: &'e Env, pub f: &'e FnInfo, locals: Vec<HashMap<String, (Ty, usize)>>, next: usize, closures: HashMap<String, ExprClosure>, pub walker: &'e Walker<'e> }

#[derive(Clone, Debug)]
enum Callee { Fn(usize), Prim(String), Ident }

impl<'e> Lower<'e> {
    pub fn new(env: &'e Env, f: &'e FnInfo, walker: &'e Walker<'e>) -> Self { *walker.cur_mod.borrow_mut() = f.module.clone(); Lower { env, f, locals: vec![HashMap::new()], next: 0, closures: HashMap::new(), walker } }
    fn lookup(&self, n: &str) -> Option<(Ty, usize)> { for s in self.locals.iter().rev() { if let Some(t) = s.get(n) { return Some(t.clone()); } } None }
    fn bind_new(&mut self, n: &str, t: Ty) -> usize { let s = self.next; self.next += 1; self.locals.last_mut().unwrap().insert(n.to_string(), (t, s)); s }
    fn self_ty(&self) -> Ty { self.f.self_ty.clone().unwrap_or(Unknown("Self".into())) }
    fn flavour(&self) -> Ty { let d = self.f.self_ty.as_ref().map(|t| t.show().starts_with('D')).unwrap_or(false) || self.f.module.contains("::f64") || self.f.ret == F64 || self.f.params.iter().any(|p| p.1 == F64); if d { F64 } else { F32 } }
    fn conv(&self, t: &Type) -> Ty { self.walker.conv_ty(t, self.f.self_ty.as_ref(), &self.f.assoc) }

    fn named_ty(&self, name: &str) -> Option<Ty> {
        let name = self.walker.renames.get(&(self.f.module.clone(), name.to_string())).map(|s| s.as_str()).unwrap_or(name);
        match name { "f32" | "F32" => Some(F32), "f64" | "F64" => Some(F64), "bool" | "Bool" => Some(Bool), "Self" => Some(self.self_ty()), "__m128" | "M128" | "f32x4" => Some(M128), "mask32x4" | "u32x4" | "i32x4" => Some(Simd(name.to_string())), "Simd" => Some(Simd("Simd".into())),
            n => if let Some(i) = int_name(n) { Some(Int(i)) } else if self.env.structs.contains_key(n) || self.env.enums.contains_key(n) { Some(Named(n.into())) } else { None } }
    }

    // ---- layout: flat scalar leaves of a type, as projection paths
    fn leaves(&self, t: &Ty) -> Option<Vec<(Vec<usize>, Ty)>> {
        match t {
            F32 | F64 | Int(_) | Bool => Some(vec![(vec![], t.clone())]),
            M128 | M128i => Some((0..4).map(|i| (vec![i], F32)).collect()),
            Simd(s) => { let lt = match s.as_str() { "mask32x4" => Bool, "u32x4" => Int("u32"), "i32x4" => Int("i32"), _ => return None }; Some((0..4).map(|i| (vec![i], lt.clone())).collect()) }
            Named(n) => { if let Some((g, a)) = n.split_once('<') { let a = self.named_ty(a.trim_end_matches('>'))?; let k = match g { "Vec3" | "Cols3" => 3, "Vec4" | "Cols4" => 4, "Cols2" => 2, "Align16" => 1, _ => return None }; return self.leaves(&Tuple(vec![a; k])); }
                let fs = self.env.structs.get(n)?; let mut out = vec![]; for (i, (_, ft)) in fs.iter().enumerate() { for (p, lt) in self.leaves(ft)? { let mut q = vec![i]; q.extend(p); out.push((q, lt)); } } Some(out) }
            Tuple(ts) => { let mut out = vec![]; for (i, ft) in ts.iter().enumerate() { for (p, lt) in self.leaves(ft)? { let mut q = vec![i]; q.extend(p); out.push((q, lt)); } } Some(out) }
            Array(et, Some(n)) => { let mut out = vec![]; for i in 0..*n { for (p, lt) in self.leaves(et)? { let mut q = vec![i]; q.extend(p); out.push((q, lt)); } } Some(out) }
            _ => None,
        }
    }
    fn build(&self, t: &Ty, leaves: &mut std::vec::IntoIter<Ir>) -> Option<Ir> {
        match t {
            F32 | F64 | Int(_) | Bool => leaves.next(),
            M128 | M128i | Simd(_) => Some(mk((0..4).map(|_| leaves.next()).collect::<Option<Vec<_>>>()?)),
            Named(n) => { if let Some((g, a)) = n.split_once('<') { let a = self.named_ty(a.trim_end_matches('>'))?; let k = match g { "Vec3" | "Cols3" => 3, "Vec4" | "Cols4" => 4, "Cols2" => 2, "Align16" => 1, _ => return None }; return self.build(&Tuple(vec![a; k]), leaves); }
                let fs = self.env.structs.get(n)?.clone(); Some(mk(fs.iter().map(|(_, ft)| self.build(ft, leaves)).collect::<Option<Vec<_>>>()?)) }
            Tuple(ts) => Some(mk(ts.iter().map(|ft| self.build(ft, leaves)).collect::<Option<Vec<_>>>()?)),
            Array(et, Some(n)) => Some(mk((0..*n).map(|_| self.build(et, leaves)).collect::<Option<Vec<_>>>()?)),
            _ => None,
        }
    }
    /// reinterpret value `e : from` as `to` (pointer cast / union read): leaf-wise, prefix allowed.
    fn view(&mut self, e: Ir, from: &Ty, to: &Ty) -> std::result::Result<Ir, String> {
        if from == to { return Ok(e); }
        let lf = self.leaves(from).ok_or(format!("layout of {}", from.show()))?; let lt = self.leaves(to).ok_or(format!("layout of {}", to.show()))?;
        if lt.len() > lf.len() { return Err(format!("UB: view {} as {} reads past the object", from.show(), to.show())); }
        // bind e to a temp slot to avoid duplicating it
        let slot = self.next; self.next += 1;
        let mut ls = vec![];
        for (i, (_, tt)) in lt.iter().enumerate() { let (p, ft) = &lf[i]; let mut x = Ir::Var(slot); for &k in p { x = proj(k, x); }
            let x = match (ft, tt) { (a, b) if a == b => x, (Int(_), F32) => prim("PFromBits K32", vec![x]), (F32, Int(_)) => prim("PToBits K32", vec![x]), (Int(k), Bool) => prim("PICmp INe", vec![x, Ir::LitI(k, 0)]), (Bool, Int(k)) => prim("PSelect", vec![x, Ir::LitI(k, 4294967295), Ir::LitI(k, 0)]), (a, b) => return Err(format!("view leaf {} as {}", a.show(), b.show())) }; ls.push(x); }
        let body = self.build(to, &mut ls.into_iter()).ok_or("build")?;
        self.next -= 1;
        Ok(Ir::Block(vec![St::Let(e)], Box::new(body)))
    }

    fn field(&mut self, base: (Ty, Ir), field: &str) -> R {
        let (mut t, mut e) = base;
        for _ in 0..4 {
            match &t {
                Named(n) => {
                    if let Some(fs) = self.env.structs.get(n) { if let Some(i) = fs.iter().position(|(f, _)| f == field) { return Ok((fs[i].1.clone(), proj(i, e))); } }
                    if let Some((g, a)) = n.split_once('<') { let a = self.named_ty(a.trim_end_matches('>')).ok_or("generic arg")?; let fs: &[&str] = match g { "Vec3" => &["x","y","z"], "Vec4" => &["x","y","z","w"], "Cols2" => &["x_axis","y_axis"], "Cols3" => &["x_axis","y_axis","z_axis"], "Cols4" => &["x_axis","y_axis","z_axis","w_axis"], "Align16" => &["0"], _ => &[] }; if let Some(i) = fs.iter().position(|f| *f == field) { return Ok((a, proj(i, e))); } }
                    if let Some(d) = self.env.deref.get(&t).cloned() { e = self.view(e, &t, &d)?; t = d; continue; }
                    return Err(format!("field {field} of {}", t.show())) }
                Tuple(ts) => { let i: usize = field.parse().map_err(|_| "tuple field")?; return Ok((ts.get(i).cloned().ok_or("tuple idx")?, proj(i, e))); }
                _ => return Err(format!("field {field} of {}", t.show())),
            }
        }
        Err("field deref loop".into())
    }

    // ---- callee resolution
    fn resolve_method(&self, recv: &Ty, name: &str, args: &[Ty], expected: Option<&Ty>) -> std::result::Result<(Ty, Callee), String> {
        if let Some(&i) = self.env.inherent.get(&(recv.clone(), name.to_string())) { let f = &self.env.fns[i]; if f.params.len() == args.len() && f.params.iter().zip(args).all(|((_, p), a)| compat(p, a)) { return Ok((f.ret.clone(), Callee::Fn(i))); } return Err(format!("arg mismatch {}::{name}", recv.show())); }
        let mut cands = vec![];
        for ((_tn, st, mn), idxs) in &self.env.trait_impls { if st == recv && mn == name { for &i in idxs { let f = &self.env.fns[i]; if f.params.len() == args.len() && f.params.iter().zip(args).all(|((_, p), a)| compat(p, a)) { cands.push(i); } } } }
        if cands.len() > 1 { let nr: Vec<usize> = cands.iter().copied().filter(|&i| !self.env.fns[i].by_ref).collect(); if !nr.is_empty() { cands = nr; } }
        if cands.len() > 1 { let exact: Vec<usize> = cands.iter().copied().filter(|&i| self.env.fns[i].params.iter().zip(args).all(|((_, p), a)| p == a)).collect(); if exact.len() == 1 { cands = exact; } }
        if cands.len() > 1 { if let Some(e) = expected { let m: Vec<usize> = cands.iter().copied().filter(|&i| compat(&self.env.fns[i].ret, e)).collect(); if m.len() == 1 { cands = m; } } }
        if cands.len() == 1 { return Ok((self.env.fns[cands[0]].ret.clone(), Callee::Fn(cands[0]))); }
        if cands.len() > 1 { return Err(format!("ambiguous {}::{name} ({})", recv.show(), cands.len())); }
        if name == "into" && args.is_empty() {
            if let Some(e) = expected { if e == recv { return Ok((recv.clone(), Callee::Ident)); }
                fn has_lit(t: &Ty) -> bool { match t { IntLit | FloatLit => true, Tuple(v) => v.iter().any(has_lit), Array(e, _) | Opt(e) => has_lit(e), _ => false } }
                if has_lit(recv) { if let Some(v) = self.env.trait_impls.get(&("From".into(), e.clone(), "from".into())) { if let Some(&i) = v.iter().find(|&&i| compat(&self.env.fns[i].params[0].1, recv)) { return Ok((e.clone(), Callee::Fn(i))); } } }
                let find = |target: &Ty| -> Option<usize> { self.env.trait_impls.get(&("From".into(), target.clone(), "from".into())).and_then(|v| v.iter().copied().find(|&i| &self.env.fns[i].params[0].1 == recv)) };
                if !matches!(e, Unknown(_)) { if let Some(i) = find(e) { return Ok((e.clone(), Callee::Fn(i))); } }
                if let Tuple(ts) = e { for ((tn, st, mn), idxs) in &self.env.trait_impls { if tn == "From" && mn == "from" { if let Tuple(st_ts) = st { if st_ts.len() == ts.len() { if let Some(&i) = idxs.iter().find(|&&i| &self.env.fns[i].params[0].1 == recv) { return Ok((st.clone(), Callee::Fn(i))); } } } } } }
                return Err(format!("no From<{}> for {}", recv.show(), e.show())); }
            return Err(format!("into() without expected type from {}", recv.show()));
        }
        if let Some(r) = self.builtin_method(recv, name, args) { return Ok(r); }
        if name == "eq" { if let Named(n) = recv { if self.env.derives_eq.contains(n) { return Ok((Bool, Callee::Prim("DERIVED_EQ".into()))); } } }
        if let Some(d) = self.env.deref.get(recv) { if d != recv { return Err(format!("method via deref {}::{name}", recv.show())); } }
        Err(format!("no method {}::{name}/{}", recv.show(), args.len()))
    }
    fn builtin_method(&self, recv: &Ty, name: &str, args: &[Ty]) -> Option<(Ty, Callee)> {
        let r = recv.clone(); let p = |s: String| Callee::Prim(s);
        match recv {
            F32 | F64 => { let k = fkc(recv);
                let f1 = |o: &str| Some((r.clone(), p(format!("PF1 {k} {o}")))); let f2 = |o: &str| Some((r.clone(), p(format!("PF2 {k} {o}"))));
                match name { "abs" => f1("FAbs"), "sqrt" => f1("FSqrt"), "recip" => Some((r.clone(), p(format!("RECIP {k}")))), "floor" => f1("FFloor"), "ceil" => f1("FCeil"), "round" => f1("FRound"), "trunc" => f1("FTrunc"), "signum" => f1("FSignum"), "sin" => f1("FSin"), "cos" => f1("FCos"), "tan" => f1("FTan"), "exp" => f1("FExp"), "acos" => f1("FAcos"), "asin" => f1("FAsin"), "neg" => f1("FNeg"),
                    "add" => f2("FAdd"), "sub" => f2("FSub"), "mul" => f2("FMul"), "div" => f2("FDiv"), "rem" => f2("FRem"), "min" => f2("FMinStd"), "max" => f2("FMaxStd"), "copysign" => f2("FCopysign"), "powf" => f2("FPowf"), "atan2" => f2("FAtan2"), "rem_euclid" => f2("FRemEuclid"), "div_euclid" => f2("FDivEuclid"),
                    "mul_add" => Some((r.clone(), p(format!("PF3 {k} FFma")))),
                    "is_nan" => Some((Bool, p(format!("PFPred {k} FIsNan")))), "is_finite" => Some((Bool, p(format!("PFPred {k} FIsFinite")))), "is_sign_negative" => Some((Bool, p(format!("PFPred {k} FSignBit")))),
                    "to_bits" => Some((if r == F64 { Int("u64") } else { Int("u32") }, p(format!("PToBits {k}")))),
                    "sin_cos" => Some((Tuple(vec![r.clone(), r.clone()]), p(format!("SINCOS {k}")))),
                    "eq" => Some((Bool, p(format!("PFCmp {k} FEq")))), "ne" => Some((Bool, p(format!("PFCmp {k} FNe")))), "lt" => Some((Bool, p(format!("PFCmp {k} FLt")))), "le" => Some((Bool, p(format!("PFCmp {k} FLe")))), "gt" => Some((Bool, p(format!("PFCmp {k} FGt")))), "ge" => Some((Bool, p(format!("PFCmp {k} FGe")))),
                    "clamp" => Some((r.clone(), p(format!("PFClampStd {k}")))),
                    _ => None } }
            Int(k) => { let kc = ikc(k);
                let i2 = |o: &str| Some((r.clone(), p(format!("PI2 {kc} {o}")))); let ck = |o: &str| Some((Opt(Box::new(r.clone())), p(format!("PIChecked {kc} {o}")))); let mx = |n: &str| Some((r.clone(), p(format!("PIMixed {kc} \"{n}\""))));
                match name { "wrapping_add" => i2("IWAdd"), "wrapping_sub" => i2("IWSub"), "wrapping_mul" => i2("IWMul"), "wrapping_div" => i2("IWDiv"), "saturating_add" => i2("ISAdd"), "saturating_sub" => i2("ISSub"), "saturating_mul" => i2("ISMul"), "saturating_div" => i2("ISDiv"),
                    "add" => i2("IAdd"), "sub" => i2("ISub"), "mul" => i2("IMul"), "div" => i2("IDiv"), "rem" => i2("IRem"), "bitand" => i2("IAnd"), "bitor" => i2("IOr"), "bitxor" => i2("IXor"), "min" => i2("IMin"), "max" => i2("IMax"), "rem_euclid" => i2("IRemEuclid"), "div_euclid" => i2("IDivEuclid"),
                    "checked_add" => ck("IAdd"), "checked_sub" => ck("ISub"), "checked_mul" => ck("IMul"), "checked_div" => ck("IDiv"),
                    "abs_diff" => Some((Int(match *k { "i8" => "u8", "i16" => "u16", "i32" => "u32", "i64" => "u64", o => o }), p(format!("PI2 {kc} IAbsDiff")))),
                    "abs" => Some((r.clone(), p(format!("PI1 {kc} IAbs")))), "signum" => Some((r.clone(), p(format!("PI1 {kc} ISignum")))), "neg" => Some((r.clone(), p(format!("PI1 {kc} INeg")))), "not" => Some((r.clone(), p(format!("PI1 {kc} INot")))),
                    "is_negative" => Some((Bool, p(format!("PIIsNeg {kc}")))),
                    "eq" => Some((Bool, p("PICmp IEq".into()))), "ne" => Some((Bool, p("PICmp INe".into()))), "lt" => Some((Bool, p("PICmp ILt".into()))), "le" => Some((Bool, p("PICmp ILe".into()))), "gt" => Some((Bool, p("PICmp IGt".into()))), "ge" => Some((Bool, p("PICmp IGe".into()))),
                    "shl" | "shr" => { let kc2 = match args.first() { Some(Int(k2)) => ikc(k2), _ => "I32".into() }; Some((r.clone(), p(format!("{} {kc} {kc2}", if name == "shl" { "PIShl" } else { "PIShr" })))) }
                    n @ ("wrapping_add_unsigned" | "wrapping_sub_unsigned" | "saturating_add_unsigned" | "saturating_sub_unsigned" | "wrapping_add_signed" | "saturating_add_signed") => mx(n),
                    n @ ("checked_add_unsigned" | "checked_sub_unsigned" | "checked_add_signed") => Some((Opt(Box::new(r.clone())), p(format!("PIMixedChecked {kc} \"{n}\"")))),
                    _ => None } }
            Bool => match name { "eq" => Some((Bool, p("PBEq".into()))), "ne" => Some((Bool, p("PBXor".into()))), "not" => Some((Bool, p("PBNot".into()))), "bitand" => Some((Bool, p("PBAnd".into()))), "bitor" => Some((Bool, p("PBOr".into()))), "bitxor" => Some((Bool, p("PBXor".into()))), _ => None },
            Opt(t) => match name { "unwrap" => Some(((**t).clone(), p("PUnwrap".into()))), _ => None },
            Fmt => match name { "precision" => Some((Opt(Box::new(Int("usize"))), Callee::Ident)), _ => None },
            M128 => { let m = |s: &str| Simd(s.to_string()); let l1 = |o: &str| Some((M128, p(format!("PLanewise1 {o}")))); let l2 = |o: &str| Some((M128, p(format!("PLanewise2 {o}")))); let cm = |o: &str| Some((m("mask32x4"), p(format!("PMapN (PFCmp K32 {o})")))); let pr = |o: &str| Some((m("mask32x4"), p(format!("PMapN (PFPred K32 {o})"))));
                match name { "abs" => l1("FAbs"), "floor" => l1("FFloor"), "ceil" => l1("FCeil"), "round" => l1("FRound"), "trunc" => l1("FTrunc"), "sqrt" => l1("FSqrt"), "recip" => Some((M128, p("RECIP4".into()))), "signum" => l1("FSignum"), "neg" => l1("FNeg"),
                    "add" => l2("FAdd"), "sub" => l2("FSub"), "mul" => l2("FMul"), "div" => l2("FDiv"), "rem" => l2("FRem"), "copysign" => l2("FCopysign"), "mul_add" => Some((M128, p("PLanewise3 FFma".into()))),
                    "simd_eq" => cm("FEq"), "simd_ne" => cm("FNe"), "simd_lt" => cm("FLt"), "simd_le" => cm("FLe"), "simd_gt" => cm("FGt"), "simd_ge" => cm("FGe"),
                    "is_nan" => pr("FIsNan"), "is_finite" => pr("FIsFinite"), "is_sign_negative" => pr("FSignBit"),
                    "to_bits" => Some((m("u32x4"), p("PMapN (PToBits K32)".into()))), "to_array" | "as_array" => Some((Array(Box::new(F32), Some(4)), Callee::Ident)),
                    "reduce_sum" => Some((F32, p("PReduce K32 FAdd 2147483648".into()))), "reduce_product" => Some((F32, p("PReduce K32 FMul 1065353216".into()))),
                    _ => None } }
            Simd(s) if s == "mask32x4" => { let me = recv.clone(); match name { "select" => Some((args.first().cloned().unwrap_or(M128), p("PMapN PSelect".into()))), "bitand" => Some((me, p("PMapN PBAnd".into()))), "bitor" => Some((me, p("PMapN PBOr".into()))), "bitxor" => Some((me, p("PMapN PBXor".into()))), "not" => Some((me, p("PMapN PBNot".into()))),
                    "any" => Some((Bool, p("PAny".into()))), "all" => Some((Bool, p("PAll".into()))), "to_bitmask" => Some((Int("u64"), p("PBitmask".into()))), "test" => Some((Bool, p("PIdx".into()))), "to_array" => Some((Array(Box::new(Bool), Some(4)), Callee::Ident)), "eq" => Some((Bool, p("MASKEQ".into()))), _ => None } }
            Simd(s) if s == "u32x4" || s == "i32x4" => { let k = if s == "u32x4" { "U32" } else { "I32" }; let me = recv.clone(); match name { "bitand" => Some((me, p(format!("PMapN (PI2 {k} IAnd)")))), "bitor" => Some((me, p(format!("PMapN (PI2 {k} IOr)")))), "bitxor" => Some((me, p(format!("PMapN (PI2 {k} IXor)")))), "not" => Some((me, p(format!("PMapN (PI1 {k} INot)")))),
                    "to_array" => Some((Array(Box::new(Int(if s == "u32x4" { "u32" } else { "i32" })), Some(4)), Callee::Ident)), _ => None } }
            Slice(_) | Array(_, _) => match name { "len" => Some((Int("usize"), p("PLen".into()))), "as_ptr" | "as_mut_ptr" => Some((recv.clone(), Callee::Ident)), _ => None },
            _ => None,
        }
    }
    fn resolve_assoc(&self, ty: &Ty, name: &str, args: &[Ty], expected: Option<&Ty>) -> std::result::Result<(Ty, Callee), String> {
        if let Some(&i) = self.env.inherent.get(&(ty.clone(), name.to_string())) { let f = &self.env.fns[i]; let n = f.params.len() + f.has_self as usize; if n == args.len() { return Ok((f.ret.clone(), Callee::Fn(i))); } return Err(format!("arity {}::{name}", ty.show())); }
        let mut cands = vec![];
        for ((_tn, st, mn), idxs) in &self.env.trait_impls { if st == ty && mn == name { for &i in idxs { let f = &self.env.fns[i]; let ps: Vec<Ty> = if f.has_self { std::iter::once(ty.clone()).chain(f.params.iter().map(|p| p.1.clone())).collect() } else { f.params.iter().map(|p| p.1.clone()).collect() }; if ps.len() == args.len() && ps.iter().zip(args).all(|(p, a)| compat(p, a)) { cands.push(i); } } } }
        if cands.len() > 1 { let nr: Vec<usize> = cands.iter().copied().filter(|&i| !self.env.fns[i].by_ref).collect(); if !nr.is_empty() { cands = nr; } }
        if cands.len() > 1 { let exact: Vec<usize> = cands.iter().copied().filter(|&i| { let f = &self.env.fns[i]; let off = f.has_self as usize; f.params.iter().zip(&args[off..]).all(|((_, p), a)| p == a) }).collect(); if exact.len() == 1 { cands = exact; } }
        if cands.len() == 1 { return Ok((self.env.fns[cands[0]].ret.clone(), Callee::Fn(cands[0]))); }
        if cands.len() > 1 { return Err(format!("ambiguous assoc {}::{name}", ty.show())); }
        match (ty, name) {
            (M128, "splat") => return Ok((M128, Callee::Prim("PSet1".into()))), (M128, "from_array") => return Ok((M128, Callee::Ident)), (M128, "from_bits") => return Ok((M128, Callee::Prim("PMapN (PFromBits K32)".into()))),
            (Simd(s), "from_array") if s == "Simd" => { return match args.first() { Some(Array(e, Some(4))) if **e == F32 => Ok((M128, Callee::Ident)), Some(Array(e, Some(4))) if **e == Bool => Ok((Simd("mask32x4".into()), Callee::Ident)), Some(Array(e, Some(4))) if **e == Int("u32") => Ok((Simd("u32x4".into()), Callee::Ident)), o => Err(format!("Simd::from_array of {:?}", o.map(|t| t.show()))) }; }
            (Simd(_), "from_array") => return Ok((ty.clone(), Callee::Ident)), (Simd(_), "splat") => return Ok((ty.clone(), Callee::Prim("PSplat 4".into()))),
            (M128, n) if !args.is_empty() => { if let Some(r) = self.builtin_method(ty, n, &args[1..]) { return Ok(r); } }
            (F32, "from_bits") => return Ok((F32, Callee::Prim("PFromBits K32".into()))), (F64, "from_bits") => return Ok((F64, Callee::Prim("PFromBits K64".into()))),
            (Int(k), "from") => if let Some(Int(a)) = args.first() { return Ok((ty.clone(), Callee::Prim(format!("PCastII {} {}", ikc(a), ikc(k))))); } else if let Some(Bool) = args.first() { return Ok((ty.clone(), Callee::Prim(format!("PCastBI {}", ikc(k))))); },
            (F32 | F64, "from") => match args.first() { Some(Bool) => return Ok((ty.clone(), Callee::Prim(format!("PCastBF {}", fkc(ty))))), Some(Int(a)) => return Ok((ty.clone(), Callee::Prim(format!("PCastIF {} {}", ikc(a), fkc(ty))))), Some(F32) => return Ok((ty.clone(), Callee::Prim(format!("PCastFF K32 {}", fkc(ty))))), _ => {} },
            (Int(k), "try_from") => if let Some(Int(a)) = args.first() { return Ok((Res(Box::new(ty.clone())), Callee::Prim(format!("PTryII {} {}", ikc(a), ikc(k))))); },
            (F32 | F64, n) if !args.is_empty() => { if let Some(r) = self.builtin_method(ty, n, &args[1..]) { return Ok(r); } }
            _ => {}
        }
        let _ = expected;
        Err(format!("no assoc fn {}::{name}/{}", ty.show(), args.len()))
    }
    fn resolve_free(&self, segs: &[String], args: &[Ty]) -> std::result::Result<(Ty, Callee), String> {
        let name = segs.last().unwrap().clone();
        if name.starts_with("_mm_") { return self.intrinsic(&name); }
        if segs.len() >= 2 && segs[segs.len() - 2] == "libm" {
            let (k, base) = if let Some(b) = name.strip_suffix('f') { if ["fabs", "floor", "ceil", "trunc", "round", "sqrt", "copysign", "fma", "sin", "cos", "tan", "exp", "pow", "acos", "asin", "atan2", "sincos", "fmod"].contains(&b) { ("K32", b.to_string()) } else { ("K64", name.clone()) } } else { ("K64", name.clone()) };
            let t = if k == "K32" { F32 } else { F64 }; let p = |s: &str| Callee::Prim(s.to_string());
            return Ok(match base.as_str() { "fabs" => (t, p(&format!("PF1 {k} FAbs"))), "floor" => (t, p(&format!("PF1 {k} FFloor"))), "ceil" => (t, p(&format!("PF1 {k} FCeil"))), "trunc" => (t, p(&format!("PF1 {k} FTrunc"))), "round" => (t, p(&format!("PF1 {k} FRound"))), "sqrt" => (t, p(&format!("PF1 {k} FSqrt"))),
                "sin" => (t, p(&format!("PF1 {k} FSin"))), "cos" => (t, p(&format!("PF1 {k} FCos"))), "tan" => (t, p(&format!("PF1 {k} FTan"))), "exp" => (t, p(&format!("PF1 {k} FExp"))), "acos" => (t, p(&format!("PF1 {k} FAcos"))), "asin" => (t, p(&format!("PF1 {k} FAsin"))),
                "copysign" => (t, p(&format!("PF2 {k} FCopysign"))), "pow" => (t, p(&format!("PF2 {k} FPowf"))), "atan2" => (t, p(&format!("PF2 {k} FAtan2"))), "fmod" => (t, p(&format!("PF2 {k} FRem"))), "fma" => (t, p(&format!("PF3 {k} FFma"))),
                "sincos" => (Tuple(vec![t.clone(), t]), p(&format!("SINCOS {k}"))), o => return Err(format!("libm::{o}")) }); }
        let mut hits: Vec<usize> = self.env.free_fns.iter().filter(|((_, n), _)| n == &name).map(|(_, &i)| i).collect();
        if hits.len() > 1 && segs.len() >= 2 { let q = &segs[segs.len() - 2]; let h2: Vec<usize> = hits.iter().copied().filter(|&i| { let m = &self.env.fns[i].module; m.ends_with(&format!("::{q}")) || m.contains(&format!("::{q}::")) }).collect(); if !h2.is_empty() { hits = h2; } }
        if hits.len() > 1 { let scalar = if self.f.file.contains("f64") || self.f.self_ty.as_ref().map(|t| t.show().starts_with('D')).unwrap_or(false) { "f64" } else { "f32" }; let h3: Vec<usize> = hits.iter().copied().filter(|&i| self.env.fns[i].module.contains(&format!("::{scalar}::"))).collect(); if !h3.is_empty() { hits = h3; } }
        if hits.len() > 1 { let h: Vec<usize> = hits.iter().copied().filter(|&i| self.env.fns[i].module == self.f.module).collect(); if !h.is_empty() { hits = h; } }
        if hits.len() > 1 { let h: Vec<usize> = hits.iter().copied().filter(|&i| { let f = &self.env.fns[i]; f.params.len() == args.len() && f.params.iter().zip(args).all(|((_, p), a)| compat(p, a)) }).collect(); if !h.is_empty() { hits = h; } }
        if hits.len() == 1 { return Ok((self.env.fns[hits[0]].ret.clone(), Callee::Fn(hits[0]))); }
        if hits.len() > 1 { return Err(format!("ambiguous free fn {}", segs.join("::"))); }
        Err(format!("unknown fn {}", segs.join("::")))
    }
    fn intrinsic(&self, name: &str) -> std::result::Result<(Ty, Callee), String> {
        let p = |s: &str| Callee::Prim(s.to_string());
        Ok(match name {
            "_mm_add_ps" => (M128, p("PLanewise2 FAdd")), "_mm_sub_ps" => (M128, p("PLanewise2 FSub")), "_mm_mul_ps" => (M128, p("PLanewise2 FMul")), "_mm_div_ps" => (M128, p("PLanewise2 FDiv")),
            "_mm_and_ps" | "_mm_and_si128" => (M128, p("PLanewise2 FAnd")), "_mm_or_ps" => (M128, p("PLanewise2 FOr")), "_mm_xor_ps" => (M128, p("PLanewise2 FXor")), "_mm_andnot_ps" | "_mm_andnot_si128" => (M128, p("PLanewise2 FAndNot")),
            "_mm_min_ps" => (M128, p("PLanewise2 FMinSse")), "_mm_max_ps" => (M128, p("PLanewise2 FMaxSse")), "_mm_sqrt_ps" => (M128, p("PLanewise1 FSqrt")),
            "_mm_cmpeq_ps" => (M128, p("PLanewiseCmp FEq")), "_mm_cmpneq_ps" => (M128, p("PLanewiseCmp FNe")), "_mm_cmplt_ps" => (M128, p("PLanewiseCmp FLt")), "_mm_cmple_ps" => (M128, p("PLanewiseCmp FLe")), "_mm_cmpgt_ps" => (M128, p("PLanewiseCmp FGt")), "_mm_cmpge_ps" => (M128, p("PLanewiseCmp FGe")),
            "_mm_cmpunord_ps" => (M128, p("PCmpUnord")), "_mm_set1_ps" | "_mm_set_ps1" => (M128, p("PSet1")), "_mm_cvtss_f32" => (F32, p("PCvtSS")), "_mm_movemask_ps" => (Int("i32"), p("PMoveMask")), "_mm_movehl_ps" => (M128, p("PMoveHL")), "_mm_add_ss" => (M128, p("PAddSS")),
            "_mm_castps_si128" | "_mm_castsi128_ps" => (M128, Callee::Ident), "_mm_cvttps_epi32" => (M128, p("PCvttEpi32")), "_mm_cvtepi32_ps" => (M128, p("PCvtEpi32Ps")), "_mm_cmplt_epi32" => (M128, p("PCmpLtEpi32")),
            "_mm_loadu_ps" => (M128, p("LOADU")), "_mm_setr_ps" => (M128, p("PMk")), "_mm_set_ps" => (M128, p("PMkRev")), "_mm_shuffle_ps" => (M128, p("SHUFFLE")), "_mm_set1_epi32" => (M128, p("SET1EPI32")), "_mm_fmadd_ps" => (M128, p("PLanewise3 FFma")),
            o => return Err(format!("intrinsic {o}")) })
    }

    fn apply(&mut self, c: Callee, mut args: Vec<Ir>) -> std::result::Result<Ir, String> {
        Ok(match c { Callee::Fn(i) => Ir::Call(i, args), Callee::Ident => args.remove(0),
            Callee::Prim(p) => match p.as_str() {
                "PMkRev" => { args.reverse(); mk(args) }
                "SHUFFLE" => { let imm = args.pop().unwrap(); let v = match imm { Ir::LitI(_, v) => v, _ => return Err("shuffle imm".into()) }; prim(&format!("PShuffle {v}"), args) }
                "LOADU" => { let a = args.remove(0); prim("PRange 0 4", vec![a]) }
                "DERIVED_EQ" => return Err("method-form eq on derived type".into()),
                "RECIP K32" => { let a = args.remove(0); prim("PF2 K32 FDiv", vec![Ir::LitF32(1.0f32.to_bits()), a]) }
                "RECIP K64" => { let a = args.remove(0); prim("PF2 K64 FDiv", vec![Ir::LitF64(1.0f64.to_bits()), a]) }
                "RECIP4" => { let a = args.remove(0); prim("PLanewise2 FDiv", vec![prim("PSet1", vec![Ir::LitF32(1.0f32.to_bits())]), a]) }
                "MASKEQ" => { prim("PAll", vec![prim("PMapN PBEq", args)]) }
                "SET1EPI32" => { let a = args.remove(0); prim("PSet1", vec![prim("PFromBits K32", vec![prim("PCastII I32 U32", vec![a])])]) }
                s if s.starts_with("SINCOS") => { let k = &s[7..]; let a = args.remove(0); let slot = self.next; Ir::Block(vec![St::Let(a)], Box::new(mk(vec![prim(&format!("PF1 {k} FSin"), vec![Ir::Var(slot)]), prim(&format!("PF1 {k} FCos"), vec![Ir::Var(slot)])]))) }
                _ => Ir::Prim(p, args) } })
    }

    // ---- patterns
    fn bind_pat(&mut self, p: &Pat, t: &Ty, slot_val: Ir, stmts: &mut Vec<St>) -> std::result::Result<(), String> {
        match p {
            Pat::Ident(i) => { stmts.push(St::Let(slot_val)); self.bind_new(&i.ident.to_string(), t.clone()); Ok(()) }
            Pat::Wild(_) => { stmts.push(St::Let(slot_val)); self.next += 1; Ok(()) }
            Pat::Type(pt) => { let ty = self.conv(&pt.ty); self.bind_pat(&pt.pat, &ty, slot_val, stmts) }
            Pat::Reference(r) => self.bind_pat(&r.pat, t, slot_val, stmts),
            Pat::Paren(r) => self.bind_pat(&r.pat, t, slot_val, stmts),
            Pat::Tuple(tp) => { stmts.push(St::Let(slot_val)); let s = self.next; self.next += 1; for (i, e) in tp.elems.iter().enumerate() { let et = match t { Tuple(ts) => ts.get(i).cloned().ok_or("tuple pat arity")?, _ => return Err(format!("tuple pattern on {}", t.show())) }; self.bind_pat(e, &et, proj(i, Ir::Var(s)), stmts)?; } Ok(()) }
            Pat::Slice(sp) => { stmts.push(St::Let(slot_val)); let s = self.next; self.next += 1; for (i, e) in sp.elems.iter().enumerate() { let et = match t { Array(t, _) => (**t).clone(), _ => return Err("slice pattern".into()) }; self.bind_pat(e, &et, proj(i, Ir::Var(s)), stmts)?; } Ok(()) }
            o => Err(format!("pattern {}", o.to_token_stream())),
        }
    }

    pub fn lower_fn(&mut self) -> std::result::Result<(usize, Ir), String> {
        let f = self.f;
        let is_iter_fn = f.generic && f.params.len() == 1 && matches!(&f.params[0].1, Named(n) if n == "I") && f.trait_.as_ref().map(|t| t.0 == "Sum" || t.0 == "Product").unwrap_or(false);
        if f.generic && !is_iter_fn { return Err("generic fn".into()); }
        if f.self_mut && f.ret != Unit { return Err("&mut self returning a value/reference".into()); }
        let mut pre = vec![]; let mut arity = 0;
        if f.has_self { self.bind_new("self", f.self_ty.clone().unwrap()); arity += 1; }
        // params occupy slots 0..arity; destructuring patterns add lets after
        let mut pending = vec![];
        for (i, (n, ty)) in f.params.iter().enumerate() { match f.param_pats.get(i) { Some(Pat::Ident(_)) | None => { self.bind_new(n, ty.clone()); } Some(p) => { let s = self.next; self.next += 1; pending.push((p.clone(), ty.clone(), s)); } } arity += 1; }
        for (p, ty, s) in pending { self.bind_pat(&p, &ty, Ir::Var(s), &mut pre)?; }
        let ret = f.ret.clone();
        let out_slice = f.params.iter().enumerate().position(|(k, (_, t))| matches!(t, Slice(_)) && f.param_muts.get(k).copied().unwrap_or(false));
        if let (Some(k), false, true) = (out_slice, f.self_mut, f.ret == Unit) { let b = f.body.as_ref().ok_or("no body")?; if contains_return(b) { return Err("return inside out-param fn".into()); } let stmts = self.stmt_block(b)?; pre.extend(stmts); let slot = k + f.has_self as usize; return Ok((arity, Ir::Block(pre, Box::new(Ir::Var(slot))))); }
        if f.self_mut { let b = f.body.as_ref().ok_or("no body")?; if contains_return(b) { return Err("return inside &mut self fn".into()); } let stmts = self.stmt_block(b)?; pre.extend(stmts); return Ok((arity, Ir::Block(pre, Box::new(Ir::Var(0))))); }
        let body = if let Some(b) = &f.body { let (t, ir) = self.block(b, Some(&ret))?; if !compat(&ret, &t) && !matches!(t, Never | IntLit | FloatLit) { return Err(format!("return type {} vs {}", t.show(), ret.show())); } ir }
                   else if let Some(e) = &f.const_init { self.ex(e, Some(&ret))?.1 } else { return Err("no body".into()) };
        let body = if pre.is_empty() { body } else { Ir::Block(pre, Box::new(body)) };
        Ok((arity, body))
    }

    /// setter half of a `&mut self -> &mut T` accessor: (self, params.., new : T) -> Self
    pub fn lower_lens_set(&mut self) -> std::result::Result<(usize, Ir), String> {
        let f = self.f; if !(f.self_mut && f.ret != Unit) { return Err("not a lens".into()); }
        let st = f.self_ty.clone().ok_or("lens without self")?; self.bind_new("self", st.clone());
        for (n, ty) in &f.params { self.bind_new(n, ty.clone()); }
        // `Self::Target` / `Self::Output` of DerefMut / IndexMut are declared in the Deref / Index impl
        let fret = match (&f.ret, f.trait_.as_ref().map(|t| t.0.as_str())) { (Unknown(_), Some("DerefMut")) => self.env.deref.get(&st).cloned().ok_or("DerefMut without Deref")?, (Unknown(_), Some("IndexMut")) => self.env.trait_impls.get(&("Index".to_string(), st.clone(), "index".to_string())).and_then(|v| v.first()).map(|&i| self.env.fns[i].ret.clone()).ok_or("IndexMut without Index")?, (r, _) => r.clone() };
        let newv = self.bind_new("$new", fret.clone()); let arity = 2 + f.params.len();
        let b = f.body.as_ref().ok_or("no body")?; let mut e: &Expr = match b.stmts.last() { Some(Stmt::Expr(e, None)) => e, _ => return Err("lens body".into()) };
        loop { match e { Expr::Unsafe(u) => match u.block.stmts.last() { Some(Stmt::Expr(x, None)) => e = x, _ => return Err("lens unsafe body".into()) }, Expr::Paren(p) => e = &p.expr, Expr::Reference(r) => e = &r.expr, _ => break } }
        match e {
            Expr::Match(m) => { let (_, se) = self.ex(&m.expr, None)?; let mut arms = vec![]; let mut dflt = Ir::Panic;
                for arm in &m.arms { match &arm.pat { Pat::Wild(_) => { dflt = Ir::Panic; } Pat::Lit(l) => { let k = self.lit_int(&Expr::Lit(ExprLit { attrs: vec![], lit: l.lit.clone() })).ok_or("lens arm key")?; let mut pe: &Expr = &arm.body; while let Expr::Reference(r) = pe { pe = &r.expr; }
                        let mut stmts = vec![]; let synth = Expr::Assign(ExprAssign { attrs: vec![], left: Box::new(pe.clone()), eq_token: Default::default(), right: Box::new(parse_quote!(__new)) }); self.locals.last_mut().unwrap().insert("__new".into(), (fret.clone(), newv)); self.stmt_expr(&synth, &mut stmts)?; arms.push((k, Ir::Block(stmts, Box::new(Ir::Var(0))))); } o => return Err(format!("lens arm {}", o.to_token_stream())) } }
                Ok((arity, Ir::MatchI(Box::new(se), arms, Box::new(dflt)))) }
            Expr::Unary(u) if matches!(u.op, UnOp::Deref(_)) => { // pointer cast view: write back the leaves of the new value
                let tl = self.leaves(&fret).ok_or("lens target layout")?; let sl = self.leaves(&st).ok_or("lens self layout")?; if tl.len() > sl.len() { return Err("UB: lens view larger than object".into()); }
                let mut ls = vec![]; for (i, (p, _)) in sl.iter().enumerate() { let (base, path) = if i < tl.len() { (Ir::Var(newv), &tl[i].0) } else { (Ir::Var(0), p) }; let mut x = base; for &k in path { x = proj(k, x); } ls.push(x); }
                let r = self.build(&st, &mut ls.into_iter()).ok_or("lens rebuild")?; Ok((arity, r)) }
            o => Err(format!("lens form {}", o.to_token_stream().to_string().chars().take(40).collect::<String>())) }
    }

    /// the statements of a block that are enabled in this configuration (`#[cfg(..)]` on let statements, expression statements and macros)
    fn cfg_block(&self, b: &Block) -> Block {
        let cfg = &self.walker.cfg;
        let on = |s: &Stmt| -> bool { match s {
            Stmt::Local(l) => cfg.enabled(&l.attrs),
            Stmt::Macro(m) => cfg.enabled(&m.attrs),
            Stmt::Expr(e, _) => cfg.enabled(expr_attrs(e)),
            Stmt::Item(Item::Const(c)) => cfg.enabled(&c.attrs),
            Stmt::Item(Item::Use(u)) => cfg.enabled(&u.attrs),
            _ => true } };
        Block { brace_token: b.brace_token, stmts: b.stmts.iter().filter(|s| on(s)).cloned().collect() }
    }

    fn block(&mut self, b: &Block, expected: Option<&Ty>) -> R {
        let fb = self.cfg_block(b); let b = &fb;
        self.locals.push(HashMap::new()); let saved = self.next;
        let mut stmts = vec![]; let mut tail: Option<(Ty, Ir)> = None; let n = b.stmts.len();
        for (i, s) in b.stmts.iter().enumerate() {
            match s {
                Stmt::Local(l) => {
                    let mut ann = if let Pat::Type(pt) = &l.pat { Some(self.conv(&pt.ty)) } else { None };
                    if ann.is_none() { if let (Pat::Ident(pi), Some(init)) = (&l.pat, &l.init) { if let Expr::MethodCall(mc) = &*init.expr { if mc.method == "into" { ann = self.lookahead_arg_type(&pi.ident.to_string(), &b.stmts[i + 1..]); } } } }
                    let shape = if let Pat::Tuple(t) = &l.pat { Some(Tuple(t.elems.iter().map(|_| Unknown("_".into())).collect())) } else { None };
                    if let Some(Named(n)) = &ann { if n.starts_with("MaybeUninit<") { if let Pat::Type(pt) = &l.pat { if let Pat::Ident(pi) = &*pt.pat { stmts.push(St::Let(prim("PUninit4", vec![]))); self.bind_new(&pi.ident.to_string(), M128); continue; } } } }
                    let init = l.init.as_ref().ok_or("let without init")?;
                    if let (Pat::Ident(pi), Expr::Closure(c)) = (&l.pat, &*init.expr) { self.closures.insert(pi.ident.to_string(), c.clone()); continue; }
                    let (t, e) = self.ex(&init.expr, ann.as_ref().or(shape.as_ref()))?;
                    let (t, e) = if matches!(t, FloatLit) { let fl = self.flavour(); self.ex(&init.expr, Some(&fl))? } else if matches!(t, IntLit) { let d = if let Int(_) = self.f.ret { self.f.ret.clone() } else { Int("i32") }; self.ex(&init.expr, Some(&d))? } else { (t, e) };
                    let t = match &ann { Some(a) if !matches!(a, Unknown(_)) => a.clone(), _ => t };
                    self.bind_pat(&l.pat, &t, e, &mut stmts)?;
                }
                Stmt::Expr(e, semi) => {
                    let is_tail = i + 1 == n && semi.is_none();
                    if is_tail { tail = Some(self.ex(e, expected)?); } else { self.stmt_expr(e, &mut stmts)?; }
                }
                Stmt::Macro(m) => { let name = path_last(&m.mac.path); match name.as_str() {
                    "panic" | "unimplemented" | "unreachable" => { if i + 1 == n { tail = Some((Never, Ir::Panic)); } else { stmts.push(St::Expr(Ir::Panic)); } }
                    "glam_assert" => { if self.walker.cfg.features.contains("glam-assert") { let args = m.mac.parse_body_with(punctuated::Punctuated::<Expr, Token![,]>::parse_terminated).map_err(|e| e.to_string())?; let (_, c) = self.ex(&args[0], Some(&Bool))?; stmts.push(St::Assert(c)); } }
                    "assert" => { let args = m.mac.parse_body_with(punctuated::Punctuated::<Expr, Token![,]>::parse_terminated).map_err(|e| e.to_string())?; let (_, c) = self.ex(&args[0], Some(&Bool))?; stmts.push(St::Assert(c)); }
                    o => return Err(format!("stmt macro {o}!")) } }
                Stmt::Item(Item::Const(c)) => { let t = self.conv(&c.ty); let (_, e) = self.ex(&c.expr, Some(&t))?; stmts.push(St::Let(e)); self.bind_new(&c.ident.to_string(), t); }
                Stmt::Item(Item::Use(_)) => {}
                Stmt::Item(_) => return Err("nested item".into()),
            }
        }
        self.locals.pop(); self.next = saved;
        let (t, e) = tail.unwrap_or((Unit, Ir::Unit));
        Ok((t, if stmts.is_empty() { e } else { Ir::Block(stmts, Box::new(e)) }))
    }

    /// type of the parameter that receives local `name` in the first later call `T::f(.., name, ..)` (used for `let x = e.into();`)
    fn lookahead_arg_type(&self, name: &str, rest: &[Stmt]) -> Option<Ty> {
        struct V<'a, 'e> { name: &'a str, this: &'a Lower<'e>, found: Option<Ty> }
        impl<'a, 'e, 'ast> syn::visit::Visit<'ast> for V<'a, 'e> { fn visit_expr_call(&mut self, c: &'ast ExprCall) { if self.found.is_none() { if let Expr::Path(p) = &*c.func { let segs: Vec<String> = p.path.segments.iter().map(|s| s.ident.to_string()).collect(); if segs.len() >= 2 { if let Some(oty) = if segs[segs.len() - 2] == "Self" { Some(self.this.self_ty()) } else { self.this.named_ty(&segs[segs.len() - 2]) } { if let Some(&i) = self.this.env.inherent.get(&(oty, segs.last().unwrap().clone())) { let f = &self.this.env.fns[i]; for (k, a) in c.args.iter().enumerate() { if let Expr::Path(ap) = a { if ap.path.is_ident(self.name) { let k2 = if f.has_self { k.checked_sub(1) } else { Some(k) }; if let Some(k2) = k2 { self.found = f.params.get(k2).map(|x| x.1.clone()); } } } } } } } } } syn::visit::visit_expr_call(self, c); } }
        let mut v = V { name, this: self, found: None }; for s in rest { syn::visit::Visit::visit_stmt(&mut v, s); } v.found
    }
    fn stmt_block(&mut self, b: &Block) -> std::result::Result<Vec<St>, String> {
        let fb = self.cfg_block(b); let b = &fb;
        self.locals.push(HashMap::new()); let saved = self.next; let mut stmts = vec![];
        for s in &b.stmts { match s {
            Stmt::Local(l) => { let init = l.init.as_ref().ok_or("let without init")?; let (t, e) = self.ex(&init.expr, None)?; self.bind_pat(&l.pat, &t, e, &mut stmts)?; }
            Stmt::Expr(e, _) => self.stmt_expr(e, &mut stmts)?,
            Stmt::Macro(m) => { let name = path_last(&m.mac.path); if matches!(name.as_str(), "panic" | "unimplemented") { stmts.push(St::Expr(Ir::Panic)); } else if name == "glam_assert" || name == "assert" { if name == "assert" || self.walker.cfg.features.contains("glam-assert") { let args = m.mac.parse_body_with(punctuated::Punctuated::<Expr, Token![,]>::parse_terminated).map_err(|e| e.to_string())?; let (_, c) = self.ex(&args[0], Some(&Bool))?; stmts.push(St::Assert(c)); } } else { return Err(format!("stmt macro {name}")); } }
            Stmt::Item(Item::Use(_)) => {}
            _ => return Err("item in stmt block".into()) } }
        self.locals.pop(); self.next = saved; Ok(stmts)
    }

    fn place(&mut self, e: &Expr) -> std::result::Result<(Ty, Pl), String> {
        match e {
            Expr::Path(p) if p.path.segments.len() == 1 => { let n = p.path.segments[0].ident.to_string(); let (t, s) = self.lookup(&n).ok_or(format!("unbound place {n}"))?; Ok((t, Pl::Var(s))) }
            Expr::Field(f) => { let (bt, bp) = self.place(&f.base)?; let name = match &f.member { Member::Named(i) => i.to_string(), Member::Unnamed(i) => i.index.to_string() };
                match &bt { Named(n) => { if let Some(fs) = self.env.structs.get(n) { if let Some(i) = fs.iter().position(|(f, _)| f == &name) { return Ok((fs[i].1.clone(), Pl::Fld(Box::new(bp), i))); } } Err(format!("place field {name} of {n} (deref write)")) } Tuple(ts) => { let i: usize = name.parse().map_err(|_| "idx")?; Ok((ts[i].clone(), Pl::Fld(Box::new(bp), i))) } o => Err(format!("place field on {}", o.show())) } }
            Expr::Index(ix) => { let (bt, bp) = self.place(&ix.expr)?; if let Expr::Lit(ExprLit { lit: Lit::Int(i), .. }) = &*ix.index { let i: usize = i.base10_parse().map_err(|_| "idx")?; if let Array(t, _) = bt { return Ok(((*t).clone(), Pl::Fld(Box::new(bp), i))); } } Err("dynamic index place".into()) }
            Expr::Paren(p) => self.place(&p.expr),
            Expr::Unary(u) if matches!(u.op, UnOp::Deref(_)) => self.place(&u.expr),
            o => Err(format!("place {}", o.to_token_stream().to_string().chars().take(30).collect::<String>())),
        }
    }

    fn stmt_expr(&mut self, e: &Expr, stmts: &mut Vec<St>) -> std::result::Result<(), String> {
        match e {
            Expr::Assign(a) if matches!(&*a.left, Expr::Index(_)) && self.place(&a.left).is_err() => {
                // collect index chain
                let mut idxs = vec![]; let mut cur = &*a.left; while let Expr::Index(ix) = cur { idxs.push(&*ix.index); cur = &*ix.expr; } idxs.reverse();
                let (bt, bp) = self.place(cur)?; let mut t = bt.clone(); let base = pl_read(&bp);
                let mut reads = vec![base.clone()]; let mut ies = vec![];
                for ie in &idxs { let (it, x) = self.ex(ie, Some(&Int("usize")))?; if !matches!(it, Int(_)) { return Err("index type".into()); } let et = match &t { Array(e, _) | Slice(e) => (**e).clone(), Named(_) => { if idxs.len() != 1 { return Err("nested IndexMut".into()); } let (_, c) = self.resolve_method(&t, "index_mut", &[it.clone()], None)?; let Callee::Fn(fi) = c else { return Err("index_mut callee".into()) }; let vt = self.env.fns[fi].ret.clone(); let (_, v) = self.ex(&a.right, Some(&vt))?; stmts.push(St::Assign(bp, Ir::Call(fi + self.env.fns.len(), vec![base, x, v]))); return Ok(()); } o => return Err(format!("index assign on {}", o.show())) }; reads.push(prim("PIdx", vec![reads.last().unwrap().clone(), x.clone()])); ies.push(x); t = et; }
                let (_, v) = self.ex(&a.right, Some(&t))?; let mut newv = v; for k in (0..ies.len()).rev() { newv = prim("PUpdDyn", vec![reads[k].clone(), ies[k].clone(), newv]); }
                stmts.push(St::Assign(bp, newv)); Ok(()) }
            Expr::Assign(a) => {
                match self.place(&a.left) { Ok((lt, pl)) => { let (_, r) = self.ex(&a.right, Some(&lt))?; stmts.push(St::Assign(pl, r)); Ok(()) }
                    Err(e) => { if let Expr::Field(f) = &*a.left { if let Ok((bt, bp)) = self.place(&f.base) { if let Some(d) = self.env.deref.get(&bt).cloned() { let fname = match &f.member { Member::Named(i) => i.to_string(), Member::Unnamed(i) => i.index.to_string() };
                            // leaf index of the field in the overlay = leaf index in the base
                            let (ft, fe) = self.field((d.clone(), Ir::Unit), &fname)?; let mut path = vec![]; let mut cur = &fe; while let Ir::Prim(p, a) = cur { if let Some(i) = p.strip_prefix("PProj ") { path.push(i.parse::<usize>().unwrap()); cur = &a[0]; } else { break; } } path.reverse();
                            let dl = self.leaves(&d).ok_or("overlay layout")?; let start = dl.iter().position(|(p, _)| p.starts_with(&path)).ok_or("overlay leaf")?; let cnt = self.leaves(&ft).ok_or("field layout")?.len();
                            let bl = self.leaves(&bt).ok_or("base layout")?; let (_, re) = self.ex(&a.right, Some(&ft))?;
                            let base_read = pl_read(&bp); let rslot = self.next; // temp for rhs
                            let mut ls = vec![]; for (i, (p, _)) in bl.iter().enumerate() { if i >= start && i < start + cnt { let fl = self.leaves(&ft).unwrap(); let mut x = Ir::Var(rslot); for &k in &fl[i - start].0 { x = proj(k, x); } ls.push(x); } else { let mut x = base_read.clone(); for &k in p { x = proj(k, x); } ls.push(x); } }
                            let rebuilt = self.build(&bt, &mut ls.into_iter()).ok_or("rebuild")?; stmts.push(St::Assign(bp, Ir::Block(vec![St::Let(re)], Box::new(rebuilt)))); return Ok(()); } } }
                        Err(e) } } }
            Expr::Binary(b) if matches!(b.op, BinOp::AddAssign(_) | BinOp::SubAssign(_) | BinOp::MulAssign(_) | BinOp::DivAssign(_) | BinOp::RemAssign(_)) => {
                let op: BinOp = match b.op { BinOp::AddAssign(_) => parse_quote!(+), BinOp::SubAssign(_) => parse_quote!(-), BinOp::MulAssign(_) => parse_quote!(*), BinOp::DivAssign(_) => parse_quote!(/), _ => parse_quote!(%) };
                let (lt, pl) = self.place(&b.left)?; let synth = Expr::Binary(ExprBinary { attrs: vec![], left: b.left.clone(), op, right: b.right.clone() }); let (_, r) = self.ex(&synth, Some(&lt))?; stmts.push(St::Assign(pl, r)); Ok(()) }
            Expr::If(i) if i.else_branch.is_none() || true => {
                if let Expr::Let(_) = &*i.cond { return Err("if-let statement".into()); }
                let (_, c) = self.ex(&i.cond, Some(&Bool))?; let t = self.stmt_block(&i.then_branch)?;
                let f = match &i.else_branch { None => vec![], Some((_, e)) => match &**e { Expr::Block(b) => self.stmt_block(&b.block)?, other => { let mut v = vec![]; self.stmt_expr(other, &mut v)?; v } } };
                let only_assign = |v: &Vec<St>| v.iter().all(|s| matches!(s, St::Assign(_, e) if pure_simple(e)));
                if only_assign(&t) && only_assign(&f) && !(t.is_empty() && f.is_empty()) {
                    let slot = self.next; self.next += 1; stmts.push(St::Let(c));
                    for s in &t { if let St::Assign(p, e) = s { stmts.push(St::Assign(p.clone(), prim("PSelect", vec![Ir::Var(slot), e.clone(), pl_read(p)]))); } }
                    for s in &f { if let St::Assign(p, e) = s { stmts.push(St::Assign(p.clone(), prim("PSelect", vec![Ir::Var(slot), pl_read(p), e.clone()]))); } }
                    return Ok(()); }
                stmts.push(St::If(c, t, f)); Ok(()) }
            Expr::Call(c) if matches!(&*c.func, Expr::Path(p) if matches!(path_last(&p.path).as_str(), "_mm_store_ps" | "_mm_storeu_ps")) => {
                // store into a MaybeUninit<Align16<T>> local (modelled as a 4-lane value) or into the first four elements of a slice
                let mut tgt: &Expr = &c.args[0]; loop { match tgt { Expr::MethodCall(mc) if matches!(mc.method.to_string().as_str(), "cast" | "as_mut_ptr") => tgt = &mc.receiver, Expr::Paren(p) => tgt = &p.expr, _ => break } }
                let (tt, pl) = self.place(tgt)?; let (_, v) = self.ex(&c.args[1], Some(&M128))?;
                match tt { M128 => stmts.push(St::Assign(pl, v)), Slice(_) => { let (_, be) = self.ex(tgt, None)?; stmts.push(St::Assign(pl, prim("PWriteRange 0 4", vec![be, v]))) } o => return Err(format!("store target {}", o.show())) } Ok(()) }
            Expr::Match(m) if { let saved = self.next; let r = self.ex(&m.expr, None); self.next = saved; matches!(r, Ok((Int(_), _))) } && m.arms.iter().any(|a| matches!(&*a.body, Expr::Assign(_))) => {
                let (_, se) = self.ex(&m.expr, None)?; let slot = self.next; stmts.push(St::Let(se)); self.next += 1; let mut chain: Vec<St> = vec![St::Expr(Ir::Panic)];
                for arm in m.arms.iter().rev() { match &arm.pat { Pat::Wild(_) => { let mut b = vec![]; self.stmt_expr(&arm.body, &mut b)?; chain = b; } Pat::Lit(l) => { let k = self.lit_int(&Expr::Lit(ExprLit { attrs: vec![], lit: l.lit.clone() })).ok_or("arm key")?; let mut b = vec![]; self.stmt_expr(&arm.body, &mut b)?; chain = vec![St::If(prim("PICmp IEq", vec![Ir::Var(slot), Ir::LitI("usize", k)]), b, chain)]; } o => return Err(format!("stmt match arm {}", o.to_token_stream())) } }
                stmts.extend(chain); Ok(()) }
            Expr::MethodCall(m) if m.args.len() == 1 && matches!(&m.args[0], Expr::Reference(r) if r.mutability.is_some() && matches!(&*r.expr, Expr::Index(ix) if matches!(&*ix.index, Expr::Range(_)))) => {
                // callee(&mut x[lo..hi]) where the callee writes through its slice parameter: write the returned sub-slice back
                let Expr::Reference(r) = &m.args[0] else { unreachable!() }; let Expr::Index(ix) = &*r.expr else { unreachable!() }; let Expr::Range(rg) = &*ix.index else { unreachable!() };
                let lo = match &rg.start { Some(e) => self.lit_int(e).ok_or("range start")?, None => 0 }; let hi = match &rg.end { Some(e) => self.lit_int(e).ok_or("range end")?, None => return Err("open range".into()) };
                let (_, pl) = self.place(&ix.expr)?; let (_, be) = self.ex(&ix.expr, None)?; let (_, call) = self.ex(e, None)?;
                stmts.push(St::Assign(pl, prim(&format!("PWriteRange {lo} {hi}"), vec![be, call]))); Ok(()) }
            Expr::MethodCall(m) if m.method == "copy_from_slice" => {
                let Expr::Index(ix) = &*m.receiver else { return Err("copy_from_slice receiver".into()) }; let Expr::Range(r) = &*ix.index else { return Err("copy_from_slice range".into()) };
                let (_, pl) = self.place(&ix.expr)?; let (_, be) = self.ex(&ix.expr, None)?; let lo = match &r.start { Some(e) => self.lit_int(e).ok_or("range start")?, None => 0 }; let hi = match &r.end { Some(e) => self.lit_int(e).ok_or("range end")?, None => return Err("open range".into()) };
                let (_, src) = self.ex(&m.args[0], None)?; stmts.push(St::Assign(pl, prim(&format!("PWriteRange {lo} {hi}"), vec![be, src]))); Ok(()) }
            Expr::MethodCall(m) if matches!(m.method.to_string().as_str(), "add_assign" | "sub_assign" | "mul_assign" | "div_assign" | "rem_assign") && { let saved = self.next; let r = self.ex(&m.receiver, None); self.next = saved; matches!(r, Ok((F32 | F64 | Int(_), _))) } => {
                let op: BinOp = match m.method.to_string().as_str() { "add_assign" => parse_quote!(+), "sub_assign" => parse_quote!(-), "mul_assign" => parse_quote!(*), "div_assign" => parse_quote!(/), _ => parse_quote!(%) };
                let (lt, pl) = self.place(&m.receiver)?; let synth = Expr::Binary(ExprBinary { attrs: vec![], left: m.receiver.clone(), op, right: Box::new(m.args[0].clone()) }); let (_, r) = self.ex(&synth, Some(&lt))?; stmts.push(St::Assign(pl, r)); Ok(()) }
            Expr::MethodCall(m) if m.method == "set" && m.args.len() == 2 && { let saved = self.next; let r = self.ex(&m.receiver, None); self.next = saved; matches!(r, Ok((Simd(_), _))) } => {
                let (_, pl) = self.place(&m.receiver)?; let (_, re) = self.ex(&m.receiver, None)?; let (_, ie) = self.ex(&m.args[0], Some(&Int("usize")))?; let (_, ve) = self.ex(&m.args[1], Some(&Bool))?;
                stmts.push(St::Assign(pl, prim("PUpdDyn", vec![re, ie, ve]))); Ok(()) }
            Expr::MethodCall(m) if self.is_mut_method(m) => {
                let (rt, pl) = self.place(&m.receiver)?; let name = m.method.to_string(); let (_, re) = self.ex(&m.receiver, None)?;
                let ptys: Vec<Ty> = self.env.inherent.get(&(rt.clone(), name.clone())).map(|&i| self.env.fns[i].params.iter().map(|p| p.1.clone()).collect()).unwrap_or_default();
                let (ts, es) = self.args_with(&m.args, &ptys)?; let (_, callee) = self.resolve_method(&rt, &name, &ts, None)?; let mut all = vec![re]; all.extend(es); let call = self.apply(callee, all)?; stmts.push(St::Assign(pl, call)); Ok(()) }
            // a nested block in statement position runs in the enclosing environment (its assignments to outer locals persist)
            Expr::Block(_) | Expr::Unsafe(_) if { let b = match e { Expr::Block(b) => &b.block, Expr::Unsafe(u) => &u.block, _ => unreachable!() }; let saved = self.next; let ln = self.locals.len(); let r = self.stmt_block(b); self.next = saved; self.locals.truncate(ln); r.is_ok() } => {
                let b = match e { Expr::Block(b) => &b.block, Expr::Unsafe(u) => &u.block, _ => unreachable!() }; let t = self.stmt_block(b)?; stmts.push(St::If(Ir::LitB(true), t, vec![])); Ok(()) }
            Expr::Return(_) | Expr::Macro(_) | Expr::Call(_) | Expr::MethodCall(_) | Expr::Block(_) | Expr::Unsafe(_) | Expr::Match(_) => { let (_, ir) = self.ex(e, None)?; stmts.push(St::Expr(ir)); Ok(()) }
            o => Err(format!("stmt expr {}", o.to_token_stream().to_string().chars().take(30).collect::<String>())),
        }
    }

    fn is_mut_method(&mut self, m: &ExprMethodCall) -> bool {
        let name = m.method.to_string(); let saved = self.next; let r = self.ex(&m.receiver, None); self.next = saved; let Ok((rt, _)) = r else { return false };
        if let Some(&i) = self.env.inherent.get(&(rt.clone(), name.clone())) { return self.env.fns[i].self_mut; }
        self.env.trait_impls.iter().any(|((_, st, mn), idxs)| st == &rt && mn == &name && idxs.iter().any(|&i| self.env.fns[i].self_mut))
    }
    fn lit_int(&self, e: &Expr) -> Option<i128> { match e { Expr::Lit(ExprLit { lit: Lit::Int(i), .. }) => i.base10_parse().ok(), Expr::Paren(p) => self.lit_int(&p.expr), Expr::Unary(u) if matches!(u.op, UnOp::Neg(_)) => self.lit_int(&u.expr).map(|x| -x), _ => None } }

    fn num_lit(&self, t: &Ty, text: &str, is_float: bool) -> std::result::Result<Ir, String> {
        match t { F32 => Ok(Ir::LitF32(text.parse::<f32>().map_err(|e| e.to_string())?.to_bits())), F64 => Ok(Ir::LitF64(text.parse::<f64>().map_err(|e| e.to_string())?.to_bits())),
            Int(k) if !is_float => Ok(Ir::LitI(k, text.parse::<i128>().map_err(|e| e.to_string())?)), o => Err(format!("literal {text} at type {}", o.show())) }
    }

    fn const_path(&self, owner: &Ty, name: &str) -> Option<(Ty, Ir)> {
        let r = |t: &Ty, f32v: f32, f64v: f64| -> Option<(Ty, Ir)> { match t { F32 => Some((F32, Ir::LitF32(f32v.to_bits()))), F64 => Some((F64, Ir::LitF64(f64v.to_bits()))), _ => None } };
        match name { "EPSILON" => r(owner, f32::EPSILON, f64::EPSILON), "MAX" if owner.is_float() => r(owner, f32::MAX, f64::MAX), "MIN" if owner.is_float() => r(owner, f32::MIN, f64::MIN), "NAN" => r(owner, f32::NAN, f64::NAN), "INFINITY" => r(owner, f32::INFINITY, f64::INFINITY), "NEG_INFINITY" => r(owner, f32::NEG_INFINITY, f64::NEG_INFINITY),
            "MAX" | "MIN" => if let Int(k) = owner { let (lo, hi): (i128, i128) = match *k { "i8" => (-128, 127), "u8" => (0, 255), "i16" => (-32768, 32767), "u16" => (0, 65535), "i32" => (i32::MIN as i128, i32::MAX as i128), "u32" => (0, u32::MAX as i128), "i64" => (i64::MIN as i128, i64::MAX as i128), _ => (0, u64::MAX as i128) }; Some((owner.clone(), Ir::LitI(k, if name == "MAX" { hi } else { lo }))) } else { None },
            _ => None }
    }

    pub fn ex(&mut self, e: &Expr, expected: Option<&Ty>) -> R {
        match e {
            Expr::Lit(l) => match &l.lit {
                Lit::Float(f) => { let t = match f.suffix() { "f32" => F32, "f64" => F64, _ => match expected { Some(t @ (F32 | F64)) => t.clone(), _ => return Ok((FloatLit, Ir::LitF64(f.base10_digits().parse::<f64>().unwrap().to_bits()))) } }; Ok((t.clone(), self.num_lit(&t, f.base10_digits(), true)?)) }
                Lit::Int(i) => { let t = match i.suffix() { "" => match expected { Some(t @ Int(_)) => t.clone(), Some(t @ (F32 | F64)) if false => t.clone(), _ => return Ok((IntLit, Ir::LitI("i32", i.base10_parse().map_err(|e: syn::Error| e.to_string())?))) }, s => int_name(s).map(Int).ok_or("int suffix")? }; Ok((t.clone(), self.num_lit(&t, i.base10_digits(), false)?)) }
                Lit::Bool(b) => Ok((Bool, Ir::LitB(b.value))), _ => Err("literal kind".into()) },
            Expr::Paren(p) => self.ex(&p.expr, expected),
            Expr::Group(p) => self.ex(&p.expr, expected),
            Expr::Reference(r) => self.ex(&r.expr, expected),
            Expr::Unary(u) => {
                if let UnOp::Deref(_) = u.op { // pointer-cast idiom: *(self as *const A as *const B)
                    if let Expr::MethodCall(mc) = &*u.expr { if mc.method == "cast" { let inner = if let Expr::Paren(p) = &*mc.receiver { &*p.expr } else { &*mc.receiver }; if let Expr::Cast(c1) = inner { if let Type::Ptr(_) = &*c1.ty { let to = expected.cloned().unwrap_or(self.f.ret.clone()); let (st, se) = self.ex(&c1.expr, None)?; let ir = self.view(se, &st, &to)?; return Ok((to, ir)); } } } }
                    { let inner = if let Expr::Paren(p) = &*u.expr { &*p.expr } else { &*u.expr }; if let Expr::Cast(c1) = inner { if let (Type::Ptr(p1), Expr::MethodCall(mc)) = (&*c1.ty, &*c1.expr) { if mc.method == "as_ptr" { let (st, se) = self.ex(&mc.receiver, None)?; let to = self.conv(&p1.elem); let ir = self.view(se, &st, &to)?; return Ok((to, ir)); } } } }
                    if let Some((src, to)) = ptr_cast_chain(&u.expr) { let (st, se) = self.ex(src, None)?; let to = self.conv(to); let ir = self.view(se, &st, &to)?; return Ok((to, ir)); }
                    return self.ex(&u.expr, expected); }
                let (t, x) = self.ex(&u.expr, expected)?;
                // retype literal under negation
                let (t, x) = if matches!(t, IntLit | FloatLit) { if let Some(et) = expected { if et.is_scalar() && !matches!(et, Bool) { self.ex(&u.expr, Some(et))? } else { (t, x) } } else { (t, x) } } else { (t, x) };
                match (&u.op, &t) {
                    (UnOp::Neg(_), F32) if matches!(x, Ir::LitF32(_)) => { let Ir::LitF32(b) = x else { unreachable!() }; Ok((F32, Ir::LitF32(b ^ 0x8000_0000))) }
                    (UnOp::Neg(_), F64) if matches!(x, Ir::LitF64(_)) => { let Ir::LitF64(b) = x else { unreachable!() }; Ok((F64, Ir::LitF64(b ^ 0x8000_0000_0000_0000))) }
                    (UnOp::Neg(_), F32 | F64) => Ok((t.clone(), prim(&format!("PF1 {} FNeg", fkc(&t)), vec![x]))), (UnOp::Neg(_), Int(k)) => Ok((t.clone(), prim(&format!("PI1 {} INeg", ikc(k)), vec![x]))),
                    (UnOp::Neg(_), IntLit) => if let Ir::LitI(k, v) = x { Ok((IntLit, Ir::LitI(k, -v))) } else { Err("neg lit".into()) }, (UnOp::Neg(_), FloatLit) => if let Ir::LitF64(b) = x { Ok((FloatLit, Ir::LitF64((-f64::from_bits(b)).to_bits()))) } else { Err("neg flit".into()) },
                    (UnOp::Not(_), Bool) => Ok((Bool, prim("PBNot", vec![x]))), (UnOp::Not(_), Int(k)) => Ok((t.clone(), prim(&format!("PI1 {} INot", ikc(k)), vec![x]))),
                    (UnOp::Neg(_), _) => { let (rt, c) = self.resolve_method(&t, "neg", &[], expected)?; Ok((rt, self.apply(c, vec![x])?)) }
                    (UnOp::Not(_), _) => { let (rt, c) = self.resolve_method(&t, "not", &[], expected)?; Ok((rt, self.apply(c, vec![x])?)) }
                    _ => Err("unary".into()) }
            }
            Expr::Binary(b) => self.binary(b, expected),
            Expr::Cast(c) => { let to = self.conv(&c.ty); if matches!(to, Ptr(_)) { return Err("raw pointer cast outside deref idiom".into()); }
                let (ft, x) = self.ex(&c.expr, None)?; let (ft, x) = if matches!(ft, IntLit) { if let Int(_) = to { self.ex(&c.expr, Some(&to))? } else { self.ex(&c.expr, Some(&Int("i32")))? } } else if matches!(ft, FloatLit) { self.ex(&c.expr, Some(&F64))? } else { (ft, x) };
                let p = match (&ft, &to) { (Int(a), Int(b)) => format!("PCastII {} {}", ikc(a), ikc(b)), (F32 | F64, Int(b)) => format!("PCastFI {} {}", fkc(&ft), ikc(b)), (Int(a), F32 | F64) => format!("PCastIF {} {}", ikc(a), fkc(&to)), (F32 | F64, F32 | F64) => format!("PCastFF {} {}", fkc(&ft), fkc(&to)), (Bool, Int(b)) => format!("PCastBI {}", ikc(b)), (Named(n), Int(b)) if self.env.enums.contains_key(n) => format!("PCastII U32 {}", ikc(b)), (a, b) => return Err(format!("cast {} as {}", a.show(), b.show())) };
                Ok((to, prim(&p, vec![x]))) }
            Expr::Path(p) => self.path_value(p, expected),
            Expr::Field(f) => { let name = match &f.member { Member::Named(i) => i.to_string(), Member::Unnamed(i) => i.index.to_string() };
                // union literal read: UnionCast { a: [..] }.v
                if let Expr::Struct(s) = &*f.base { let un = path_last(&s.path); if let Some(fs) = self.env.unions.iter().find(|(k, _)| k.ends_with(&format!("::{un}")) && k.starts_with(&self.f.module)).or(self.env.unions.iter().find(|(k, _)| k.ends_with(&format!("::{un}")))).map(|(_, v)| v.clone()) {
                    let fv = s.fields.first().ok_or("union lit")?; let wname = match &fv.member { Member::Named(i) => i.to_string(), _ => return Err("union member".into()) }; let wt = fs.iter().find(|(n, _)| n == &wname).ok_or("union field")?.1.clone(); let rt = fs.iter().find(|(n, _)| n == &name).ok_or("union read field")?.1.clone();
                    let (_, we) = self.ex(&fv.expr, Some(&wt))?; let ir = self.view(we, &wt, &rt)?; return Ok((rt, ir)); } }
                if let Expr::MethodCall(mc) = &*f.base { if mc.method == "assume_init" && name == "0" { let (bt, be) = self.ex(&mc.receiver, None)?; if bt == M128 { let to = expected.cloned().unwrap_or(self.f.ret.clone()); let ir = self.view(be, &M128, &to)?; return Ok((to, ir)); } } }
                let b = self.ex(&f.base, None)?; self.field(b, &name) }
            Expr::Index(i) if matches!(&*i.index, Expr::Range(_)) => { let (bt, be) = self.ex(&i.expr, None)?; let Expr::Range(r) = &*i.index else { unreachable!() }; let et = match &bt { Slice(t) | Array(t, _) => (**t).clone(), o => return Err(format!("range index on {}", o.show())) };
                let lo = match &r.start { Some(e) => self.lit_int(e).ok_or("range start")?, None => 0 }; let hi = match &r.end { Some(e) => self.lit_int(e).ok_or("range end")?, None => return Err("open range".into()) };
                Ok((Array(Box::new(et), Some((hi - lo) as usize)), prim(&format!("PRange {lo} {hi}"), vec![be])) ) }
            Expr::Index(i) => { let (bt, be) = self.ex(&i.expr, None)?; if let Some(k) = self.lit_int(&i.index) { if let Array(t, Some(n)) = &bt { if (k as usize) < *n { return Ok(((**t).clone(), proj(k as usize, be))); } } if bt == M128 && (0..4).contains(&k) { return Ok((F32, proj(k as usize, be))); } }
                let (it, ie) = self.ex(&i.index, Some(&Int("usize")))?; match (&bt, &it) { (Array(t, _) | Slice(t), Int(_)) => Ok(((**t).clone(), prim("PIdx", vec![be, ie]))), (M128, Int(_)) => Ok((F32, prim("PIdx", vec![be, ie]))), (Named(_), _) => { let (rt, c) = self.resolve_method(&bt, "index", &[it], expected)?; Ok((rt, self.apply(c, vec![be, ie])?)) } _ => Err(format!("index {} by {}", bt.show(), it.show())) } }
            Expr::Tuple(t) => { let mut ts = vec![]; let mut es = vec![]; for (i, e) in t.elems.iter().enumerate() { let ex = match expected { Some(Tuple(x)) => x.get(i), _ => None }; let (a, b) = self.ex(e, ex)?; ts.push(a); es.push(b); } if ts.is_empty() { Ok((Unit, Ir::Unit)) } else { Ok((Tuple(ts), mk(es))) } }
            Expr::Array(a) => { let ex = match expected { Some(Array(t, _)) | Some(Slice(t)) => Some((**t).clone()), _ => None }; let mut et = Unknown("empty".into()); let mut es = vec![]; for e in &a.elems { let (t, x) = self.ex(e, ex.as_ref())?; if !matches!(t, IntLit | FloatLit) || matches!(et, Unknown(_)) { et = t; } es.push(x); } if matches!(et, FloatLit) { let fl = Array(Box::new(self.flavour()), Some(a.elems.len())); return self.ex(e, Some(&fl)); } if matches!(et, IntLit) { return Err("untyped int array literal".into()); } Ok((Array(Box::new(et), Some(a.elems.len())), mk(es))) }
            Expr::Repeat(r) => { let ex = match expected { Some(Array(t, _)) => Some((**t).clone()), _ => None }; let (t, x) = self.ex(&r.expr, ex.as_ref())?; let n = self.lit_int(&r.len).ok_or("repeat len")? as usize; if matches!(t, FloatLit) && ex.is_none() { let fl = Array(Box::new(self.flavour()), Some(n)); return self.ex(e, Some(&fl)); } if matches!(t, IntLit | FloatLit) { return Err("untyped repeat".into()); } Ok((Array(Box::new(t), Some(n)), prim(&format!("PSplat {n}"), vec![x]))) }
            Expr::Struct(s) => { let name = path_last(&s.path); let ty = if name == "Self" { self.self_ty() } else { Named(name.clone()) }; let Named(n) = &ty else { return Err("struct lit".into()) }; let fs = self.env.structs.get(n).ok_or(format!("struct {n}"))?.clone();
                // evaluate in source order, then arrange by field index
                let mut stmts = vec![]; let mut slots = vec![None; fs.len()]; let saved = self.next;
                for fv in &s.fields { let fname = match &fv.member { Member::Named(i) => i.to_string(), Member::Unnamed(i) => i.index.to_string() }; let i = fs.iter().position(|(f, _)| f == &fname).ok_or("struct field")?; let (_, x) = self.ex(&fv.expr, Some(&fs[i].1))?; stmts.push(St::Let(x)); slots[i] = Some(Ir::Var(self.next)); self.next += 1; }
                self.next = saved; let vals = slots.into_iter().collect::<Option<Vec<_>>>().ok_or("missing field")?; Ok((ty, Ir::Block(stmts, Box::new(mk(vals))))) }
            Expr::Call(c) => self.call(c, expected),
            Expr::MethodCall(m) => self.method_call(m, expected),
            Expr::If(i) if matches!(&*i.cond, Expr::Let(_)) => { let Expr::Let(l) = &*i.cond else { unreachable!() }; let (st, se) = self.ex(&l.expr, None)?; let Opt(inner) = st else { return Err("if let on non-option".into()) };
                let Pat::TupleStruct(ts) = &*l.pat else { return Err("if let pattern".into()) }; self.locals.push(HashMap::new()); let saved = self.next; if let Some(Pat::Ident(pi)) = ts.elems.first() { self.bind_new(&pi.ident.to_string(), *inner); } else { self.next += 1; }
                let (tt, te) = self.block(&i.then_branch, expected)?; self.locals.pop(); self.next = saved; let (_, ee) = match &i.else_branch { Some((_, e)) => self.ex(e, expected)?, None => (Unit, Ir::Unit) }; Ok((tt, Ir::MatchOpt(Box::new(se), Box::new(te), Box::new(ee)))) }
            Expr::If(i) => { let (_, c) = self.ex(&i.cond, Some(&Bool))?; let (tt, te) = self.block(&i.then_branch, expected)?; let (et, ee) = match &i.else_branch { Some((_, e)) => self.ex(e, expected.or(Some(&tt)))?, None => (Unit, Ir::Unit) }; let rt = if matches!(tt, Never | IntLit | FloatLit) { et } else { tt }; if i.else_branch.is_some() && pure_simple(&te) && pure_simple(&ee) && !matches!(rt, Never | Unit) { return Ok((rt, prim("PSelect", vec![c, te, ee]))); } Ok((rt, Ir::If(Box::new(c), Box::new(te), Box::new(ee)))) }
            Expr::Block(b) => self.block(&b.block, expected),
            Expr::Unsafe(u) => self.block(&u.block, expected),
            Expr::Match(m) => self.match_(m, expected),
            Expr::Return(r) => { let ret = self.f.ret.clone(); let x = match &r.expr { Some(e) => self.ex(e, Some(&ret))?.1, None => Ir::Unit }; Ok((Never, Ir::Return(Box::new(x)))) }
            Expr::Try(t) => { let (it, x) = self.ex(&t.expr, None)?; match it { Opt(t) => Ok((*t, Ir::Try(Box::new(x)))), Res(t) => Ok((*t, Ir::Try(Box::new(x)))), o => Err(format!("? on {}", o.show())) } }
            Expr::Macro(m) => { let name = path_last(&m.mac.path); match name.as_str() { "panic" | "unimplemented" | "unreachable" => Ok((Never, Ir::Panic)),
                "simd_swizzle" => { let args = m.mac.parse_body_with(punctuated::Punctuated::<Expr, Token![,]>::parse_terminated).map_err(|e| e.to_string())?; let n = args.len(); if n < 2 || n > 3 { return Err("simd_swizzle arity".into()); }
                    let Expr::Array(ia) = &args[n - 1] else { return Err("simd_swizzle indices".into()) }; let idx: Option<Vec<i128>> = ia.elems.iter().map(|e| self.lit_int(e)).collect(); let idx = idx.ok_or("simd_swizzle index")?;
                    let mut vs = vec![]; let mut ty = M128; for a in args.iter().take(n - 1) { let (t, x) = self.ex(a, None)?; ty = t; vs.push(x); }
                    Ok((ty, prim(&format!("PSwizzle [{}]", idx.iter().map(|i| format!("{i}%nat")).collect::<Vec<_>>().join("; ")), vs))) }
                "stringify" => Ok((Str, prim(&format!("PStr \"{}\"", m.mac.tokens.to_string().replace(' ', "")), vec![]))),
                "write" => { let args = m.mac.parse_body_with(punctuated::Punctuated::<Expr, Token![,]>::parse_terminated).map_err(|e| e.to_string())?; let Expr::Lit(ExprLit { lit: Lit::Str(fs), .. }) = &args[1] else { return Err("write! format".into()) }; let fstr = fs.value();
                    // placeholders in order: {} {:?} {:#x} {:.*} ...
                    let mut specs = vec![]; let b = fstr.as_bytes(); let mut i = 0; while i < b.len() { if b[i] == b'{' { if i + 1 < b.len() && b[i + 1] == b'{' { i += 2; continue; } let j = fstr[i..].find('}').ok_or("format brace")? + i; specs.push(fstr[i + 1..j].to_string()); i = j + 1; } else { i += 1; } }
                    let mut vals = vec![]; let mut k = 2; for sp in &specs { let prec = if sp.contains(".*") { let (_, pe) = self.ex(&args[k], Some(&Int("usize")))?; k += 1; prim("PSome", vec![pe]) } else { prim("PNone", vec![]) };
                        let (at, ae) = self.ex(&args[k], None)?; k += 1; let dbg = sp.contains('?');
                        let v = match &at { F32 | F64 | Int(_) | Bool | Str | IntLit => ae, Named(_) => { let want = if dbg { "Debug" } else { "Display" }; let mut cands = vec![]; for ((tn, st, mn), idxs) in &self.env.trait_impls { if tn == want && st == &at && mn == "fmt" { cands.extend(idxs.iter().copied()); } } if cands.len() != 1 { return Err(format!("{want} impl for {}", at.show())); } Ir::Call(cands[0], vec![ae, prec.clone()]) } o => return Err(format!("format arg {}", o.show())) };
                        vals.push(mk(vec![prec, v])); }
                    Ok((Res(Box::new(Unit)), prim(&format!("PFmt \"{}\"", fstr.replace('"', "'")), vals))) }
                n => Err(format!("macro {n}!")) } }
            other => Err(format!("unsupported expr: {}", other.to_token_stream().to_string().chars().take(40).collect::<String>())),
        }
    }

    fn binary(&mut self, b: &ExprBinary, expected: Option<&Ty>) -> R {
        use BinOp::*;
        let cmp = matches!(b.op, Eq(_) | Ne(_) | Lt(_) | Le(_) | Gt(_) | Ge(_)); let logic = matches!(b.op, And(_) | Or(_));
        let exp_l = if cmp || logic { None } else { expected };
        let (mut lt, mut le) = self.ex(&b.left, if logic { Some(&Bool) } else { exp_l })?;
        let hint = if lt.is_scalar() && !matches!(b.op, Shl(_) | Shr(_)) && !matches!(lt, IntLit | FloatLit) { Some(lt.clone()) } else { None };
        let (mut rt, mut re) = self.ex(&b.right, hint.as_ref().or(if logic { Some(&Bool) } else { None }))?;
        if matches!(lt, IntLit | FloatLit) && rt.is_scalar() && !matches!(rt, IntLit | FloatLit) { let r = self.ex(&b.left, Some(&rt))?; lt = r.0; le = r.1; }
        if matches!(rt, IntLit | FloatLit) && lt.is_scalar() && !matches!(lt, IntLit | FloatLit) && !matches!(b.op, Shl(_) | Shr(_)) { let r = self.ex(&b.right, Some(&lt))?; rt = r.0; re = r.1; }
        if matches!(lt, IntLit | FloatLit) && matches!(rt, IntLit | FloatLit) { let t = match expected { Some(t) if t.is_scalar() && !matches!(t, Bool) => t.clone(), _ => if matches!(lt, FloatLit) || matches!(rt, FloatLit) { F64 } else { Int("i32") } }; let l = self.ex(&b.left, Some(&t))?; let r = self.ex(&b.right, Some(&t))?; lt = l.0; le = l.1; rt = r.0; re = r.1; }
        if logic { return Ok((Bool, match b.op { And(_) => Ir::If(Box::new(le), Box::new(re), Box::new(Ir::LitB(false))), _ => Ir::If(Box::new(le), Box::new(Ir::LitB(true)), Box::new(re)) })); }
        let (fo, io, co, mname) = match b.op { Add(_) => ("FAdd", "IAdd", "", "add"), Sub(_) => ("FSub", "ISub", "", "sub"), Mul(_) => ("FMul", "IMul", "", "mul"), Div(_) => ("FDiv", "IDiv", "", "div"), Rem(_) => ("FRem", "IRem", "", "rem"), BitAnd(_) => ("", "IAnd", "", "bitand"), BitOr(_) => ("", "IOr", "", "bitor"), BitXor(_) => ("", "IXor", "", "bitxor"), Shl(_) => ("", "SHL", "", "shl"), Shr(_) => ("", "SHR", "", "shr"),
            Eq(_) => ("", "", "Eq", "eq"), Ne(_) => ("", "", "Ne", "ne"), Lt(_) => ("", "", "Lt", "lt"), Le(_) => ("", "", "Le", "le"), Gt(_) => ("", "", "Gt", "gt"), Ge(_) => ("", "", "Ge", "ge"), _ => return Err("compound assignment in expression".into()) };
        if lt.is_scalar() && rt.is_scalar() {
            if cmp { return match (&lt, &rt) { (F32, F32) | (F64, F64) => Ok((Bool, prim(&format!("PFCmp {} F{co}", fkc(&lt)), vec![le, re]))), (Int(_), Int(_)) => Ok((Bool, prim(&format!("PICmp I{co}"), vec![le, re]))), (Bool, Bool) if co == "Eq" => Ok((Bool, prim("PBEq", vec![le, re]))), (Bool, Bool) if co == "Ne" => Ok((Bool, prim("PBXor", vec![le, re]))), _ => Err(format!("cmp {} {}", lt.show(), rt.show())) }; }
            return match (&lt, &rt) { (F32, F32) | (F64, F64) if !fo.is_empty() => Ok((lt.clone(), prim(&format!("PF2 {} {fo}", fkc(&lt)), vec![le, re]))),
                (Int(k), Int(k2)) => { if io == "SHL" || io == "SHR" { Ok((lt.clone(), prim(&format!("{} {} {}", if io == "SHL" { "PIShl" } else { "PIShr" }, ikc(k), ikc(k2)), vec![le, re]))) } else if k == k2 { Ok((lt.clone(), prim(&format!("PI2 {} {io}", ikc(k)), vec![le, re]))) } else { Err(format!("int binop {k} {k2}")) } }
                (Int(k), IntLit) if io == "SHL" || io == "SHR" => Ok((lt.clone(), prim(&format!("{} {} I32", if io == "SHL" { "PIShl" } else { "PIShr" }, ikc(k)), vec![le, re]))),
                (Bool, Bool) => match mname { "bitand" => Ok((Bool, prim("PBAnd", vec![le, re]))), "bitor" => Ok((Bool, prim("PBOr", vec![le, re]))), "bitxor" => Ok((Bool, prim("PBXor", vec![le, re]))), _ => Err("bool op".into()) },
                _ => Err(format!("scalar binop {} {mname} {}", lt.show(), rt.show())) };
        }
        if cmp && (mname == "eq" || mname == "ne") && lt == rt { if let Named(n) = &lt { if self.env.derives_eq.contains(n) { let fs = self.env.structs.get(n).cloned().unwrap_or_default(); let sl = self.next; let mut acc: Option<Ir> = None;
                for (i, (_, ft)) in fs.iter().enumerate().rev() { let (a, b2) = (proj(i, proj(0, Ir::Var(sl))), proj(i, proj(1, Ir::Var(sl)))); let c = match ft { F32 | F64 => prim(&format!("PFCmp {} FEq", fkc(ft)), vec![a, b2]), Int(_) => prim("PICmp IEq", vec![a, b2]), Bool => prim("PBEq", vec![a, b2]), Named(_) => { let (_, c) = self.resolve_method(ft, "eq", &[ft.clone()], None)?; self.apply(c, vec![a, b2])? } o => return Err(format!("derived eq field {}", o.show())) }; acc = Some(match acc { None => c, Some(r) => Ir::If(Box::new(c), Box::new(r), Box::new(Ir::LitB(false))) }); }
                let x = Ir::Block(vec![St::Let(mk(vec![le, re]))], Box::new(acc.unwrap_or(Ir::LitB(true)))); return Ok((Bool, if mname == "eq" { x } else { prim("PBNot", vec![x]) })); } } }
        if cmp && (mname == "eq" || mname == "ne") { // PartialEq on user types
            let (_, c) = self.resolve_method(&lt, "eq", &[rt.clone()], None).map_err(|e| format!("{e} (==)"))?; let x = self.apply(c, vec![le, re])?; return Ok((Bool, if mname == "eq" { x } else { prim("PBNot", vec![x]) })); }
        if lt.is_scalar() { // scalar op vector
            if matches!(lt, IntLit | FloatLit) { let fl = if matches!(lt, FloatLit) { self.flavour() } else { Int("i32") }; let l = self.ex(&b.left, Some(&fl))?; lt = l.0; le = l.1; }
            let mut c = vec![]; for ((_, st, mn), idxs) in &self.env.trait_impls { if st == &lt && mn == mname { for &i in idxs { if self.env.fns[i].params.len() == 1 && self.env.fns[i].params[0].1 == rt && !self.env.fns[i].by_ref { c.push(i); } } } }
            if c.len() == 1 { return Ok((self.env.fns[c[0]].ret.clone(), Ir::Call(c[0], vec![le, re]))); } return Err(format!("scalar-lhs op {} {mname} {}", lt.show(), rt.show())); }
        let (t, c) = self.resolve_method(&lt, mname, &[rt.clone()], expected)?;
        if matches!(rt, IntLit | FloatLit) { if let Callee::Fn(i) = &c { let pt = self.env.fns[*i].params[0].1.clone(); let r = self.ex(&b.right, Some(&pt))?; re = r.1; } }
        Ok((t, self.apply(c, vec![le, re])?))
    }

    fn path_value(&mut self, p: &ExprPath, expected: Option<&Ty>) -> R {
        let segs: Vec<String> = p.path.segments.iter().map(|s| s.ident.to_string()).collect();
        if segs.len() == 1 {
            if let Some((t, s)) = self.lookup(&segs[0]) { return Ok((t, Ir::Var(s))); }
            if let Some(&i) = self.env.const_fns.get(&(self.f.module.clone(), segs[0].clone())) { return Ok((self.env.fns[i].ret.clone(), Ir::Call(i, vec![]))); }
            let hits: Vec<usize> = self.env.const_fns.iter().filter(|((_, n), _)| n == &segs[0]).map(|(_, &i)| i).collect(); if hits.len() == 1 { return Ok((self.env.fns[hits[0]].ret.clone(), Ir::Call(hits[0], vec![]))); }
            if segs[0] == "None" { let t = match expected { Some(Opt(t)) => (**t).clone(), _ => Unknown("None".into()) }; return Ok((Opt(Box::new(t)), prim("PNone", vec![]))); }
            if segs[0] == "PI" { return Ok(if self.f.key.starts_with('D') || self.f.file.contains("f64") { (F64, Ir::LitF64(std::f64::consts::PI.to_bits())) } else { (F32, Ir::LitF32(std::f32::consts::PI.to_bits())) }); }
            return Err(format!("unbound {}", segs[0])); }
        let owner = &segs[segs.len() - 2]; let name = &segs[segs.len() - 1];
        if let Some(t) = self.named_ty(owner) {
            if let Some(&i) = self.env.const_fns.get(&(t.show(), name.clone())) { return Ok((self.env.fns[i].ret.clone(), Ir::Call(i, vec![]))); }
            if let Named(n) = &t { if let Some(vs) = self.env.enums.get(n) { if let Some(i) = vs.iter().position(|v| v == name) { return Ok((t.clone(), Ir::LitI("u32", i as i128))); } } }
            if let Some(r) = self.const_path(&t, name) { return Ok(r); }
        }
        if owner == "consts" { let is64 = segs.iter().any(|s| s == "f64"); let v: f64 = match name.as_str() { "PI" => std::f64::consts::PI, "TAU" => std::f64::consts::TAU, "FRAC_PI_2" => std::f64::consts::FRAC_PI_2, "FRAC_PI_4" => std::f64::consts::FRAC_PI_4, o => return Err(format!("const {o}")) };
            let v32: f32 = match name.as_str() { "PI" => std::f32::consts::PI, "TAU" => std::f32::consts::TAU, "FRAC_PI_2" => std::f32::consts::FRAC_PI_2, _ => std::f32::consts::FRAC_PI_4 }; return Ok(if is64 { (F64, Ir::LitF64(v.to_bits())) } else { (F32, Ir::LitF32(v32.to_bits())) }); }
        let hits: Vec<usize> = self.env.const_fns.iter().filter(|((o, n), _)| n == name && o.ends_with(owner.as_str())).map(|(_, &i)| i).collect(); if hits.len() == 1 { return Ok((self.env.fns[hits[0]].ret.clone(), Ir::Call(hits[0], vec![]))); }
        Err(format!("unknown path {}", segs.join("::")))
    }

    fn args_with(&mut self, args: &punctuated::Punctuated<Expr, Token![,]>, ptys: &[Ty]) -> std::result::Result<(Vec<Ty>, Vec<Ir>), String> {
        let mut ts = vec![]; let mut es = vec![]; for (i, a) in args.iter().enumerate() { let (t, e) = self.ex(a, ptys.get(i))?; ts.push(t); es.push(e); } Ok((ts, es))
    }
    /// re-lower literal arguments once parameter types are known
    fn retype_lits(&mut self, args: &punctuated::Punctuated<Expr, Token![,]>, ts: &mut Vec<Ty>, es: &mut Vec<Ir>, ptys: &[Ty]) -> std::result::Result<(), String> {
        fn has_lit(t: &Ty) -> bool { match t { IntLit | FloatLit => true, Tuple(v) => v.iter().any(has_lit), Array(e, _) | Opt(e) => has_lit(e), _ => false } }
        for (i, a) in args.iter().enumerate() { if has_lit(&ts[i]) { if let Some(p) = ptys.get(i) { let (t, e) = self.ex(a, Some(p))?; ts[i] = t; es[i] = e; } } } Ok(())
    }

    fn call(&mut self, c: &ExprCall, expected: Option<&Ty>) -> R {
        let Expr::Path(p) = &*c.func else { return Err("call of non-path".into()) };
        let segs: Vec<String> = p.path.segments.iter().map(|s| s.ident.to_string()).collect(); let last = segs.last().unwrap().clone();
        if segs.len() == 1 {
            if last == "Some" { let ex = match expected { Some(Opt(t)) => Some((**t).clone()), _ => None }; let (t, e) = self.ex(&c.args[0], ex.as_ref())?; return Ok((Opt(Box::new(t)), prim("PSome", vec![e]))); }
            if last == "Ok" { let ex = match expected { Some(Res(t)) => Some((**t).clone()), _ => None }; let (t, e) = self.ex(&c.args[0], ex.as_ref())?; return Ok((Res(Box::new(t)), prim("PSome", vec![e]))); }
            if let Some(cl) = self.closures.get(&last).cloned() { let mut stmts = vec![]; self.locals.push(HashMap::new()); let saved = self.next; for (pi, a) in cl.inputs.iter().zip(c.args.iter()) { let (t, e) = self.ex(a, None)?; self.bind_pat(pi, &t, e, &mut stmts)?; } let (rt, body) = self.ex(&cl.body, expected)?; self.locals.pop(); self.next = saved; return Ok((rt, Ir::Block(stmts, Box::new(body)))); }
            if last == "Self" || self.env.structs.contains_key(&last) { let ty = if last == "Self" { self.self_ty() } else { Named(last.clone()) }; let Named(n) = &ty else { return Err("ctor".into()) }; let fts: Vec<Ty> = self.env.structs.get(n).map(|f| f.iter().map(|x| x.1.clone()).collect()).unwrap_or_default(); let (_, es) = self.args_with(&c.args, &fts)?; return Ok((ty, mk(es))); }
        }
        if segs.len() >= 2 {
            let owner = &segs[segs.len() - 2]; let owner_ty = if owner == "Self" { Some(self.self_ty()) } else { self.named_ty(owner) };
            if let Some(oty) = owner_ty {
                let ptys: Vec<Ty> = self.env.inherent.get(&(oty.clone(), last.clone())).map(|&i| { let f = &self.env.fns[i]; let mut v = vec![]; if f.has_self { v.push(oty.clone()); } v.extend(f.params.iter().map(|p| p.1.clone())); v }).unwrap_or_default();
                let (mut ts, mut es) = self.args_with(&c.args, &ptys)?;
                if oty.is_scalar() && ts.iter().any(|t| matches!(t, IntLit | FloatLit)) { let p = vec![oty.clone(); ts.len()]; self.retype_lits(&c.args, &mut ts, &mut es, &p)?; }
                let (rt, callee) = self.resolve_assoc(&oty, &last, &ts, expected)?; if let Callee::Fn(i) = &callee { let f = &self.env.fns[*i]; let mut p = vec![]; if f.has_self { p.push(oty.clone()); } p.extend(f.params.iter().map(|x| x.1.clone())); self.retype_lits(&c.args, &mut ts, &mut es, &p)?; }
                return Ok((rt, self.apply(callee, es)?)); }
        }
        let pre: Vec<Ty> = { let unk = vec![Unknown("a".into()); c.args.len()]; match self.resolve_free(&segs, &unk) { Ok((_, Callee::Fn(i))) => self.env.fns[i].params.iter().map(|x| x.1.clone()).collect(), Ok((_, Callee::Prim(pn))) if pn == "PSet1" || pn == "PMk" || pn == "PMkRev" => vec![F32; c.args.len()], Ok((_, Callee::Prim(pn))) if pn.starts_with("PLanewise") || pn == "SHUFFLE" || pn == "PMoveHL" || pn == "PAddSS" || pn == "PCvtSS" || pn == "PMoveMask" || pn == "PCmpUnord" => vec![M128; c.args.len()], _ => vec![] } };
        let (mut ts, mut es) = self.args_with(&c.args, &pre)?;
        let (rt, callee) = self.resolve_free(&segs, &ts)?; if let Callee::Fn(i) = &callee { let p: Vec<Ty> = self.env.fns[*i].params.iter().map(|x| x.1.clone()).collect(); self.retype_lits(&c.args, &mut ts, &mut es, &p)?; }
        if let Callee::Prim(pn) = &callee { if pn == "PSet1" || pn == "PMk" || pn == "PMkRev" { let p = vec![F32; ts.len()]; self.retype_lits(&c.args, &mut ts, &mut es, &p)?; } if pn == "SHUFFLE" { let p = vec![M128, M128, Int("i32")]; self.retype_lits(&c.args, &mut ts, &mut es, &p)?; } if pn == "SET1EPI32" { let p = vec![Int("i32")]; self.retype_lits(&c.args, &mut ts, &mut es, &p)?; } }
        Ok((rt, self.apply(callee, es)?))
    }

    fn method_call(&mut self, m: &ExprMethodCall, expected: Option<&Ty>) -> R {
        let name = m.method.to_string();
        // [a,b,c].into_iter().max().unwrap()
        if name == "unwrap" { if let Expr::MethodCall(m2) = &*m.receiver { if m2.method == "max" || m2.method == "min" { if let Expr::MethodCall(m3) = &*m2.receiver { if m3.method == "into_iter" { let (at, ae) = self.ex(&m3.receiver, None)?; if let Array(t, Some(n)) = &at { if let Int(k) = &**t { let op = if m2.method == "max" { "IMax" } else { "IMin" }; let slot = self.next; let mut acc = proj(0, Ir::Var(slot)); for i in 1..*n { acc = prim(&format!("PI2 {} {op}", ikc(k)), vec![acc, proj(i, Ir::Var(slot))]); } return Ok(((**t).clone(), Ir::Block(vec![St::Let(ae)], Box::new(acc)))); } } } } } } }
        if name == "fold" && m.args.len() == 2 { let (lt, le) = self.ex(&m.receiver, None)?; if !matches!(&lt, Named(n) if n == "I") { return Err("fold on non-iterator param".into()); }
            let elem = self.self_ty(); let (it, ie) = self.ex(&m.args[0], Some(&elem))?; let acc = self.next; let el = self.next + 1;
            let body = match &m.args[1] {
                Expr::Path(p) => { let segs: Vec<String> = p.path.segments.iter().map(|s| s.ident.to_string()).collect(); let (_, c) = self.resolve_assoc(&elem, segs.last().unwrap(), &[it.clone(), elem.clone()], Some(&it))?; self.apply(c, vec![Ir::Var(acc), Ir::Var(el)])? }
                Expr::Closure(cl) => { self.locals.push(HashMap::new()); let saved = self.next; let pats: Vec<&Pat> = cl.inputs.iter().collect(); if pats.len() != 2 { return Err("fold closure arity".into()); }
                    // bind acc and elem directly to the two fold slots
                    for (pi, ty) in pats.iter().zip([it.clone(), elem.clone()]) { let mut q = *pi; while let Pat::Reference(r) = q { q = &r.pat; } if let Pat::Ident(id) = q { self.bind_new(&id.ident.to_string(), ty); } else { return Err("fold closure pattern".into()); } }
                    let (_, b) = self.ex(&cl.body, Some(&it))?; self.locals.pop(); self.next = saved; b }
                _ => return Err("fold function".into()) };
            return Ok((it, Ir::Fold(Box::new(le), Box::new(ie), Box::new(body)))); }
        if name == "finish" { // collect the builder chain
            let mut fields: Vec<(Option<String>, &Expr)> = vec![]; let mut cur: &Expr = &m.receiver; let (kind, nm);
            loop { match cur { Expr::MethodCall(mc) if mc.method == "field" => { if mc.args.len() == 2 { let Expr::Lit(ExprLit { lit: Lit::Str(fs), .. }) = &mc.args[0] else { return Err("field name".into()) }; fields.push((Some(fs.value()), &mc.args[1])); } else { fields.push((None, &mc.args[0])); } cur = &mc.receiver; }
                Expr::MethodCall(mc) if mc.method == "debug_tuple" || mc.method == "debug_struct" => { kind = mc.method.to_string(); nm = match &mc.args[0] { Expr::Macro(mm) => mm.mac.tokens.to_string().replace(' ', ""), Expr::Lit(ExprLit { lit: Lit::Str(s), .. }) => s.value(), _ => return Err("debug builder name".into()) }; break; } _ => return Err("debug builder chain".into()) } }
            fields.reverse(); let mut vals = vec![]; let mut names = vec![];
            for (fname, fe) in fields { let (at, ae) = self.ex(fe, None)?; if let Some(n) = fname { names.push(n); } let v = match &at { F32 | F64 | Int(_) | Bool => ae, Named(_) => { let mut cands = vec![]; for ((tn, st, mn), idxs) in &self.env.trait_impls { if tn == "Debug" && st == &at && mn == "fmt" { cands.extend(idxs.iter().copied()); } } if cands.len() != 1 { return Err(format!("Debug impl for {}", at.show())); } Ir::Call(cands[0], vec![ae, prim("PNone", vec![])]) } o => return Err(format!("debug field {}", o.show())) }; vals.push(v); }
            return Ok((Res(Box::new(Unit)), prim(&format!("PFmt \"{}:{}:{}\"", kind, nm, names.join(",")), vals))); }
        if name == "unwrap_or_else" { if let Some(Expr::Closure(cl)) = m.args.first() { let (rt, re) = self.ex(&m.receiver, None)?; let Opt(inner) = rt else { return Err("unwrap_or_else on non-option".into()) }; let slot = self.next; self.next += 1; let some = Ir::Var(slot); self.next -= 1; let (_, none) = self.ex(&cl.body, Some(&inner))?; return Ok((*inner, Ir::MatchOpt(Box::new(re), Box::new(some), Box::new(none)))); } }
        if name == "eq" && m.args.len() == 1 { let saved = self.next; let r = self.ex(&m.receiver, None); self.next = saved; if let Ok((Named(n), _)) = &r { if self.env.derives_eq.contains(n) { let synth = ExprBinary { attrs: vec![], left: m.receiver.clone(), op: parse_quote!(==), right: Box::new(m.args[0].clone()) }; return self.binary(&synth, expected); } } }
        let (rt, re) = self.ex(&m.receiver, None)?;
        let ptys: Vec<Ty> = self.env.inherent.get(&(rt.clone(), name.clone())).map(|&i| self.env.fns[i].params.iter().map(|p| p.1.clone()).collect()).unwrap_or_else(|| if rt.is_scalar() { vec![rt.clone(); m.args.len()] } else { vec![] });
        let (mut ts, mut es) = self.args_with(&m.args, &ptys)?;
        let (t, callee) = self.resolve_method(&rt, &name, &ts, expected)?;
        let mut re = re; if name == "into" { if let Callee::Fn(i) = &callee { let p0 = self.env.fns[*i].params[0].1.clone(); if p0 != rt { re = self.ex(&m.receiver, Some(&p0))?.1; } } }
        if let Callee::Fn(i) = &callee { let p: Vec<Ty> = self.env.fns[*i].params.iter().map(|x| x.1.clone()).collect(); self.retype_lits(&m.args, &mut ts, &mut es, &p)?; if self.env.fns[*i].self_mut { return Err(format!("call of &mut self method {name} in expression position")); } }
        let mut all = vec![re]; all.extend(es); Ok((t, self.apply(callee, all)?))
    }

    fn match_(&mut self, m: &ExprMatch, expected: Option<&Ty>) -> R {
        // match on tuple of ints: (i, j) => combine as i*8+j
        let (st, se) = self.ex(&m.expr, None)?;
        match &st {
            Int(_) | Named(_) | Tuple(_) => {
                let is_enum = if let Named(n) = &st { self.env.enums.contains_key(n) } else { false };
                if let Named(_) = &st { if !is_enum { return Err("match on struct".into()); } }
                let key_of = |this: &Self, p: &Pat| -> Option<i128> { match p { Pat::Lit(l) => this.lit_int(&Expr::Lit(ExprLit { attrs: vec![], lit: l.lit.clone() })), Pat::Path(pp) => { if let Named(n) = &st { this.env.enums.get(n)?.iter().position(|v| *v == path_last(&pp.path)).map(|i| i as i128) } else { None } } Pat::Tuple(t) => { let mut k = 0i128; for e in &t.elems { if let Pat::Lit(l) = e { k = k * 16 + this.lit_int(&Expr::Lit(ExprLit { attrs: vec![], lit: l.lit.clone() }))?; } else { return None; } } Some(k) } _ => None } };
                let scrut = if let Tuple(ts) = &st { let slot = self.next; let acc = prim("PKey", (0..ts.len()).map(|i| proj(i, Ir::Var(slot))).collect()); Ir::Block(vec![St::Let(se)], Box::new(acc)) } else { se };
                let mut arms = vec![]; let mut dflt = None; let mut rt = Never;
                for arm in &m.arms { let (t, body) = self.ex(&arm.body, expected)?; if matches!(rt, Never | IntLit | FloatLit | Unknown(_)) { rt = t; } match &arm.pat { Pat::Wild(_) => dflt = Some(body), p => { let k = key_of(self, p).ok_or(format!("match pattern {}", p.to_token_stream()))?; arms.push((k, body)); } } }
                let dflt = match dflt { Some(d) => d, None => if is_enum { Ir::Panic } else { return Err("non-exhaustive int match".into()) } };
                Ok((rt, Ir::MatchI(Box::new(scrut), arms, Box::new(dflt))))
            }
            Opt(inner) | Res(inner) => {
                let mut some = None; let mut none = None; let mut rt = Never;
                for arm in &m.arms { match &arm.pat {
                    Pat::TupleStruct(ts) if matches!(path_last(&ts.path).as_str(), "Some" | "Ok") => { self.locals.push(HashMap::new()); let saved = self.next; if let Some(Pat::Ident(pi)) = ts.elems.first() { self.bind_new(&pi.ident.to_string(), (**inner).clone()); } else { self.next += 1; } let (t, b) = self.ex(&arm.body, expected)?; self.locals.pop(); self.next = saved; if matches!(rt, Never) { rt = t; } some = Some(b); }
                    Pat::Ident(pi) if pi.ident == "None" => { let (t, b) = self.ex(&arm.body, expected)?; if matches!(rt, Never) { rt = t; } none = Some(b); }
                    Pat::Path(_) | Pat::Wild(_) | Pat::TupleStruct(_) => { let (t, b) = self.ex(&arm.body, expected)?; if matches!(rt, Never) { rt = t; } none = Some(b); }
                    o => return Err(format!("option pattern {}", o.to_token_stream())) } }
                Ok((rt, Ir::MatchOpt(Box::new(se), Box::new(some.ok_or("no Some arm")?), Box::new(none.ok_or("no None arm")?))))
            }
            o => Err(format!("match on {}", o.show())),
        }
    }
}

/// side-effect free, total expressions: both arms of an `if` may be evaluated eagerly
fn pure_simple(e: &Ir) -> bool { match e { Ir::Var(_) | Ir::LitF32(_) | Ir::LitF64(_) | Ir::LitI(_, _) | Ir::LitB(_) | Ir::Unit => true, Ir::Prim(p, a) => (p.starts_with("PProj ") || p == "PMk") && a.iter().all(pure_simple), _ => false } }
fn pl_read(p: &Pl) -> Ir { match p { Pl::Var(n) => Ir::Var(*n), Pl::Fld(q, i) => proj(*i, pl_read(q)) } }
fn contains_return(b: &Block) -> bool { struct V(bool); impl<'a> syn::visit::Visit<'a> for V { fn visit_expr_return(&mut self, _: &'a ExprReturn) { self.0 = true; } } let mut v = V(false); syn::visit::Visit::visit_block(&mut v, b); v.0 }
/// `x as *const A as *const B` (possibly parenthesised) -> (x, B)
fn ptr_cast_chain(e: &Expr) -> Option<(&Expr, &Type)> {
    let e = if let Expr::Paren(p) = e { &*p.expr } else { e };
    if let Expr::Cast(c2) = e { if let Type::Ptr(p2) = &*c2.ty { let inner = if let Expr::Paren(p) = &*c2.expr { &*p.expr } else { &*c2.expr }; if let Expr::Cast(c1) = inner { if let Type::Ptr(_) = &*c1.ty { return Some((&c1.expr, &p2.elem)); } } } }
    None
}

/// outer attributes of an expression (where `#[cfg(..)]` on an expression statement lives)
pub fn expr_attrs(e: &Expr) -> &[Attribute] {
    match e {
        Expr::Array(x) => &x.attrs, Expr::Assign(x) => &x.attrs, Expr::Binary(x) => &x.attrs, Expr::Block(x) => &x.attrs, Expr::Call(x) => &x.attrs, Expr::Cast(x) => &x.attrs,
        Expr::Field(x) => &x.attrs, Expr::ForLoop(x) => &x.attrs, Expr::If(x) => &x.attrs, Expr::Index(x) => &x.attrs, Expr::Lit(x) => &x.attrs, Expr::Macro(x) => &x.attrs,
        Expr::Match(x) => &x.attrs, Expr::MethodCall(x) => &x.attrs, Expr::Paren(x) => &x.attrs, Expr::Path(x) => &x.attrs, Expr::Reference(x) => &x.attrs, Expr::Return(x) => &x.attrs,
        Expr::Struct(x) => &x.attrs, Expr::Tuple(x) => &x.attrs, Expr::Unary(x) => &x.attrs, Expr::Unsafe(x) => &x.attrs, Expr::While(x) => &x.attrs, Expr::Loop(x) => &x.attrs,
        Expr::Let(x) => &x.attrs, Expr::Repeat(x) => &x.attrs, Expr::Range(x) => &x.attrs, Expr::Group(x) => &x.attrs, Expr::Closure(x) => &x.attrs, Expr::Try(x) => &x.attrs,
        _ => &[] }
}
