//! Prototype: walk glam's module tree for a configuration, build a type/method environment,
//! and try to type + resolve every function body. Reports statistics of what fails.
use crate::cfg::Config;
use quote::ToTokens;
use std::collections::{BTreeMap, HashMap};
use std::path::{Path, PathBuf};
use syn::*;

#[derive(Clone, Debug, PartialEq, Eq, Hash, PartialOrd, Ord)]
pub enum Ty {
    F32, F64, Int(&'static str), Bool, Unit, Str, Never,
    Named(String), Tuple(Vec<Ty>), Array(Box<Ty>, Option<usize>), Slice(Box<Ty>), Opt(Box<Ty>), Res(Box<Ty>),
    M128, M128i, Simd(String), Ptr(Box<Ty>), IntLit, FloatLit, Fmt, Closure, Unknown(String),
}
pub use Ty::*;
pub const INTS: [&str; 9] = ["i8", "u8", "i16", "u16", "i32", "u32", "i64", "u64", "usize"];
pub fn int_name(s: &str) -> Option<&'static str> { INTS.iter().find(|x| **x == s).copied().or(if s == "isize" { Some("i64") } else { None }) }
impl Ty {
    pub fn is_scalar(&self) -> bool { matches!(self, F32 | F64 | Int(_) | Bool | IntLit | FloatLit) }
    pub fn is_float(&self) -> bool { matches!(self, F32 | F64 | FloatLit) }
    pub fn is_int(&self) -> bool { matches!(self, Int(_) | IntLit) }
    pub fn show(&self) -> String { match self { Named(n) => n.clone(), Int(i) => i.to_string(), Tuple(v) => format!("({})", v.iter().map(|t| t.show()).collect::<Vec<_>>().join(",")), Array(t, n) => format!("[{};{:?}]", t.show(), n), Slice(t) => format!("[{}]", t.show()), Opt(t) => format!("Option<{}>", t.show()), Res(t) => format!("Result<{}>", t.show()), Ptr(t) => format!("*{}", t.show()), Unknown(s) => format!("?{s}"), o => format!("{o:?}") } }
}

#[derive(Clone)]
pub struct FnInfo { pub name: String, pub self_ty: Option<Ty>, pub has_self: bool, pub params: Vec<(String, Ty)>, pub ret: Ty, pub body: Option<Block>, pub const_init: Option<Expr>, pub key: String, pub param_pats: Vec<Pat>, pub self_mut: bool, pub is_pub: bool, pub by_ref: bool, pub self_ref: bool, pub param_refs: Vec<bool>, pub param_muts: Vec<bool>, pub is_const_fn: bool, pub file: String, pub trait_: Option<(String, Vec<Ty>)>, pub assoc: HashMap<String, Ty>, pub generic: bool, pub module: String }
#[derive(Default)]
pub struct Env {
    pub derives_eq: std::collections::HashSet<String>,
    pub structs: HashMap<String, Vec<(String, Ty)>>,  // named or tuple fields ("0","1",..)
    pub enums: HashMap<String, Vec<String>>,
    pub unions: HashMap<String, Vec<(String, Ty)>>,
    pub inherent: HashMap<(Ty, String), usize>,           // (self ty, method) -> fn index
    pub trait_impls: HashMap<(String, Ty, String), Vec<usize>>, // (trait, self ty, method) -> fns (overloads by params)
    pub deref: HashMap<Ty, Ty>,
    pub free_fns: HashMap<(String, String), usize>,       // (module, name)
    pub consts: HashMap<(String, String), Ty>, pub const_fns: HashMap<(String, String), usize>,            // (owner: type name or module, name) -> type
    pub fns: Vec<FnInfo>,
    pub uses: HashMap<String, HashMap<String, String>>,   // module -> alias -> path
    pub macros: HashMap<String, ItemMacro>,
    pub trait_defaults: HashMap<String, Vec<TraitItemFn>>,
    pub impls: Vec<(String, Vec<Ty>, Ty, HashMap<String, Ty>, String, String, Vec<String>)>,
}

pub struct Walker<'a> { pub cfg: &'a Config, pub env: Env, pub root: PathBuf, pub renames: HashMap<(String, String), String>, pub cur_mod: std::cell::RefCell<String> }

pub fn path_last(p: &syn::Path) -> String { p.segments.last().map(|s| s.ident.to_string()).unwrap_or_default() }
pub fn path_str(p: &syn::Path) -> String { p.segments.iter().map(|s| s.ident.to_string()).collect::<Vec<_>>().join("::") }

impl<'a> Walker<'a> {
    pub fn conv_ty(&self, t: &Type, self_ty: Option<&Ty>, assoc: &HashMap<String, Ty>) -> Ty {
        match t {
            Type::Path(tp) => {
                let segs: Vec<String> = tp.path.segments.iter().map(|s| s.ident.to_string()).collect();
                let last = tp.path.segments.last().unwrap();
                let mut name = last.ident.to_string();
                if segs.len() == 1 { if let Some(t) = self.renames.get(&(self.cur_mod.borrow().clone(), name.clone())) { name = t.clone(); } }
                if segs.len() == 2 && segs[0] == "Self" { if let Some(t) = assoc.get(&segs[1]) { return t.clone(); } return Unknown(format!("Self::{}", segs[1])); }
                match name.as_str() {
                    "f32" => F32, "f64" => F64, "bool" => Bool, "str" => Str, "__m128" => M128, "__m128i" => M128i,
                    "f32x4" => M128,
                    "u32x4" | "i32x4" | "mask32x4" | "f64x2" | "f64x4" | "Simd" | "Mask" => Simd(name.clone()),
                    "Self" => self_ty.cloned().unwrap_or(Unknown("Self".into())),
                    "Option" => Opt(Box::new(self.generic_arg(last, self_ty, assoc))),
                    "Result" => Res(Box::new(self.generic_arg(last, self_ty, assoc))),
                    "MaybeUninit" | "Align16" => Named(format!("{}<{}>", name, self.generic_arg(last, self_ty, assoc).show())),
                    "Formatter" => Fmt,
                    n => if let Some(i) = int_name(n) { Int(i) } else if matches!(last.arguments, PathArguments::AngleBracketed(_)) { Named(format!("{}<{}>", name, self.generic_arg(last, self_ty, assoc).show())) } else { Named(name.clone()) }
                }
            }
            Type::Reference(r) => self.conv_ty(&r.elem, self_ty, assoc),
            Type::Paren(p) => self.conv_ty(&p.elem, self_ty, assoc),
            Type::Group(p) => self.conv_ty(&p.elem, self_ty, assoc),
            Type::Tuple(t) => if t.elems.is_empty() { Unit } else { Tuple(t.elems.iter().map(|e| self.conv_ty(e, self_ty, assoc)).collect()) },
            Type::Array(a) => { let n = if let Expr::Lit(ExprLit { lit: Lit::Int(i), .. }) = &a.len { i.base10_parse::<usize>().ok() } else { None }; Array(Box::new(self.conv_ty(&a.elem, self_ty, assoc)), n) }
            Type::Slice(s) => Slice(Box::new(self.conv_ty(&s.elem, self_ty, assoc))),
            Type::Ptr(p) => Ptr(Box::new(self.conv_ty(&p.elem, self_ty, assoc))),
            Type::Never(_) => Never,
            Type::Infer(_) => Unknown("_".into()),
            other => Unknown(other.to_token_stream().to_string()),
        }
    }
    fn generic_arg(&self, seg: &PathSegment, self_ty: Option<&Ty>, assoc: &HashMap<String, Ty>) -> Ty {
        if let PathArguments::AngleBracketed(ab) = &seg.arguments { for a in &ab.args { if let GenericArgument::Type(t) = a { return self.conv_ty(t, self_ty, assoc); } } }
        Unknown("generic".into())
    }

    pub fn walk_file(&mut self, file: &Path, module: &str) {
        let src = std::fs::read_to_string(file).unwrap_or_else(|e| panic!("{}: {e}", file.display()));
        let ast = parse_file(&src).unwrap();
        self.walk_items(&ast.items, file, module);
    }
    fn walk_items(&mut self, items: &[Item], file: &Path, module: &str) {
        *self.cur_mod.borrow_mut() = module.to_string();
        let fname = file.strip_prefix(&self.root).unwrap_or(file).display().to_string();
        for it in items {
            match it {
                Item::Mod(m) => {
                    if !self.cfg.enabled(&m.attrs) { continue; }
                    let name = m.ident.to_string();
                    if name == "test" || name == "tests" || name.starts_with("const_test") { continue; }
                    let sub = format!("{module}::{name}");
                    if let Some((_, items)) = &m.content { self.walk_items(items, file, &sub); *self.cur_mod.borrow_mut() = module.to_string(); continue; }
                    let dir = if file.file_name().unwrap() == "lib.rs" || file.file_name().unwrap() == "mod.rs" { file.parent().unwrap().to_path_buf() } else { file.with_extension("") };
                    let c1 = dir.join(format!("{name}.rs")); let c2 = dir.join(&name).join("mod.rs");
                    if c1.exists() { self.walk_file(&c1, &sub); } else if c2.exists() { self.walk_file(&c2, &sub); } else { eprintln!("module file not found: {sub}"); }
                    *self.cur_mod.borrow_mut() = module.to_string();
                }
                Item::Use(u) => { if !self.cfg.enabled(&u.attrs) { continue; } self.record_use(&u.tree, String::new(), module); }
                Item::Struct(s) => {
                    if !self.cfg.enabled(&s.attrs) { continue; }
                    let empty = HashMap::new();
                    let fields: Vec<(String, Ty)> = match &s.fields {
                        Fields::Named(n) => n.named.iter().map(|f| (f.ident.as_ref().unwrap().to_string(), self.conv_ty(&f.ty, None, &empty))).collect(),
                        Fields::Unnamed(u) => u.unnamed.iter().enumerate().map(|(i, f)| (i.to_string(), self.conv_ty(&f.ty, None, &empty))).collect(),
                        Fields::Unit => vec![] };
                    if s.attrs.iter().any(|a| a.path().is_ident("derive") && a.meta.to_token_stream().to_string().contains("PartialEq")) { self.env.derives_eq.insert(s.ident.to_string()); }
                    self.env.structs.insert(s.ident.to_string(), fields);
                }
                Item::Union(u) => { if !self.cfg.enabled(&u.attrs) { continue; } let empty = HashMap::new(); let f = u.fields.named.iter().map(|f| (f.ident.as_ref().unwrap().to_string(), self.conv_ty(&f.ty, None, &empty))).collect(); self.env.unions.insert(format!("{module}::{}", u.ident), f); }
                Item::Enum(e) => { if !self.cfg.enabled(&e.attrs) { continue; } self.env.enums.insert(e.ident.to_string(), e.variants.iter().map(|v| v.ident.to_string()).collect()); }
                Item::Const(c) => { if !self.cfg.enabled(&c.attrs) { continue; } let t = self.conv_ty(&c.ty, None, &HashMap::new()); self.env.consts.insert((module.to_string(), c.ident.to_string()), t.clone());
                    let idx = self.env.fns.len(); self.env.const_fns.insert((module.to_string(), c.ident.to_string()), idx);
                    self.env.fns.push(FnInfo { name: c.ident.to_string(), self_ty: None, has_self: false, params: vec![], ret: t, body: None, const_init: Some((*c.expr).clone()), key: format!("{}::{}", module, c.ident), param_pats: vec![], self_mut: false, is_pub: false, by_ref: false, self_ref: false, param_refs: vec![], param_muts: vec![], is_const_fn: false, file: fname.clone(), trait_: None, assoc: HashMap::new(), generic: false, module: module.to_string() }); }
                Item::Fn(f) => {
                    if !self.cfg.enabled(&f.attrs) || f.attrs.iter().any(|a| a.path().is_ident("test")) { continue; }
                    let mut info = self.fn_info(&f.sig, Some((*f.block).clone()), None, None, &HashMap::new(), &fname, module); info.is_pub = matches!(f.vis, Visibility::Public(_));
                    let idx = self.env.fns.len(); self.env.free_fns.insert((module.to_string(), info.name.clone()), idx); self.env.fns.push(info);
                }
                Item::Impl(im) => {
                    if !self.cfg.enabled(&im.attrs) { continue; }
                    let empty = HashMap::new();
                    let self_ty = self.conv_ty(&im.self_ty, None, &empty);
                    let trait_ = im.trait_.as_ref().map(|(_, p, _)| { let last = p.segments.last().unwrap(); let mut args = vec![]; if let PathArguments::AngleBracketed(ab) = &last.arguments { for a in &ab.args { if let GenericArgument::Type(t) = a { args.push(self.conv_ty(t, Some(&self_ty), &empty)); } } } (last.ident.to_string(), args) });
                    let mut assoc = HashMap::new();
                    for ii in &im.items { if let ImplItem::Type(t) = ii { let ty = self.conv_ty(&t.ty, Some(&self_ty), &assoc); assoc.insert(t.ident.to_string(), ty); } }
                    if let Some((tn, _)) = &trait_ { if tn == "Deref" { if let Some(t) = assoc.get("Target") { self.env.deref.insert(self_ty.clone(), t.clone()); } } }
                    if let Some((tn, ta)) = &trait_ { let names: Vec<String> = im.items.iter().filter_map(|ii| if let ImplItem::Fn(f) = ii { Some(f.sig.ident.to_string()) } else { None }).collect(); self.env.impls.push((tn.clone(), ta.clone(), self_ty.clone(), assoc.clone(), fname.clone(), module.to_string(), names)); }
                    let by_ref = matches!(&*im.self_ty, Type::Reference(_)) || im.trait_.as_ref().map(|(_, p, _)| { if let PathArguments::AngleBracketed(ab) = &p.segments.last().unwrap().arguments { ab.args.iter().any(|a| matches!(a, GenericArgument::Type(Type::Reference(_)))) } else { false } }).unwrap_or(false);
                    for ii in &im.items {
                        match ii {
                            ImplItem::Const(c) => { if !self.cfg.enabled(&c.attrs) { continue; } let t = self.conv_ty(&c.ty, Some(&self_ty), &assoc); self.env.consts.insert((self_ty.show(), c.ident.to_string()), t.clone());
                                let idx = self.env.fns.len(); self.env.const_fns.insert((self_ty.show(), c.ident.to_string()), idx);
                                self.env.fns.push(FnInfo { name: c.ident.to_string(), self_ty: Some(self_ty.clone()), has_self: false, params: vec![], ret: t, body: None, const_init: Some(c.expr.clone()), key: format!("{}::{}", self_ty.show(), c.ident), param_pats: vec![], self_mut: false, is_pub: matches!(c.vis, Visibility::Public(_)), by_ref: false, self_ref: false, param_refs: vec![], param_muts: vec![], is_const_fn: false, file: fname.clone(), trait_: None, assoc: assoc.clone(), generic: false, module: module.to_string() }); }
                            ImplItem::Fn(f) => {
                                if !self.cfg.enabled(&f.attrs) { continue; }
                                let mut info = self.fn_info(&f.sig, Some(f.block.clone()), Some(&self_ty), trait_.clone(), &assoc, &fname, module); info.by_ref = by_ref; info.is_pub = trait_.is_some() || matches!(f.vis, Visibility::Public(_)); if by_ref { info.key = format!("{}#ref{}", info.key, self.env.fns.len()); }
                                let idx = self.env.fns.len();
                                match &trait_ { None => { self.env.inherent.insert((self_ty.clone(), info.name.clone()), idx); }
                                    Some((tn, _)) => { self.env.trait_impls.entry((tn.clone(), self_ty.clone(), info.name.clone())).or_default().push(idx); } }
                                self.env.fns.push(info);
                            }
                            _ => {}
                        }
                    }
                }
                Item::Trait(t) => { if !self.cfg.enabled(&t.attrs) { continue; } for ti in &t.items { if let TraitItem::Fn(f) = ti { if f.default.is_some() { self.env.trait_defaults.entry(t.ident.to_string()).or_default().push(f.clone()); } } } }
                Item::Macro(m) => {
                    let name = path_last(&m.mac.path);
                    if name == "macro_rules" { if let Some(id) = &m.ident { if self.cfg.enabled(&m.attrs) { self.env.macros.insert(id.to_string(), m.clone()); } } }
                    else if let Some(def) = self.env.macros.get(&name).cloned() { if let Some(items) = expand_simple_macro(&def, &m.mac) { self.walk_items(&items, file, module); } }
                }
                _ => {}
            }
        }
    }
    /// trait methods with a default body become methods of every implementing type that does not override them
    pub fn add_trait_defaults(&mut self) {
        let impls = self.env.impls.clone();
        for (tn, ta, self_ty, assoc, file, module, names) in impls {
            let Some(defs) = self.env.trait_defaults.get(&tn).cloned() else { continue };
            for d in defs { let name = d.sig.ident.to_string(); if names.contains(&name) { continue; }
                *self.cur_mod.borrow_mut() = module.clone();
                let mut info = self.fn_info(&d.sig, d.default.clone(), Some(&self_ty), Some((tn.clone(), ta.clone())), &assoc, &file, &module); info.is_pub = true;
                let idx = self.env.fns.len(); self.env.trait_impls.entry((tn.clone(), self_ty.clone(), name)).or_default().push(idx); self.env.fns.push(info); } }
    }
    fn record_use(&mut self, t: &UseTree, prefix: String, module: &str) {
        match t {
            UseTree::Path(p) => self.record_use(&p.tree, format!("{prefix}{}::", p.ident), module),
            UseTree::Name(n) => { self.env.uses.entry(module.to_string()).or_default().insert(n.ident.to_string(), format!("{prefix}{}", n.ident)); }
            UseTree::Rename(r) => { self.renames.insert((module.to_string(), r.rename.to_string()), r.ident.to_string()); self.env.uses.entry(module.to_string()).or_default().insert(r.rename.to_string(), format!("{prefix}{}", r.ident)); }
            UseTree::Glob(_) => { self.env.uses.entry(module.to_string()).or_default().insert(format!("*{}", prefix), prefix.clone()); }
            UseTree::Group(g) => for i in &g.items { self.record_use(i, prefix.clone(), module); }
        }
    }
    fn fn_info(&self, sig: &Signature, body: Option<Block>, self_ty: Option<&Ty>, trait_: Option<(String, Vec<Ty>)>, assoc: &HashMap<String, Ty>, file: &str, module: &str) -> FnInfo {
        let mut params = vec![]; let mut has_self = false; let mut param_pats = vec![]; let mut self_mut = false; let mut self_ref = false; let mut param_refs = vec![]; let mut param_muts = vec![];
        for a in &sig.inputs { match a { FnArg::Receiver(r) => { has_self = true; self_mut = r.mutability.is_some() && r.reference.is_some(); self_ref = r.reference.is_some(); }, FnArg::Typed(pt) => { param_pats.push((*pt.pat).clone()); param_refs.push(matches!(&*pt.ty, Type::Reference(_))); param_muts.push(matches!(&*pt.ty, Type::Reference(r) if r.mutability.is_some())); let n = if let Pat::Ident(pi) = &*pt.pat { pi.ident.to_string() } else { pt.pat.to_token_stream().to_string() }; params.push((n, self.conv_ty(&pt.ty, self_ty, assoc))); } } }
        let ret = match &sig.output { ReturnType::Default => Unit, ReturnType::Type(_, t) => self.conv_ty(t, self_ty, assoc) };
        let key = match (self_ty, &trait_) { (Some(t), None) => format!("{}::{}", t.show(), sig.ident), (Some(t), Some((tn, ta))) => format!("{}::<{}<{}>>::{}", t.show(), tn, ta.iter().map(|x| x.show()).collect::<Vec<_>>().join(","), sig.ident), (None, _) => format!("{}::{}", module, sig.ident) };
        FnInfo { const_init: None, key, param_pats, self_mut, is_pub: true, by_ref: false, self_ref, param_refs, param_muts, is_const_fn: sig.constness.is_some(), name: sig.ident.to_string(), self_ty: self_ty.cloned(), has_self, params, ret, body, file: file.to_string(), trait_, assoc: assoc.clone(), generic: !sig.generics.params.is_empty(), module: module.to_string() }
    }
}

/// macro_rules with a single (or first matching by arity) rule of `$name:frag` params separated by commas.
pub fn expand_simple_macro(def: &ItemMacro, call: &Macro) -> Option<Vec<Item>> {
    use proc_macro2::{TokenStream, TokenTree, Delimiter, Group};
    let toks: Vec<TokenTree> = def.mac.tokens.clone().into_iter().collect();
    // rules: (pattern) => { body } ;
    let mut i = 0; let mut rules = vec![];
    while i + 3 < toks.len() + 1 {
        if let (Some(TokenTree::Group(p)), Some(TokenTree::Group(b))) = (toks.get(i), toks.get(i + 3)) { rules.push((p.stream(), b.stream())); i += 4; if let Some(TokenTree::Punct(_)) = toks.get(i) { i += 1; } } else { break; }
    }
    let args: Vec<TokenStream> = { let mut v = vec![TokenStream::new()]; for t in call.tokens.clone() { if let TokenTree::Punct(p) = &t { if p.as_char() == ',' { v.push(TokenStream::new()); continue; } } v.last_mut().unwrap().extend([t]); } if v.last().map(|t| t.is_empty()).unwrap_or(false) { v.pop(); } v };
    for (pat, body) in rules {
        let pt: Vec<TokenTree> = pat.into_iter().collect();
        let mut names = vec![]; let mut j = 0; let mut ok = true;
        while j < pt.len() { match (&pt[j], pt.get(j + 1), pt.get(j + 2), pt.get(j + 3)) {
            (TokenTree::Punct(d), Some(TokenTree::Ident(n)), Some(TokenTree::Punct(c)), Some(TokenTree::Ident(_))) if d.as_char() == '$' && c.as_char() == ':' => { names.push(n.to_string()); j += 4; if let Some(TokenTree::Punct(p)) = pt.get(j) { if p.as_char() == ',' { j += 1; } } }
            _ => { ok = false; break; } } }
        if !ok || names.len() != args.len() { continue; }
        fn subst(ts: TokenStream, names: &[String], args: &[TokenStream]) -> TokenStream {
            let v: Vec<TokenTree> = ts.into_iter().collect(); let mut out = TokenStream::new(); let mut k = 0;
            while k < v.len() { match (&v[k], v.get(k + 1)) {
                (TokenTree::Punct(d), Some(TokenTree::Ident(n))) if d.as_char() == '$' => { if let Some(ix) = names.iter().position(|x| x == &n.to_string()) { out.extend(args[ix].clone()); k += 2; continue; } out.extend([v[k].clone()]); k += 1; }
                (TokenTree::Group(g), _) => { let mut ng = Group::new(g.delimiter(), subst(g.stream(), names, args)); ng.set_span(g.span()); out.extend([TokenTree::Group(ng)]); k += 1; }
                _ => { out.extend([v[k].clone()]); k += 1; } } }
            let _ = Delimiter::None; out
        }
        let expanded = subst(body, &names, &args);
        return syn::parse2::<File>(expanded).ok().map(|f| f.items);
    }
    None
}

// ---------------------------------------------------------------- typing

