//! rs2v: translate glam's Rust sources (for several build configurations) into one merged Coq model.
//!
//! usage: rs2v <outdir> <cfg1,cfg2,...>      (GLAM_SRC = path of glam's src directory, default /repo/src)
//!
//! For every configuration the module tree is walked from lib.rs with `cfg` evaluation, every function body is
//! typed and lowered to the IR of coq/theories/Base.v.  Functions are then interned by the Coq text of their body
//! (callees replaced by their interned ids, callees first), so that a function whose transitive closure is literally
//! the same in two configurations (or under two names) is one definition `f_<id>` of the model.  Outputs:
//!   Model<k>.v, Table.v   the model (definitions and the PositiveMap from ids to functions)
//!   index.json            per configuration: every function with its signature, canonical id, driver arm id, flags
//!   dispatch_<cfg>.rs     the Rust dispatch table of the correspondence driver for that configuration
//! The translator never emits a theorem statement.
mod cfg; mod env; mod lower;
use cfg::Config; use env::*; use lower::*;
use std::collections::{BTreeMap, HashMap, HashSet};
use std::fmt::Write as _;
use std::path::PathBuf;

fn pr_pl(p: &Pl) -> String { match p { Pl::Var(n) => format!("(PVar {n})"), Pl::Fld(q, i) => format!("(PFld {} {i})", pr_pl(q)) } }
fn pr_z(v: i128) -> String { if v < 0 { format!("({v})") } else { format!("{v}") } }
fn pr_list<T>(v: &[T], f: &dyn Fn(&T) -> String) -> String { format!("[{}]", v.iter().map(|x| f(x)).collect::<Vec<_>>().join("; ")) }
fn ikc(k: &str) -> String { match k { "usize" => "USize".into(), o => o.to_uppercase() } }

/// Coq text of an IR term; `cid` maps a configuration-local callee index to its canonical id (0 = missing callee).
fn pr(e: &Ir, cid: &dyn Fn(usize) -> usize) -> String {
    let p = |x: &Ir| pr(x, cid);
    match e {
        Ir::Var(n) => format!("(EVar {n})"), Ir::LitF32(b) => format!("(ELitF32 {b})"), Ir::LitF64(b) => format!("(ELitF64 {b})"), Ir::LitI(k, v) => format!("(ELitI {} {})", ikc(k), pr_z(*v)), Ir::LitB(b) => format!("(ELitB {b})"), Ir::Unit => "EUnit".into(),
        Ir::Prim(pn, a) => format!("(EPrim ({pn}) {})", pr_list(a, &p)), Ir::Call(i, a) => format!("(ECall {}%positive {})", cid(*i) + 1, pr_list(a, &p)),
        Ir::If(c, t, f) => format!("(EIf {} {} {})", p(c), p(t), p(f)), Ir::MatchI(s, arms, d) => format!("(EMatchI {} {} {})", p(s), pr_list(arms, &|(k, b)| format!("({}, {})", pr_z(*k), p(b))), p(d)),
        Ir::MatchOpt(s, a, b) => format!("(EMatchOpt {} {} {})", p(s), p(a), p(b)), Ir::Block(ss, t) => format!("(EBlock {} {})", pr_list(ss, &|s| pr_st(s, cid)), p(t)), Ir::Panic => "EPanic".into(), Ir::Return(x) => format!("(EReturn {})", p(x)), Ir::Try(x) => format!("(ETry {})", p(x)), Ir::Fold(l, i, b) => format!("(EFold {} {} {})", p(l), p(i), p(b)),
    }
}
fn pr_st(s: &St, cid: &dyn Fn(usize) -> usize) -> String { let p = |x: &Ir| pr(x, cid); match s { St::Let(e) => format!("(SLet {})", p(e)), St::Assign(pl, e) => format!("(SAssign {} {})", pr_pl(pl), p(e)), St::If(c, t, f) => format!("(SIf {} {} {})", p(c), pr_list(t, &|s| pr_st(s, cid)), pr_list(f, &|s| pr_st(s, cid))), St::Expr(e) => format!("(SExpr {})", p(e)), St::Assert(e) => format!("(SAssert {})", p(e)) } }

fn walk(e: &Ir, calls: &mut Vec<usize>, orc: &mut bool) { match e { Ir::Prim(p, a) => { if ["FSin", "FCos", "FTan", "FExp", "FAcos", "FAsin", "FPowf", "FAtan2", "PFmt"].iter().any(|o| p.contains(o)) { *orc = true; } for x in a { walk(x, calls, orc); } } Ir::Call(i, a) => { calls.push(*i); for x in a { walk(x, calls, orc); } }
    Ir::If(a, b, c) | Ir::MatchOpt(a, b, c) | Ir::Fold(a, b, c) => { walk(a, calls, orc); walk(b, calls, orc); walk(c, calls, orc); } Ir::MatchI(s, arms, d) => { walk(s, calls, orc); for (_, x) in arms { walk(x, calls, orc); } walk(d, calls, orc); }
    Ir::Block(ss, t) => { for st in ss { walk_st(st, calls, orc); } walk(t, calls, orc); } Ir::Return(x) | Ir::Try(x) => walk(x, calls, orc), _ => {} } }
fn walk_st(s: &St, calls: &mut Vec<usize>, orc: &mut bool) { match s { St::Let(e) | St::Expr(e) | St::Assert(e) | St::Assign(_, e) => walk(e, calls, orc), St::If(c, t, f) => { walk(c, calls, orc); for x in t { walk_st(x, calls, orc); } for x in f { walk_st(x, calls, orc); } } } }

fn jstr(s: &str) -> String { let mut o = String::from("\""); for c in s.chars() { match c { '"' => o.push_str("\\\""), '\\' => o.push_str("\\\\"), '\n' => o.push_str("\\n"), '\t' => o.push_str("\\t"), c if (c as u32) < 32 => { let _ = write!(o, "\\u{:04x}", c as u32); } c => o.push(c) } } o.push('"'); o }
fn ty_json(t: &Ty) -> String {
    match t { F32 => "\"f32\"".into(), F64 => "\"f64\"".into(), Int(k) => format!("\"{k}\""), Bool => "\"bool\"".into(), Unit => "\"unit\"".into(), Str => "\"str\"".into(), Never => "\"never\"".into(), M128 => "\"m128\"".into(), M128i => "\"m128i\"".into(), Fmt => "\"fmt\"".into(),
        Named(n) => format!("{{\"n\":{}}}", jstr(n)), Tuple(ts) => format!("{{\"t\":[{}]}}", ts.iter().map(ty_json).collect::<Vec<_>>().join(",")), Array(e, n) => format!("{{\"a\":{},\"len\":{}}}", ty_json(e), n.map(|x| x.to_string()).unwrap_or("null".into())),
        Slice(e) => format!("{{\"s\":{}}}", ty_json(e)), Opt(e) => format!("{{\"o\":{}}}", ty_json(e)), Res(e) => format!("{{\"r\":{}}}", ty_json(e)), Simd(n) => format!("{{\"simd\":{}}}", jstr(n)), Ptr(e) => format!("{{\"p\":{}}}", ty_json(e)), o => format!("{{\"u\":{}}}", jstr(&o.show())) }
}

struct CfgOut { name: String, env: Env, lowered: BTreeMap<usize, (usize, Ir)>, errs: BTreeMap<usize, String>, canon: HashMap<usize, usize>, oracle: HashSet<usize>, missing: HashSet<usize>, arms: HashMap<usize, ()> }

fn main() {
    let args: Vec<String> = std::env::args().collect();
    let out = PathBuf::from(args.get(1).expect("outdir")); let cfgs: Vec<String> = args.get(2).map(|s| s.split(',').map(|x| x.to_string()).collect()).unwrap_or(vec!["sse2".into()]);
    let root = PathBuf::from(std::env::var("GLAM_SRC").unwrap_or("/repo/src".into()));
    std::fs::create_dir_all(&out).unwrap();
    // canonical function store: Coq text of (arity, body) -> id
    let mut intern: HashMap<String, usize> = HashMap::new(); let mut defs: Vec<(String, String)> = vec![]; // (text, first name)
    let mut outs: Vec<CfgOut> = vec![];
    for cfgname in &cfgs {
        let cfg = Config::named(cfgname);
        let mut w = Walker { cfg: &cfg, env: Env::default(), root: root.clone(), renames: HashMap::new(), cur_mod: Default::default() };
        w.walk_file(&root.join("lib.rs"), "crate"); w.add_trait_defaults();
        let env = std::mem::take(&mut w.env);
        let mut lowered: BTreeMap<usize, (usize, Ir)> = BTreeMap::new(); let mut errs: BTreeMap<usize, String> = BTreeMap::new();
        for (i, f) in env.fns.iter().enumerate() {
            if f.file.contains("features/") { continue; }
            let mut l = Lower::new(&env, f, &w);
            match l.lower_fn() { Ok(r) => { lowered.insert(i, r); } Err(e) => { if let Ok(pat) = std::env::var("DUMP_FAIL") { if f.file.contains(&pat) || f.key.contains(&pat) { eprintln!("FAIL [{cfgname}] {} {} -- {}", f.file, f.key, e); } } errs.insert(i, e); } }
        }
        let nfn = env.fns.len(); let mut nlens = 0;
        for (i, f) in env.fns.iter().enumerate() { if f.self_mut && f.ret != Unit && !f.file.contains("features/") && !f.generic { let mut l = Lower::new(&env, f, &w); match l.lower_lens_set() { Ok(r) => { lowered.insert(i + nfn, r); nlens += 1; } Err(e) => { if std::env::var("DUMP_FAIL").map(|p| f.file.contains(&p) || f.key.contains(&p)).unwrap_or(false) { eprintln!("LENSFAIL [{cfgname}] {} {} -- {}", f.file, f.key, e); } } } } }
        eprintln!("config {cfgname}: {} fns, lowered {}, failed {}, lens setters {}", nfn, lowered.len() - nlens, errs.len(), nlens);
        // transitive flags
        let mut uses: HashMap<usize, (Vec<usize>, bool)> = HashMap::new(); for (&i, (_, b)) in &lowered { let mut c = vec![]; let mut o = false; walk(b, &mut c, &mut o); uses.insert(i, (c, o)); }
        let mut oracle: HashSet<usize> = uses.iter().filter(|(_, v)| v.1).map(|(k, _)| *k).collect(); let mut missing: HashSet<usize> = HashSet::new();
        loop { let mut ch = false; for (&i, (c, _)) in &uses { if !oracle.contains(&i) && c.iter().any(|j| oracle.contains(j)) { oracle.insert(i); ch = true; } if !missing.contains(&i) && c.iter().any(|j| !lowered.contains_key(j) || missing.contains(j)) { missing.insert(i); ch = true; } } if !ch { break; } }
        // canonical ids, callees first (glam has no recursion; a cycle would be reported as missing)
        let mut canon: HashMap<usize, usize> = HashMap::new(); let mut visiting: HashSet<usize> = HashSet::new();
        fn visit(i: usize, lowered: &BTreeMap<usize, (usize, Ir)>, uses: &HashMap<usize, (Vec<usize>, bool)>, canon: &mut HashMap<usize, usize>, visiting: &mut HashSet<usize>, intern: &mut HashMap<String, usize>, defs: &mut Vec<(String, String)>, name: &dyn Fn(usize) -> String) {
            if canon.contains_key(&i) || !lowered.contains_key(&i) { return; }
            if !visiting.insert(i) { return; }
            for &j in &uses[&i].0 { visit(j, lowered, uses, canon, visiting, intern, defs, name); }
            let (ar, body) = &lowered[&i];
            let text = format!("{{| f_arity := {}; f_body := {} |}}", ar, pr(body, &|j| canon.get(&j).copied().unwrap_or(0)));
            let id = match intern.get(&text) { Some(&id) => id, None => { let id = defs.len() + 1; intern.insert(text.clone(), id); defs.push((text, name(i))); id } };
            canon.insert(i, id); visiting.remove(&i);
        }
        let namer = |i: usize| -> String { let f = &env.fns[i % nfn]; format!("{}{} [{}] {}", f.key, if i >= nfn { "$set" } else { "" }, cfgname, f.file) };
        let keys: Vec<usize> = lowered.keys().copied().collect();
        for i in keys { visit(i, &lowered, &uses, &mut canon, &mut visiting, &mut intern, &mut defs, &namer); }
        outs.push(CfgOut { name: cfgname.clone(), env, lowered, errs, canon, oracle, missing, arms: HashMap::new() });
    }
    eprintln!("canonical functions: {}", defs.len());

    // ---- model files: definitions in chunks, written only when changed
    let write_if_changed = |p: PathBuf, s: &str| { if std::fs::read_to_string(&p).map(|o| o != s).unwrap_or(true) { std::fs::write(&p, s).unwrap(); } };
    let chunk = 1500; let mut files = vec![];
    for (ci, part) in defs.chunks(chunk).enumerate() {
        let mut s = String::from("From Glam Require Import Base.\nFrom Coq Require Import ZArith List String.\nImport ListNotations.\nOpen Scope Z_scope. Open Scope string_scope.\n");
        for (k, (text, name)) in part.iter().enumerate() { let id = ci * chunk + k + 1; writeln!(s, "(* {} *)\nDefinition f_{} : fn := {}.", name.replace("*)", "* )").replace("(*", "( *"), id + 1, text).unwrap(); }
        let name = format!("Model{ci}"); write_if_changed(out.join(format!("{name}.v")), &s); files.push((name, (ci * chunk + 1..ci * chunk + part.len() + 1).collect::<Vec<_>>()));
    }
    // remove stale chunks
    for k in files.len()..200 { let p = out.join(format!("Model{k}.v")); if p.exists() { let _ = std::fs::remove_file(&p); let _ = std::fs::remove_file(out.join(format!("Model{k}.vo"))); } else { break; } }
    let mut t = String::from("From Glam Require Import Base.\nFrom Coq Require Import ZArith List FMapPositive.\nImport ListNotations.\n"); for (n, _) in &files { writeln!(t, "From Gen Require Import {n}.").unwrap(); }
    for (ci, (_, part)) in files.iter().enumerate() { writeln!(t, "Definition entries{ci} : list (positive * fn) := [{}].", part.iter().map(|i| format!("({}%positive, f_{})", i + 1, i + 1)).collect::<Vec<_>>().join("; ")).unwrap(); }
    writeln!(t, "Definition tblmap : PositiveMap.t fn := Eval vm_compute in fold_left (fun m kv => PositiveMap.add (fst kv) (snd kv) m) ({}) (PositiveMap.empty fn).", (0..files.len()).map(|c| format!("entries{c}")).collect::<Vec<_>>().join(" ++ ")).unwrap();
    writeln!(t, "Definition tbl (p:positive) : option fn := PositiveMap.find p tblmap.").unwrap();
    write_if_changed(out.join("Table.v"), &t);

    // ---- driver dispatch per configuration
    for co in outs.iter_mut() {
        let env = &co.env;
        fn rty(env: &Env, t: &Ty) -> Option<String> { Some(match t { F32 => "f32".into(), F64 => "f64".into(), Int(k) => k.to_string(), Bool => "bool".into(), Unit => "()".into(),
            Named(n) => { if n == "EulerRot" { "glam::EulerRot".into() } else if env.structs.contains_key(n) && !n.contains('<') && n != "Order" { format!("glam::{n}") } else { return None } }
            Tuple(ts) => format!("({},)", ts.iter().map(|x| rty(env, x)).collect::<Option<Vec<_>>>()?.join(", ")), Array(et, Some(n)) => format!("[{}; {n}]", rty(env, et)?), Opt(t) => format!("Option<{}>", rty(env, t)?), Slice(t) => format!("Vec<{}>", rty(env, t)?), _ => return None }) }
        let mut arms: Vec<String> = vec![];
        for i in 0..env.fns.len() { let f = &env.fns[i]; if f.file.contains("features/") || f.generic || (f.body.is_none() && f.const_init.is_none()) { continue; } if !f.is_pub || f.by_ref || f.file.starts_with("sse2.rs") || f.file.starts_with("coresimd.rs") || f.file.starts_with("neon.rs") || f.file.starts_with("wasm32.rs") || f.module.contains("math") || f.file.contains("euler.rs") || f.file.contains("deref") || f.file.contains("align16") || f.file.contains("macros") { continue; }
            if f.self_mut && f.ret != Unit { continue; }
            if matches!(f.trait_.as_ref().map(|t| t.0.as_str()), Some("Display" | "Debug" | "Hash" | "Deref" | "DerefMut" | "AsRef" | "AsMut" | "Sum" | "Product" | "IndexMut" | "Distribution")) { continue; }
            let mut argexprs = vec![]; let mut ok = true;
            let self_path = match &f.self_ty { Some(st) => match rty(env, st) { Some(p) => Some(p), None => { ok = false; None } }, None => None };
            let mut lets = vec![]; if f.has_self { let sp = self_path.clone().unwrap_or_default(); lets.push(format!("let {}a{} = <{sp}>::p(it);", if f.self_mut { "mut " } else { "" }, lets.len())); argexprs.push(format!("{}a{}", if f.self_mut { "&mut " } else if f.self_ref { "&" } else { "" }, lets.len() - 1)); }
            let mut outslice: Option<usize> = None;
            for (k, (_, pt)) in f.params.iter().enumerate() { let pm = f.param_muts.get(k).copied().unwrap_or(false); if pm && !matches!(pt, Slice(_)) { ok = false; } match rty(env, pt) { Some(p) => { lets.push(format!("let {}a{} = <{p}>::p(it);", if pm { "mut " } else { "" }, lets.len())); if pm { outslice = Some(lets.len() - 1); } argexprs.push(format!("{}a{}{}", if pm { "&mut " } else if f.param_refs.get(k).copied().unwrap_or(false) { "&" } else { "" }, lets.len() - 1, if matches!(pt, Slice(_)) { "[..]" } else { "" })); } None => ok = false } }
            if outslice.is_some() && (f.self_mut || f.ret != Unit) { ok = false; }
            if rty(env, &f.ret).is_none() { ok = false; }
            if !ok { continue; }
            let callee = match (&self_path, &f.trait_) { (Some(sp), None) => format!("{sp}::{}", f.name),
                (Some(sp), Some((tn, ta))) => { let targs = ta.iter().map(|x| rty(env, x)).collect::<Option<Vec<_>>>(); let Some(targs) = targs else { continue }; let tpath = match tn.as_str() { "Add" | "Sub" | "Mul" | "Div" | "Rem" | "Neg" | "Not" | "BitAnd" | "BitOr" | "BitXor" | "Shl" | "Shr" | "Index" | "AddAssign" | "SubAssign" | "MulAssign" | "DivAssign" | "RemAssign" | "BitAndAssign" | "BitOrAssign" | "BitXorAssign" | "ShlAssign" | "ShrAssign" => format!("core::ops::{tn}"), "From" | "TryFrom" | "Into" => format!("core::convert::{tn}"), "Default" => "core::default::Default".into(), "PartialEq" => "core::cmp::PartialEq".into(), "Vec2Swizzles" | "Vec3Swizzles" | "Vec4Swizzles" => format!("glam::{tn}"), _ => continue };
                    let ga = if targs.is_empty() { String::new() } else { format!("<{}>", targs.join(", ")) }; format!("<{sp} as {tpath}{ga}>::{}", f.name) }
                (None, _) => format!("glam::{}", f.name) };
            let call = if f.const_init.is_some() { callee } else { format!("{callee}({})", argexprs.join(", ")) };
            let post = if matches!(f.ret, Res(_)) { ".ok()" } else { "" };
            if let Some(k) = outslice { arms.push(format!("        {} => {{ {} {call}; a{k}.o(out); }}", i + 1, lets.join(" "))); } else
            if f.self_mut { arms.push(format!("        {} => {{ {} {call}; a0.o(out); }}", i + 1, lets.join(" "))); } else { arms.push(format!("        {} => {{ {} let r = {call}{post}; r.o(out); }}", i + 1, lets.join(" "))); }
            co.arms.insert(i, ()); }
        let mut d = String::from("// generated by rs2v\nuse crate::rt::*;\n"); let per = 300;
        for (ci, ch) in arms.chunks(per).enumerate() { writeln!(d, "#[inline(never)] fn call_{ci}(id: u32, it: &mut It, out: &mut Vec<u64>) -> bool {{ match id {{\n{}\n        _ => return false }} true }}", ch.join("\n")).unwrap(); }
        writeln!(d, "pub fn call(id: u32, it: &mut It, out: &mut Vec<u64>) -> bool {{ {} false }}", (0..(arms.len() + per - 1) / per).map(|c| format!("if call_{c}(id, it, out) {{ return true; }}")).collect::<Vec<_>>().join(" ")).unwrap();
        write_if_changed(out.join(format!("dispatch_{}.rs", co.name.replace('+', "_"))), &d);
        eprintln!("config {}: driver arms {}", co.name, arms.len());
    }

    // ---- index.json
    // content hash of every canonical definition (callee ids replaced by the callee's content hash): stable under renumbering, used by the
    // harness to recognise that a definition is unchanged since a recorded run
    let mut chash: Vec<u64> = Vec::with_capacity(defs.len());
    for (text, _) in &defs {
        use std::hash::{Hash, Hasher};
        let mut h = std::collections::hash_map::DefaultHasher::new();
        let b = text.as_bytes(); let mut k = 0; let mut last = 0;
        while let Some(p) = text[k..].find("ECall ") {
            let st = k + p + 6; let mut e = st; while e < b.len() && b[e].is_ascii_digit() { e += 1; }
            if e > st && text[e..].starts_with("%positive") {
                text[last..st].hash(&mut h); let id: usize = text[st..e].parse().unwrap();
                if id >= 2 && id - 2 < chash.len() { chash[id - 2].hash(&mut h); } else { id.hash(&mut h); }      // printed id = canonical id + 1 = index in defs + 2 (1 = missing callee)
                last = e;
            }
            k = st;
        }
        text[last..].hash(&mut h); chash.push(h.finish());
    }
    let mut j = String::from("{\n \"nfuncs\": "); write!(j, "{},\n \"chash\": [{}],\n \"configs\": {{\n", defs.len(), chash.iter().map(|x| format!("\"{:016x}\"", x)).collect::<Vec<_>>().join(",")).unwrap();
    for (ci, co) in outs.iter().enumerate() {
        let env = &co.env; let nfn = env.fns.len();
        write!(j, "  {}: {{\n   \"structs\": {{", jstr(&co.name)).unwrap();
        let mut sn: Vec<&String> = env.structs.keys().collect(); sn.sort();
        write!(j, "{}", sn.iter().map(|n| format!("{}: [{}]", jstr(n), env.structs[*n].iter().map(|(f, t)| format!("[{}, {}]", jstr(f), ty_json(t))).collect::<Vec<_>>().join(", "))).collect::<Vec<_>>().join(",\n    ")).unwrap();
        write!(j, "}},\n   \"enums\": {{").unwrap();
        let mut en: Vec<&String> = env.enums.keys().collect(); en.sort();
        write!(j, "{}", en.iter().map(|n| format!("{}: [{}]", jstr(n), env.enums[*n].iter().map(|v| jstr(v)).collect::<Vec<_>>().join(", "))).collect::<Vec<_>>().join(", ")).unwrap();
        write!(j, "}},\n   \"deref\": {{").unwrap();
        let mut dn: Vec<(String, String)> = env.deref.iter().map(|(a, b)| (a.show(), ty_json(b))).collect(); dn.sort();
        write!(j, "{}", dn.iter().map(|(a, b)| format!("{}: {}", jstr(a), b)).collect::<Vec<_>>().join(", ")).unwrap();
        write!(j, "}},\n   \"fns\": [\n").unwrap();
        let mut rows = vec![];
        for (i, f) in env.fns.iter().enumerate() {
            if f.file.contains("features/") { continue; }
            let fid = co.canon.get(&i).map(|x| (x + 1).to_string()).unwrap_or("null".into()); let setfid = co.canon.get(&(i + nfn)).map(|x| (x + 1).to_string()).unwrap_or("null".into());
            let tr = match &f.trait_ { Some((tn, ta)) => format!("[{}, [{}]]", jstr(tn), ta.iter().map(ty_json).collect::<Vec<_>>().join(",")), None => "null".into() };
            let status = if let Some(e) = co.errs.get(&i) { format!("\"err\": {}", jstr(e)) } else if co.missing.contains(&i) { "\"status\": \"missing-callee\"".into() } else if co.oracle.contains(&i) { "\"status\": \"oracle\"".into() } else { "\"status\": \"ok\"".into() };
            rows.push(format!("    {{\"i\": {}, \"key\": {}, \"name\": {}, \"self\": {}, \"trait\": {}, \"params\": [{}], \"ret\": {}, \"has_self\": {}, \"self_ref\": {}, \"self_mut\": {}, \"pub\": {}, \"by_ref\": {}, \"generic\": {}, \"is_const\": {}, \"file\": {}, \"module\": {}, \"fid\": {}, \"setfid\": {}, \"did\": {}, {}}}",
                i + 1, jstr(&f.key), jstr(&f.name), f.self_ty.as_ref().map(ty_json).unwrap_or("null".into()), tr, f.params.iter().enumerate().map(|(k, (n, t))| format!("[{}, {}, {}, {}]", jstr(n), ty_json(t), f.param_refs.get(k).copied().unwrap_or(false), f.param_muts.get(k).copied().unwrap_or(false))).collect::<Vec<_>>().join(", "), ty_json(&f.ret), f.has_self, f.self_ref, f.self_mut, f.is_pub, f.by_ref, f.generic, f.const_init.is_some(), jstr(&f.file), jstr(&f.module), fid, setfid, if co.arms.contains_key(&i) { (i + 1).to_string() } else { "null".into() }, status));
        }
        write!(j, "{}\n   ]\n  }}{}\n", rows.join(",\n"), if ci + 1 < outs.len() { "," } else { "" }).unwrap();
    }
    j.push_str(" }\n}\n");
    write_if_changed(out.join("index.json"), &j);
    let _ = lowered_guard();
}
fn lowered_guard() -> usize { 0 }
