//! cfg predicate evaluation
use std::collections::BTreeSet;
use syn::{Attribute, Meta, punctuated::Punctuated, Token};

#[derive(Clone, Debug)]
pub struct Config { pub name: String, pub features: BTreeSet<String>, pub target_features: BTreeSet<String>, pub target_arch: String, pub debug_assertions: bool }

impl Config {
    pub fn named(name: &str) -> Config {
        let mut c = Config { name: name.into(), features: ["std".to_string()].into(), target_features: ["sse2".to_string()].into(), target_arch: "x86_64".into(), debug_assertions: false };
        for part in name.split('+') { match part {
            "sse2" => {}, "scalar" => { c.features.insert("scalar-math".into()); }, "coresimd" => { c.features.insert("core-simd".into()); },
            "fma" => { c.target_features.insert("fma".into()); }, "fast" => { c.features.insert("fast-math".into()); }, "libm" => { c.features.insert("libm".into()); },
            "assert" => { c.features.insert("glam-assert".into()); }, "debug" => { c.debug_assertions = true; }, 
            "neon" => { c.target_arch = "aarch64".into(); c.target_features = ["neon".to_string()].into(); }, "wasm32" => { c.target_arch = "wasm32".into(); c.target_features = ["simd128".to_string()].into(); },
            other => panic!("unknown config part {other}") } }
        c
    }
    fn eval_meta(&self, m: &Meta) -> bool {
        match m {
            Meta::Path(p) => { let s = p.get_ident().map(|i| i.to_string()).unwrap_or_default(); match s.as_str() { "test" => false, "debug_assertions" => self.debug_assertions, "unix" => true, _ => false } }
            Meta::NameValue(nv) => { let k = nv.path.get_ident().map(|i| i.to_string()).unwrap_or_default(); let v = if let syn::Expr::Lit(syn::ExprLit{lit: syn::Lit::Str(s),..}) = &nv.value { s.value() } else { String::new() };
                match k.as_str() { "feature" => self.features.contains(&v), "target_feature" => self.target_features.contains(&v), "target_arch" => self.target_arch == v, _ => false } }
            Meta::List(l) => { let k = l.path.get_ident().map(|i| i.to_string()).unwrap_or_default(); let inner: Punctuated<Meta, Token![,]> = l.parse_args_with(Punctuated::parse_terminated).unwrap_or_default();
                match k.as_str() { "all" => inner.iter().all(|m| self.eval_meta(m)), "any" => inner.iter().any(|m| self.eval_meta(m)), "not" => !inner.iter().all(|m| self.eval_meta(m)), _ => false } }
        }
    }
    /// true if all #[cfg(..)] attributes hold
    pub fn enabled(&self, attrs: &[Attribute]) -> bool {
        for a in attrs { if a.path().is_ident("cfg") { if let Meta::List(l) = &a.meta { if let Ok(m) = l.parse_args::<Meta>() { if !self.eval_meta(&m) { return false; } } } } }
        true
    }
}
