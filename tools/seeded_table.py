#!/usr/bin/env python3
"""print the markdown table of seeded changes and which checks caught them (from seeded/*/meta.json)"""
import json, glob, os
rows = []
for p in sorted(glob.glob('/verif/seeded/*/meta.json')):
    m = json.load(open(p)); sid = os.path.basename(os.path.dirname(p)); cr = m.get('checks_run', {})
    def cell(c, r):
        if not r.get('detected'): return '%s: **missed**' % c
        return '%s: caught (%d violation%s, %s)' % (c, r['violations'], '' if r['violations'] == 1 else 's', 'failing input replayed on the crate' if r['with_failing_input'] else 'no-failing-input-found')
    rows.append('| %s | %s | %s | %s |' % (sid, m['change'].replace('|', '\\|'), m['needs_to_manifest'], '; '.join(cell(c, cr[c]) for c in sorted(cr)) or 'not run'))
print('| seeded change (property) | change | needs | checks run on it |\n|---|---|---|---|\n' + '\n'.join(rows))
