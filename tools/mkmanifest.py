#!/usr/bin/env python3
"""Regenerate /verif/MANIFEST.json from the table below (kept next to the checks so that it stays current)."""
import json
CLAIMED = {
 'C01': ('proof', 'structural Coq lemmas (all Ops): every element-wise operation of the 7 float vector types in 5 tables is the lane-wise primitive; for the multi-instruction SSE2 operations the code is proved to apply the lane functions floor/ceil/trunc/round_lane of FloatTricks.v, which are proved (Flocq) equal to IEEE roundToIntegral in the respective direction and to the Rust primitive for every binary32; predicates/reductions as boolean/fold formulas; differential correspondence', 'every operation is stated as the lane-wise primitive (or an IEEE-equal lane function); SSE2 % is a known finding (floored remainder), pinned by a second lemma (DESIGN 12.3); libm spelled-out euclid/signum forms are differential only; NEON/wasm32 not translated'),
 'C02': ('proof', 'algebraic Coq lemmas over an arbitrary field: dot, cross, perp_dot, length(_squared/_recip), distance(_squared), element sum/product, project/reject, reflect, normalize, try_normalize/normalize_or(_zero) (every path), refract (both paths), angle_between/angle_to = arccos of the textbook cosine (acos_approx abstracted) - the exact real-arithmetic value the property measures against; 7 types x 3 backends', 'PARTIAL: the rounding-error bounds (few epsilon times sum of magnitudes) and the accuracy of acos_approx are NOT proved; exercised differentially only'),
 'C03': ('proof', 'algebraic Coq lemmas over an arbitrary field: determinant = Leibniz, inverse = adjugate/det, products, entry-wise ops; 7 types x 3 backends', 'partial: rounding-error bounds and lattice exactness are differential only'),
 'C04': ('proof', 'algebraic Coq lemmas over an arbitrary field: Hamilton product, conjugate, q*v = vec(q v conj q) for every q; rotation laws in QuatAlg.v; structural lemmas: component-wise quaternion operators are the lane-wise primitive', 'partial: rounding-error bounds are not proved'),
 'C05': ('proof', 'algebraic / structural Coq lemmas: from_quat for every matrix and affine type = the same R(q); Mat3<->Mat3A, embeddings into Mat4, Affine<->matrix conversions carry the same entries; affine product and inverse formulas; f32<->f64 entry-wise; matrix -> quaternion: each of the four branches returns the stated formulas, which recover +-q from R(q) over the reals (FromMatAlg.v)', 'partial: float-level agreement of conversion chains is differential only'),
 'C06': ('proof', 'structural Coq lemmas: every accessor/constructor/minor/col/row/transpose as entry moves, M*v and affine transforms as sums, 11 types x 3 backends', 'trusted: column-major entry view in harness/props/C06.py'),
 'C07': ('proof', 'identity of the +fma and default translations except mul_add (both the fused primitive, C01); C03/C04 lemma families for three backends against common formulas; 4-build differential run', 'partial: LLVM not contracting FP ops is observed, not modelled; re-association slack observed not derived'),
 'C08': ('proof', 'non-interference lemmas (all Ops with Rust integer semantics): result modulo hidden lanes is the same for two independent hidden-lane contents', 'partial: lemmas not decided within the long per-lemma limit are listed in the evidence'),
 'C09': ('proof', 'algebraic Coq lemmas: axis-angle = Rodrigues / (a sin, cos), single-axis rotations, all 24 Euler orders as products of elementary rotations / quaternions; RotAlg.v (orthonormal, det 1, quaternion-matrix agreement)', 'partial: the extraction direction (to_euler ...) is not proved - crate round trips with the epsilon/distance tolerance only; sin/cos uninterpreted (odd/even); no bit-level correspondence for trigonometric results'),
 'C10': ('proof', 'algebraic Coq lemmas: every SRT constructor = translation * rotation * scale entries, 10 types x 3 backends; to_scale_rotation_translation / to_scale_angle_translation formulas', 'partial: the decomposition functions are stated modularly (scale, axes handed to the matrix->quaternion conversion, translation); that recomposition returns the input is not proved'),
 'C11': ('proof', 'algebraic Coq lemmas: perspective_*/orthographic_* = documented matrices, project/transform = M(p,1)/w, look_to/look_at view matrices of the matrix and affine types = the documented rows and translation; frustum facts in ProjAlg.v', 'partial: Quat/DQuat look_to are stated modularly (matrix->quaternion conversion abstracted)'),
 'C12': ('proof', 'algebraic Coq lemmas: lerp = a(1-s)+bs, midpoint, any_orthonormal_vector/pair = the Duff et al. construction (laws in InterpAlg.v), clamp_length/_min/_max, move_towards and quaternion slerp on every path (acos_approx / m128_sin abstracted)', 'partial: vector slerp, quaternion lerp, rotate_towards, from_rotation_arc, any_orthogonal_vector are differential (and C18 panic-freedom) only'),
 'C13': ('proof', 'structural Coq lemmas (all Ops): every table method of the 27 integer vector types = lane-wise/left-fold primitive; IntSpec.v ties compare-select forms to min/max/clamp/positions over Z', 'trusted: ZInt semantics in Sem.v validated differentially'),
 'C14': ('proof', 'structural Coq lemmas (all Ops): as_*, From, TryFrom, mask-to-number, pair/extend/truncate conversions lane by lane', 'trusted: cast semantics of Sem.v validated on boundary values'),
 'C15': ('proof', 'structural Coq lemmas: cmp*/select on all vector types; mask algebra on the five mask types (SSE2 register masks by exhaustive enumeration in the IEEE instance); test/set panic outside 0..N', 'partial: Hash/Debug/Display of masks not modelled'),
 'C16': ('proof', 'structural Coq lemmas (all Ops): every swizzle getter and with_ setter of every vector type in three backends', 'trusted: method-name spec'),
 'C17': ('proof', 'structural Coq lemmas: constructors, constants, readers, writers against the list-of-lanes view; generic history refinement theorem AccessHist.v', 'partial: Debug/Display not modelled; the history theorem is generic (not instantiated per type)'),
 'C18': ('proof', 'outcome lemmas (all Ops with Rust integer semantics): Ok for every public float function x literal index/order/slice length, Panic exactly outside documented bounds, exact first-N slice read/write', 'partial: machine-level memory facts (ASan) outside the model'),
 'C20': ('proof', 'generic assertion-erasure theorem (Erase.v) instantiated per function pair: whatever the glam-assert build returns the plain build returns, for all Ops, arguments and fuel; documented-violation witnesses on model and crate', 'partial: that float outputs stay within the is_normalized tolerance along chains is differential only (chain run on assert/plain drivers); the exact real-arithmetic unit-ness of the outputs is proved in UnitAlg.v'),
}
NOT_BUILT = {
 'C19': 'not claimed: not built (DESIGN 12.9). The optional-feature sources are generated by item-level macro_rules! and generic serde code, which the translator does not expand / instantiate, and the mint/bytemuck/rkyv types are external; the technique would apply after that translator work',
}
def main():
    props = [json.loads(l) for l in open('/verif/properties.jsonl')]
    m = {'version': 1, 'setup_cmd': './setup.sh',
         'hooks': {'guard': 'glam_verif', 'enable': 'RUSTFLAGS=--cfg glam_verif (unused: no instrumentation hook is needed; /repo carries only fix: commits)', 'baseline_off_cmd': 'cd /repo && cargo test --workspace --no-fail-fast --offline', 'source_commits': [], 'add_only': True},
         'engines': [{'name': 'rs2v+coq', 'path': '/verif/check', 'serves_properties': sorted(CLAIMED), 'kind_free_text': 'Rust->Coq translator (tools/rs2v) re-run on every check, Coq 8.16 model + proofs (coq/theories, harness/props), differential correspondence against the crate built from /repo'}],
         'checks': [], 'not_applicable': [], 'notes': 'see DESIGN.md section 12 for what is built, findings and seeded-change results'}
    for p in props:
        pid = p['id']
        if pid in CLAIMED:
            cat, text, note = CLAIMED[pid]
            m['checks'].append({'property_id': pid, 'quick_cmd': './check %s quick' % pid, 'thorough_cmd': './check %s thorough' % pid, 'evidence_file': '/verif/evidence/%s.json' % pid,
                                'replay_cmd_template': './check %s --replay {path}' % pid, 'engine': 'rs2v+coq',
                                'level_claimed': {'category': cat, 'text': text, 'design_ref': 'DESIGN.md sections 3 and 12.2'},
                                'level_note': note + '; trusted base: Coq kernel + vm_compute, translator rs2v, evaluator/primitive semantics (Base.v, Sem.v), spec tables; correspondence is differential testing',
                                'technique': 'machine-checked proof in Coq over a model translated from the source on every run + differential correspondence'})
        else:
            m['not_applicable'].append({'property_id': pid, 'reason': NOT_BUILT[pid]})
    json.dump(m, open('/verif/MANIFEST.json', 'w'), indent=1)
main()
