mod rt; mod dispatch;
use std::io::BufRead;
fn main() {
    std::panic::set_hook(Box::new(|_| {}));
    let stdin = std::io::stdin();
    for line in stdin.lock().lines() { let line = line.unwrap(); let mut parts = line.split_whitespace(); let Some(id) = parts.next() else { continue }; let id: u32 = id.parse().unwrap();
        let words: Vec<u64> = parts.map(|w| u64::from_str_radix(w, 16).unwrap()).collect();
        let r = std::panic::catch_unwind(|| { let mut it = rt::It(words.iter()); let mut out = vec![]; let ok = dispatch::call(id, &mut it, &mut out); (ok, out) });
        match r { Ok((true, out)) => println!("OK {}", out.iter().map(|w| format!("{w:x}")).collect::<Vec<_>>().join(" ")), Ok((false, _)) => println!("NOFN"), Err(_) => println!("PANIC") } }
}
