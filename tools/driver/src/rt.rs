//! hand-written glue: parse arguments from / print results to flat u64 words (spike)
use glam::*;
pub struct It<'a>(pub std::slice::Iter<'a, u64>);
impl<'a> It<'a> { pub fn w(&mut self) -> u64 { *self.0.next().expect("not enough argument words") } }
pub trait P: Sized { fn p(it: &mut It) -> Self; }
pub trait Ou { fn o(&self, out: &mut Vec<u64>); }
macro_rules! scalar { ($t:ty, $p:expr, $o:expr) => { impl P for $t { fn p(it: &mut It) -> Self { let w = it.w(); ($p)(w) } } impl Ou for $t { fn o(&self, out: &mut Vec<u64>) { out.push(($o)(*self)); } } } }
scalar!(f32, |w: u64| f32::from_bits(w as u32), |x: f32| x.to_bits() as u64); scalar!(f64, |w: u64| f64::from_bits(w), |x: f64| x.to_bits());
scalar!(i8, |w: u64| w as i8, |x: i8| x as i64 as u64); scalar!(u8, |w: u64| w as u8, |x: u8| x as u64); scalar!(i16, |w: u64| w as i16, |x: i16| x as i64 as u64); scalar!(u16, |w: u64| w as u16, |x: u16| x as u64);
scalar!(i32, |w: u64| w as i32, |x: i32| x as i64 as u64); scalar!(u32, |w: u64| w as u32, |x: u32| x as u64); scalar!(i64, |w: u64| w as i64, |x: i64| x as u64); scalar!(u64, |w: u64| w, |x: u64| x); scalar!(usize, |w: u64| w as usize, |x: usize| x as u64);
scalar!(bool, |w: u64| w != 0, |x: bool| x as u64);
impl Ou for () { fn o(&self, _: &mut Vec<u64>) {} }
impl<T: P, const N: usize> P for [T; N] { fn p(it: &mut It) -> Self { core::array::from_fn(|_| T::p(it)) } }
impl<T: Ou, const N: usize> Ou for [T; N] { fn o(&self, out: &mut Vec<u64>) { for x in self { x.o(out); } } }
impl<T: P> P for Vec<T> { fn p(it: &mut It) -> Self { let n = it.w() as usize; (0..n).map(|_| T::p(it)).collect() } }
impl<T: Ou> Ou for Vec<T> { fn o(&self, out: &mut Vec<u64>) { for x in self { x.o(out); } } }
impl<T: Ou> Ou for Option<T> { fn o(&self, out: &mut Vec<u64>) { match self { Some(x) => { out.push(1); x.o(out); } None => out.push(0) } } }
impl<T: Ou> Ou for &T { fn o(&self, out: &mut Vec<u64>) { (*self).o(out) } }
macro_rules! tup { ($($n:ident),+) => { impl<$($n: P),+> P for ($($n,)+) { fn p(it: &mut It) -> Self { ($($n::p(it),)+) } } impl<$($n: Ou),+> Ou for ($($n,)+) { #[allow(non_snake_case)] fn o(&self, out: &mut Vec<u64>) { let ($($n,)+) = self; $($n.o(out);)+ } } } }
tup!(A); tup!(A, B); tup!(A, B, C); tup!(A, B, C, D);
macro_rules! arr { ($t:ty, $s:ty, $n:expr, $from:ident, $to:ident) => { impl P for $t { fn p(it: &mut It) -> Self { <$t>::$from(<[$s; $n]>::p(it)) } } impl Ou for $t { fn o(&self, out: &mut Vec<u64>) { self.$to().o(out) } } } }
macro_rules! arrref { ($t:ty, $s:ty, $n:expr) => { impl P for $t { fn p(it: &mut It) -> Self { <$t>::from_cols_array(&<[$s; $n]>::p(it)) } } impl Ou for $t { fn o(&self, out: &mut Vec<u64>) { self.to_cols_array().o(out) } } } }
macro_rules! vecs { ($s:ty, $v2:ty, $v3:ty, $v4:ty) => { arr!($v2, $s, 2, from_array, to_array); arr!($v3, $s, 3, from_array, to_array); arr!($v4, $s, 4, from_array, to_array); } }
vecs!(f32, Vec2, Vec3, Vec4); vecs!(f64, DVec2, DVec3, DVec4); vecs!(i8, I8Vec2, I8Vec3, I8Vec4); vecs!(u8, U8Vec2, U8Vec3, U8Vec4); vecs!(i16, I16Vec2, I16Vec3, I16Vec4); vecs!(u16, U16Vec2, U16Vec3, U16Vec4);
vecs!(i32, IVec2, IVec3, IVec4); vecs!(u32, UVec2, UVec3, UVec4); vecs!(i64, I64Vec2, I64Vec3, I64Vec4); vecs!(u64, U64Vec2, U64Vec3, U64Vec4); vecs!(usize, USizeVec2, USizeVec3, USizeVec4);
// Vec3A: four words in (hidden lane is an input), three words + hidden out
impl P for Vec3A { fn p(it: &mut It) -> Self { Vec3A::from_vec4(Vec4::p(it)) } }
impl Ou for Vec3A { fn o(&self, out: &mut Vec<u64>) { self.to_array().o(out) } }
arr!(Quat, f32, 4, from_array, to_array); arr!(DQuat, f64, 4, from_array, to_array);
arrref!(Mat2, f32, 4); arrref!(Mat3, f32, 9); arrref!(Mat4, f32, 16); arrref!(DMat2, f64, 4); arrref!(DMat3, f64, 9); arrref!(DMat4, f64, 16);
arrref!(Affine2, f32, 6); arrref!(DAffine2, f64, 6); arrref!(DAffine3, f64, 12);
impl P for Mat3A { fn p(it: &mut It) -> Self { Mat3A::from_cols(Vec3A::p(it), Vec3A::p(it), Vec3A::p(it)) } } impl Ou for Mat3A { fn o(&self, out: &mut Vec<u64>) { self.to_cols_array().o(out) } }
impl P for Affine3A { fn p(it: &mut It) -> Self { Affine3A::from_cols(Vec3A::p(it), Vec3A::p(it), Vec3A::p(it), Vec3A::p(it)) } } impl Ou for Affine3A { fn o(&self, out: &mut Vec<u64>) { self.to_cols_array().o(out) } }
macro_rules! bv { ($t:ty, $n:expr) => { impl P for $t { fn p(it: &mut It) -> Self { <$t>::from_array(<[bool; $n]>::p(it)) } } impl Ou for $t { fn o(&self, out: &mut Vec<u64>) { <[bool; $n]>::from(*self).o(out) } } } }
bv!(BVec2, 2); bv!(BVec3, 3); bv!(BVec4, 4); bv!(BVec3A, 3); bv!(BVec4A, 4);
const EULER: [EulerRot; 24] = [EulerRot::ZYX, EulerRot::ZXY, EulerRot::YXZ, EulerRot::YZX, EulerRot::XYZ, EulerRot::XZY, EulerRot::ZYZ, EulerRot::ZXZ, EulerRot::YXY, EulerRot::YZY, EulerRot::XYX, EulerRot::XZX, EulerRot::ZYXEx, EulerRot::ZXYEx, EulerRot::YXZEx, EulerRot::YZXEx, EulerRot::XYZEx, EulerRot::XZYEx, EulerRot::ZYZEx, EulerRot::ZXZEx, EulerRot::YXYEx, EulerRot::YZYEx, EulerRot::XYXEx, EulerRot::XZXEx];
impl P for EulerRot { fn p(it: &mut It) -> Self { EULER[it.w() as usize % 24] } } impl Ou for EulerRot { fn o(&self, out: &mut Vec<u64>) { out.push(EULER.iter().position(|e| e == self).unwrap() as u64) } }
impl Ou for core::num::TryFromIntError { fn o(&self, _: &mut Vec<u64>) {} }
