(* IR, Ops record and evaluator of the glam model. *)
From Coq Require Import ZArith List String Bool.
Import ListNotations.
Open Scope Z_scope.

Inductive fk := K32 | K64.
Inductive ik := I8 | U8 | I16 | U16 | I32 | U32 | I64 | U64 | USize.
Inductive res (A:Type) := Ok (a:A) | Panic | UB (why:string) | OutOfFuel | Stuck (why:string).
Arguments Ok {A}. Arguments Panic {A}. Arguments UB {A}. Arguments OutOfFuel {A}. Arguments Stuck {A}.

Inductive fop1 := FNeg | FAbs | FSqrt | FFloor | FCeil | FTrunc | FRound | FSignum | FRecipStd | FSin | FCos | FTan | FExp | FAcos | FAsin.
Inductive fop2 := FAdd | FSub | FMul | FDiv | FRem | FCopysign | FMinStd | FMaxStd | FDivEuclid | FRemEuclid | FPowf | FAtan2 | FAnd | FOr | FXor | FAndNot | FMinSse | FMaxSse.
Inductive fop3 := FFma.
Inductive fcmp := FEq | FNe | FLt | FLe | FGt | FGe.
Inductive fpred := FIsNan | FIsFinite | FSignBit.
Inductive iop1 := INeg | IAbs | ISignum | INot | IWrappingNeg.
Inductive iop2 := IAdd | ISub | IMul | IDiv | IRem | IWAdd | IWSub | IWMul | IWDiv | ISAdd | ISSub | ISMul | ISDiv | IAnd | IOr | IXor | IMin | IMax | IDivEuclid | IRemEuclid | IAbsDiff.
Inductive icmp := IEq | INe | ILt | ILe | IGt | IGe.

(* no primitive projections: tactics destruct the Ops record first *)
Record Ops := {
  F32 : Type; F64 : Type;
  f32_1 : fop1 -> F32 -> F32; f32_2 : fop2 -> F32 -> F32 -> F32; f32_3 : fop3 -> F32 -> F32 -> F32 -> F32;
  f32_cmp : fcmp -> F32 -> F32 -> bool; f32_pred : fpred -> F32 -> bool; f32_of_bits : Z -> F32; f32_to_bits : F32 -> Z;
  f64_1 : fop1 -> F64 -> F64; f64_2 : fop2 -> F64 -> F64 -> F64; f64_3 : fop3 -> F64 -> F64 -> F64 -> F64;
  f64_cmp : fcmp -> F64 -> F64 -> bool; f64_pred : fpred -> F64 -> bool; f64_of_bits : Z -> F64; f64_to_bits : F64 -> Z;
  f32_cvtt_i32 : F32 -> Z; f32_of_i32 : Z -> F32;
  f32_to_int : ik -> F32 -> Z; f64_to_int : ik -> F64 -> Z; f32_of_int : ik -> Z -> F32; f64_of_int : ik -> Z -> F64;
  f32_to_f64 : F32 -> F64; f64_to_f32 : F64 -> F32;
  i_1 : ik -> iop1 -> Z -> option Z; i_2 : ik -> iop2 -> Z -> Z -> option Z; i_checked : ik -> iop2 -> Z -> Z -> option Z;
  i_cmp : icmp -> Z -> Z -> bool; i_cast : ik -> ik -> Z -> Z; i_shl : ik -> ik -> Z -> Z -> option Z; i_shr : ik -> ik -> Z -> Z -> option Z;
  i_mixed : ik -> string -> Z -> Z -> option Z; i_mixed_checked : ik -> string -> Z -> Z -> option Z; i_isneg : ik -> Z -> bool; i_try : ik -> ik -> Z -> option Z
}.


(* values are parameterised by the two float carriers only (not by the whole record of primitives), so that
   normal forms stay small whatever the instance *)
Inductive val (T32 T64 : Type) :=
| VF32 (x : T32) | VF64 (x : T64) | VI (k : ik) (z : Z) | VB (b : bool)
| VT (l : list (val T32 T64)) | VOpt (o : option (val T32 T64)) | VUnit | VStr (s : string).
Arguments VF32 {T32 T64}. Arguments VF64 {T32 T64}. Arguments VI {T32 T64}. Arguments VB {T32 T64}. Arguments VT {T32 T64}. Arguments VOpt {T32 T64}. Arguments VUnit {T32 T64}. Arguments VStr {T32 T64}.
Definition valO (O : Ops) : Type := val (F32 O) (F64 O).
(* control: value or early return; statement result: environment or early return (parameterised by the carriers only) *)
Inductive ctl (T32 T64 : Type) := CVal (v : val T32 T64) | CRet (v : val T32 T64).
Arguments CVal {T32 T64}. Arguments CRet {T32 T64}.
Inductive sres (T32 T64 : Type) := SNorm (env : list (val T32 T64)) | SRet (v : val T32 T64).
Arguments SNorm {T32 T64}. Arguments SRet {T32 T64}.

Section E.
Variable OP : Ops.
Notation val := (valO OP).

Inductive prim :=
| PF1 (k:fk) (o:fop1) | PF2 (k:fk) (o:fop2) | PF3 (k:fk) (o:fop3) | PFCmp (k:fk) (c:fcmp) | PFPred (k:fk) (p:fpred)
| PI1 (k:ik) (o:iop1) | PI2 (k:ik) (o:iop2) | PIChecked (k:ik) (o:iop2) | PICmp (c:icmp) | PIShl (k kc:ik) | PIShr (k kc:ik) | PIMixed (k:ik) (name:string) | PIMixedChecked (k:ik) (name:string) | PIIsNeg (k:ik)
| PBNot | PBAnd | PBOr | PBXor | PBEq
| PUninit4 | PStr (s:string) | PFmt (f:string)
| PFClampStd (k:fk) | PCastBF (k:fk) | PRange (lo hi:Z) | PWriteRange (lo hi:Z) | PUpdDyn
| PCastII (a b:ik) | PCastFI (a:fk) (b:ik) | PCastIF (a:ik) (b:fk) | PCastFF (a b:fk) | PCastBI (b:ik) | PTryII (a b:ik)
| PFromBits (k:fk) | PToBits (k:fk)
| PMk | PProj (i:nat) | PUpd (i:nat) | PIdx | PLen | PSplat (n:nat)
| PSome | PNone | PUnwrap | PSelect
| PKey | PMapN (p:prim) | PReduce (k:fk) (o:fop2) (init:Z) | PSwizzle (idx:list nat) | PAny | PAll | PBitmask
| PLanewise2 (o:fop2) | PLanewise1 (o:fop1) | PLanewise3 (o:fop3) | PLanewiseCmp (c:fcmp) | PCmpUnord                  (* _mm_add_ps etc: lane-wise f32 ops on 4-lane registers *)
| PShuffle (imm:Z) | PMoveHL | PAddSS | PCvtSS | PSet1 | PMoveMask | PCvttEpi32 | PCvtEpi32Ps | PCmpLtEpi32 | PTake (n:nat) | PPad (n:nat).

Inductive expr :=
| EVar (n:nat) | ELitF32 (bits:Z) | ELitF64 (bits:Z) | ELitI (k:ik) (z:Z) | ELitB (b:bool) | EUnit
| EPrim (p:prim) (args:list expr) | ECall (f:positive) (args:list expr)
| EIf (c t e:expr) | EMatchI (s:expr) (arms:list (Z*expr)) (d:expr) | EMatchOpt (s:expr) (some none:expr)
| EBlock (ss:list stmt) (tail:expr) | EPanic | EReturn (e:expr) | ETry (e:expr) | EFold (l init body:expr)
with stmt :=
| SLet (e:expr) | SAssign (p:place) (e:expr) | SIf (c:expr) (t e:list stmt) | SExpr (e:expr) | SAssert (c:expr)
with place := PVar (n:nat) | PFld (p:place) (i:nat).

Record fn := { f_arity : nat; f_body : expr }.
Variable tbl : positive -> option fn.

Definition M := res (ctl (F32 OP) (F64 OP)).
Definition bindv (r : M) (k : val -> M) : M :=
  match r with Ok (CVal v) => k v | Ok (CRet v) => Ok (CRet v) | Panic => Panic | UB s => UB s | OutOfFuel => OutOfFuel | Stuck s => Stuck s end.
Definition ret (v:val) : M := Ok (CVal v).
Definition lift (r : res val) : M := match r with Ok v => ret v | Panic => Panic | UB s => UB s | OutOfFuel => OutOfFuel | Stuck s => Stuck s end.
Definition rbind {A B} (r : res A) (k : A -> res B) : res B := match r with Ok a => k a | Panic => Panic | UB s => UB s | OutOfFuel => OutOfFuel | Stuck s => Stuck s end.
Notation "x <- e ;; k" := (rbind e (fun x => k)) (at level 60, right associativity).

Definition nthv (l:list val) (i:nat) : res val := match nth_error l i with Some v => Ok v | None => Stuck "nth" end.
Fixpoint upd (l:list val) (i:nat) (v:val) : res (list val) :=
  match l, i with _::t, 0%nat => Ok (v::t) | h::t, S i' => t' <- upd t i' v ;; Ok (h::t') | [], _ => Stuck "upd" end.
Definition lanes4 (v:val) : res (F32 OP * F32 OP * F32 OP * F32 OP) := match v with VT [VF32 a; VF32 b; VF32 c; VF32 d] => Ok (a,b,c,d) | _ => Stuck "lanes4" end.
Definition mk4 (a b c d : F32 OP) : val := VT [VF32 a; VF32 b; VF32 c; VF32 d].
Definition sel4 (x : F32 OP * F32 OP * F32 OP * F32 OP) (i:Z) : F32 OP := let '(a,b,c,d) := x in match i with 0 => a | 1 => b | 2 => c | _ => d end.
Definition mask_of (b:bool) : F32 OP := f32_of_bits OP (if b then 4294967295 else 0).
Definition sgn (x : F32 OP) : Z := if f32_pred OP FSignBit x then 1 else 0.
(* integer with bit i set iff the i-th boolean is true, as a decision tree over the booleans (stays small when they are undetermined) *)
Fixpoint bits_tree (bs : list bool) (acc w : Z) : Z := match bs with [] => acc | b :: t => if b then bits_tree t (acc + w) (2 * w) else bits_tree t acc (2 * w) end.
Definition i32_of_u32 (z:Z) : Z := if Z.ltb z 2147483648 then z else z - 4294967296.
Definition u32_of_i32 (z:Z) : Z := if Z.ltb z 0 then z + 4294967296 else z.

(* value-level choice: both alternatives are already evaluated (the translator emits PSelect only for side-effect free,
   total alternatives), so an undetermined condition stays inside the scalar instead of duplicating the continuation *)
Fixpoint sel_val (c:bool) (a b:val) {struct a} : val :=
  match a, b with
  | VF32 x, VF32 y => VF32 (if c then x else y) | VF64 x, VF64 y => VF64 (if c then x else y)
  | VI k x, VI _ y => VI k (if c then x else y) | VB x, VB y => VB (if c then x else y)
  | VT la, VT lb => VT ((fix go (la lb : list val) {struct la} : list val := match la, lb with x :: la', y :: lb' => sel_val c x y :: go la' lb' | _, _ => if c then la else lb end) la lb)
  | _, _ => if c then a else b end.
(* integer primitives either return a value or panic (None) *)
Definition ores {A} (o : option A) : res A := match o with Some a => Ok a | None => Panic end.
(* lane-wise application of a scalar primitive to equally long tuples (core::simd vectors and masks) *)
Fixpoint transpose_args (args : list val) : option (list (list val)) :=
  match args with
  | [] => Some []
  | VT l :: rest =>
      match rest with
      | [] => Some (map (fun x => [x]) l)
      | _ => match transpose_args rest with Some cols => if Nat.eqb (List.length cols) (List.length l) then Some (map (fun xc => fst xc :: snd xc) (combine l cols)) else None | None => None end
      end
  | _ => None end.
Fixpoint mapres {A B} (f : A -> res B) (l : list A) : res (list B) := match l with [] => Ok [] | x :: t => y <- f x ;; ys <- mapres f t ;; Ok (y :: ys) end.
Definition vbools (l : list val) : option (list bool) := fold_right (fun v acc => match v, acc with VB b, Some bs => Some (b :: bs) | _, _ => None end) (Some []) l.
Fixpoint bitmask_of (bs : list bool) : Z := match bs with [] => 0 | b :: t => (if b then 1 else 0) + 2 * bitmask_of t end.
Fixpoint eval_prim (p:prim) (args:list val) {struct p} : res val :=
  match p, args with
  | PKey, _ => k <- fold_left (fun acc v => a <- acc ;; match v with VI _ z => Ok (a * 16 + z) | _ => Stuck "key" end) args (Ok 0) ;; Ok (VI I64 k)
  | PMapN q, _ => match transpose_args args with Some rows => l <- mapres (eval_prim q) rows ;; Ok (VT l) | None => Stuck "mapn" end
  | PReduce K32 o i, [VT l] => fold_left (fun acc v => a <- acc ;; match a, v with VF32 x, VF32 y => Ok (VF32 (f32_2 OP o x y)) | _, _ => Stuck "reduce" end) l (Ok (VF32 (f32_of_bits OP i)))
  | PReduce K64 o i, [VT l] => fold_left (fun acc v => a <- acc ;; match a, v with VF64 x, VF64 y => Ok (VF64 (f64_2 OP o x y)) | _, _ => Stuck "reduce" end) l (Ok (VF64 (f64_of_bits OP i)))
  | PSwizzle idx, [VT la] => l <- mapres (nthv la) idx ;; Ok (VT l)
  | PSwizzle idx, [VT la; VT lb] => l <- mapres (nthv (la ++ lb)) idx ;; Ok (VT l)
  | PAny, [VT l] => match vbools l with Some bs => Ok (VB (existsb (fun b => b) bs)) | None => Stuck "any" end
  | PAll, [VT l] => match vbools l with Some bs => Ok (VB (forallb (fun b => b) bs)) | None => Stuck "all" end
  | PBitmask, [VT l] => match vbools l with Some bs => Ok (VI U64 (bits_tree bs 0 1)) | None => Stuck "bitmask" end
  | PF1 K32 o, [VF32 a] => Ok (VF32 (f32_1 OP o a)) | PF1 K64 o, [VF64 a] => Ok (VF64 (f64_1 OP o a))
  | PF2 K32 o, [VF32 a; VF32 b] => Ok (VF32 (f32_2 OP o a b)) | PF2 K64 o, [VF64 a; VF64 b] => Ok (VF64 (f64_2 OP o a b))
  | PF3 K32 o, [VF32 a; VF32 b; VF32 c] => Ok (VF32 (f32_3 OP o a b c)) | PF3 K64 o, [VF64 a; VF64 b; VF64 c] => Ok (VF64 (f64_3 OP o a b c))
  | PFCmp K32 c, [VF32 a; VF32 b] => Ok (VB (f32_cmp OP c a b)) | PFCmp K64 c, [VF64 a; VF64 b] => Ok (VB (f64_cmp OP c a b))
  | PFPred K32 q, [VF32 a] => Ok (VB (f32_pred OP q a)) | PFPred K64 q, [VF64 a] => Ok (VB (f64_pred OP q a))
  | PI1 k o, [VI _ a] => z <- ores (i_1 OP k o a) ;; Ok (VI k z)
  | PI2 k o, [VI _ a; VI _ b] => z <- ores (i_2 OP k o a b) ;; Ok (VI (match o with IAbsDiff => match k with I8 => U8 | I16 => U16 | I32 => U32 | I64 => U64 | x => x end | _ => k end) z)
  | PIChecked k o, [VI _ a; VI _ b] => Ok (VOpt (match i_checked OP k o a b with Some z => Some (VI k z) | None => None end))
  | PICmp c, [VI _ a; VI _ b] => Ok (VB (i_cmp OP c a b))
  | PIShl k kc, [VI _ a; VI _ b] => z <- ores (i_shl OP k kc a b) ;; Ok (VI k z) | PIShr k kc, [VI _ a; VI _ b] => z <- ores (i_shr OP k kc a b) ;; Ok (VI k z)
  | PIMixed k nm, [VI _ a; VI _ b] => z <- ores (i_mixed OP k nm a b) ;; Ok (VI k z)
  | PIIsNeg k, [VI _ a] => Ok (VB (i_isneg OP k a))
  | PIMixedChecked k nm, [VI _ a; VI _ b] => Ok (VOpt (match i_mixed_checked OP k nm a b with Some z => Some (VI k z) | None => None end))
  | PBNot, [VB a] => Ok (VB (negb a)) | PBAnd, [VB a; VB b] => Ok (VB (andb a b)) | PBOr, [VB a; VB b] => Ok (VB (orb a b)) | PBXor, [VB a; VB b] => Ok (VB (xorb a b)) | PBEq, [VB a; VB b] => Ok (VB (Bool.eqb a b))
  | PCastII a b, [VI _ z] => Ok (VI b (i_cast OP a b z)) | PCastBI b, [VB x] => Ok (VI b (if x then 1 else 0))
  | PCastFI K32 b, [VF32 x] => Ok (VI b (f32_to_int OP b x)) | PCastFI K64 b, [VF64 x] => Ok (VI b (f64_to_int OP b x))
  | PCastIF a K32, [VI _ z] => Ok (VF32 (f32_of_int OP a z)) | PCastIF a K64, [VI _ z] => Ok (VF64 (f64_of_int OP a z))
  | PCastFF K32 K64, [VF32 x] => Ok (VF64 (f32_to_f64 OP x)) | PCastFF K64 K32, [VF64 x] => Ok (VF32 (f64_to_f32 OP x)) | PCastFF K32 K32, [VF32 x] => Ok (VF32 x) | PCastFF K64 K64, [VF64 x] => Ok (VF64 x)
  | PUninit4, [] => Ok (VT [VUnit; VUnit; VUnit; VUnit]) | PStr s, [] => Ok (VStr s) | PFmt f, l => Ok (VT (VStr f :: l))
  | PFClampStd K32, [VF32 x; VF32 lo; VF32 hi] => if f32_cmp OP FLe lo hi then Ok (VF32 (if f32_cmp OP FLt x lo then lo else if f32_cmp OP FGt x hi then hi else x)) else Panic
  | PFClampStd K64, [VF64 x; VF64 lo; VF64 hi] => if f64_cmp OP FLe lo hi then Ok (VF64 (if f64_cmp OP FLt x lo then lo else if f64_cmp OP FGt x hi then hi else x)) else Panic
  | PCastBF K32, [VB b] => Ok (VF32 (f32_of_bits OP (if b then 1065353216 else 0))) | PCastBF K64, [VB b] => Ok (VF64 (f64_of_bits OP (if b then 4607182418800017408 else 0)))
  | PRange lo hi, [VT l] => if Z.leb hi (Z.of_nat (List.length l)) then Ok (VT (firstn (Z.to_nat (hi - lo)) (skipn (Z.to_nat lo) l))) else Panic
  | PWriteRange lo hi, [VT l; VT src] => if Z.leb hi (Z.of_nat (List.length l)) then (if Nat.eqb (List.length src) (Z.to_nat (hi - lo)) then Ok (VT (firstn (Z.to_nat lo) l ++ src ++ skipn (Z.to_nat hi) l)) else Panic) else Panic
  | PUpdDyn, [VT l; VI _ z; v] => if Z.ltb z 0 then Panic else if Z.ltb z (Z.of_nat (List.length l)) then (l' <- upd l (Z.to_nat z) v ;; Ok (VT l')) else Panic
  | PTryII a b, [VI _ z] => Ok (VOpt (match i_try OP a b z with Some r => Some (VI b r) | None => None end))
  | PFromBits K32, [VI _ z] => Ok (VF32 (f32_of_bits OP z)) | PFromBits K64, [VI _ z] => Ok (VF64 (f64_of_bits OP z))
  | PToBits K32, [VF32 x] => Ok (VI U32 (f32_to_bits OP x)) | PToBits K64, [VF64 x] => Ok (VI U64 (f64_to_bits OP x))
  | PMk, l => Ok (VT l)
  | PProj i, [VT l] => nthv l i
  | PUpd i, [VT l; v] => l' <- upd l i v ;; Ok (VT l')
  | PIdx, [VT l; VI _ z] => if Z.ltb z 0 then Panic else if Z.ltb z (Z.of_nat (List.length l)) then match nth_error l (Z.to_nat z) with Some v => Ok v | None => Panic end else Panic
  | PLen, [VT l] => Ok (VI USize (Z.of_nat (List.length l)))
  | PSplat n, [v] => Ok (VT (repeat v n))
  | PSelect, [VB c; a; b] => Ok (sel_val c a b)
  | PSome, [v] => Ok (VOpt (Some v)) | PNone, [] => Ok (VOpt None) | PUnwrap, [VOpt (Some v)] => Ok v | PUnwrap, [VOpt None] => Panic
  | PLanewise2 o, [a;b] => x <- lanes4 a ;; y <- lanes4 b ;; let '(a0,a1,a2,a3) := x in let '(b0,b1,b2,b3) := y in Ok (mk4 (f32_2 OP o a0 b0) (f32_2 OP o a1 b1) (f32_2 OP o a2 b2) (f32_2 OP o a3 b3))
  | PLanewise1 o, [a] => x <- lanes4 a ;; let '(a0,a1,a2,a3) := x in Ok (mk4 (f32_1 OP o a0) (f32_1 OP o a1) (f32_1 OP o a2) (f32_1 OP o a3))
  | PLanewise3 o, [a;b;c] => x <- lanes4 a ;; y <- lanes4 b ;; z <- lanes4 c ;; let '(a0,a1,a2,a3) := x in let '(b0,b1,b2,b3) := y in let '(c0,c1,c2,c3) := z in Ok (mk4 (f32_3 OP o a0 b0 c0) (f32_3 OP o a1 b1 c1) (f32_3 OP o a2 b2 c2) (f32_3 OP o a3 b3 c3))
  | PCmpUnord, [a;b] => x <- lanes4 a ;; y <- lanes4 b ;; let '(a0,a1,a2,a3) := x in let '(b0,b1,b2,b3) := y in let u p q := mask_of (orb (f32_pred OP FIsNan p) (f32_pred OP FIsNan q)) in Ok (mk4 (u a0 b0) (u a1 b1) (u a2 b2) (u a3 b3))
  | PLanewiseCmp c, [a;b] => x <- lanes4 a ;; y <- lanes4 b ;; let '(a0,a1,a2,a3) := x in let '(b0,b1,b2,b3) := y in Ok (mk4 (mask_of (f32_cmp OP c a0 b0)) (mask_of (f32_cmp OP c a1 b1)) (mask_of (f32_cmp OP c a2 b2)) (mask_of (f32_cmp OP c a3 b3)))
  | PShuffle imm, [a;b] => x <- lanes4 a ;; y <- lanes4 b ;; Ok (mk4 (sel4 x (Z.land imm 3)) (sel4 x (Z.land (Z.shiftr imm 2) 3)) (sel4 y (Z.land (Z.shiftr imm 4) 3)) (sel4 y (Z.land (Z.shiftr imm 6) 3)))
  | PMoveHL, [a;b] => x <- lanes4 a ;; y <- lanes4 b ;; Ok (mk4 (sel4 y 2) (sel4 y 3) (sel4 x 2) (sel4 x 3))
  | PAddSS, [a;b] => x <- lanes4 a ;; y <- lanes4 b ;; let '(a0,a1,a2,a3) := x in Ok (mk4 (f32_2 OP FAdd a0 (sel4 y 0)) a1 a2 a3)
  | PCvtSS, [a] => x <- lanes4 a ;; Ok (VF32 (sel4 x 0))
  | PSet1, [VF32 a] => Ok (mk4 a a a a)
  | PMoveMask, [a] => x <- lanes4 a ;; let '(a0,a1,a2,a3) := x in Ok (VI I32 (bits_tree [f32_pred OP FSignBit a0; f32_pred OP FSignBit a1; f32_pred OP FSignBit a2; f32_pred OP FSignBit a3] 0 1))
  | PCvttEpi32, [a] => x <- lanes4 a ;; let '(a0,a1,a2,a3) := x in let c z := f32_of_bits OP (i_cast OP I32 U32 (f32_cvtt_i32 OP z)) in Ok (mk4 (c a0) (c a1) (c a2) (c a3))
  | PCvtEpi32Ps, [a] => x <- lanes4 a ;; let '(a0,a1,a2,a3) := x in let c z := f32_of_i32 OP (i_cast OP U32 I32 (f32_to_bits OP z)) in Ok (mk4 (c a0) (c a1) (c a2) (c a3))
  | PCmpLtEpi32, [a;b] => x <- lanes4 a ;; y <- lanes4 b ;; let '(a0,a1,a2,a3) := x in let '(b0,b1,b2,b3) := y in let c p q := mask_of (i_cmp OP ILt (i_cast OP U32 I32 (f32_to_bits OP p)) (i_cast OP U32 I32 (f32_to_bits OP q))) in Ok (mk4 (c a0 b0) (c a1 b1) (c a2 b2) (c a3 b3))
  | PTake n, [VT l] => Ok (VT (firstn n l))
  | PPad n, [VT l] => match l with [] => Stuck "pad" | h::_ => Ok (VT (l ++ repeat (last l h) n)) end
  | _, _ => Stuck "prim"
  end.

Fixpoint pget (env:list val) (p:place) : res val :=
  match p with PVar n => nthv env n | PFld q i => v <- pget env q ;; match v with VT l => nthv l i | _ => Stuck "pget" end end.
Fixpoint pset (env:list val) (p:place) (v:val) : res (list val) :=
  match p with PVar n => upd env n v
  | PFld q i => old <- pget env q ;; match old with VT l => l' <- upd l i v ;; pset env q (VT l') | _ => Stuck "pset" end end.


Fixpoint find_arm (z:Z) (arms:list (Z*expr)) (d:expr) : expr := match arms with [] => d | (k,e)::t => if Z.eqb z k then e else find_arm z t d end.

Fixpoint eval (fuel:nat) (env:list val) (e:expr) {struct fuel} : M :=
  match fuel with 0%nat => OutOfFuel | S fuel' =>
  let fix evals (es:list expr) : res (list val + val) :=
    match es with [] => Ok (inl []) | e::es' =>
      match eval fuel' env e with
      | Ok (CVal v) => match evals es' with Ok (inl vs) => Ok (inl (v::vs)) | other => other end
      | Ok (CRet v) => Ok (inr v) | Panic => Panic | UB s => UB s | OutOfFuel => OutOfFuel | Stuck s => Stuck s end end in
  match e with
  | EVar n => lift (nthv env n)
  | ELitF32 b => ret (VF32 (f32_of_bits OP b)) | ELitF64 b => ret (VF64 (f64_of_bits OP b))
  | ELitI k z => ret (VI k z) | ELitB b => ret (VB b) | EUnit => ret VUnit
  | EPrim p args => match evals args with Ok (inl vs) => lift (eval_prim p vs) | Ok (inr v) => Ok (CRet v) | Panic => Panic | UB s => UB s | OutOfFuel => OutOfFuel | Stuck s => Stuck s end
  | ECall f args => match evals args with
      | Ok (inl vs) => match tbl f with Some d => match eval fuel' vs (f_body d) with Ok (CVal v) | Ok (CRet v) => ret v | other => other end | None => Stuck "nofn" end
      | Ok (inr v) => Ok (CRet v) | Panic => Panic | UB s => UB s | OutOfFuel => OutOfFuel | Stuck s => Stuck s end
  | EIf c t f => bindv (eval fuel' env c) (fun v => match v with VB true => eval fuel' env t | VB false => eval fuel' env f | _ => Stuck "if" end)
  | EMatchI s arms d => bindv (eval fuel' env s) (fun v => match v with
      | VI _ z => (fix go (arms : list (Z * expr)) : M := match arms with [] => eval fuel' env d | (k, e) :: t => if Z.eqb z k then eval fuel' env e else go t end) arms   (* the test stays outside the evaluator: an undetermined scrutinee splits into the arms instead of blocking [eval] on a neutral expression *)
      | _ => Stuck "matchi" end)
  | EMatchOpt s sm nn => bindv (eval fuel' env s) (fun v => match v with VOpt (Some x) => eval fuel' (env ++ [x]) sm | VOpt None => eval fuel' env nn | _ => Stuck "matchopt" end)
  | EBlock ss tl => match exec fuel' env ss with Ok (SNorm env') => eval fuel' env' tl | Ok (SRet v) => Ok (CRet v) | Panic => Panic | UB s => UB s | OutOfFuel => OutOfFuel | Stuck s => Stuck s end
  | EPanic => Panic
  | EReturn e => bindv (eval fuel' env e) (fun v => Ok (CRet v))
  | ETry e => bindv (eval fuel' env e) (fun v => match v with VOpt (Some x) => ret x | VOpt None => Ok (CRet (VOpt None)) | _ => Stuck "try" end)
  | EFold l i b => bindv (eval fuel' env l) (fun lv => bindv (eval fuel' env i) (fun iv => match lv with
      | VT xs => (fix go (xs:list val) (acc:val) : M := match xs with [] => ret acc | x::xs' => bindv (eval fuel' (env ++ [acc; x]) b) (fun acc' => go xs' acc') end) xs iv
      | _ => Stuck "fold" end))
  end end
with exec (fuel:nat) (env:list val) (ss:list stmt) {struct fuel} : res (sres (F32 OP) (F64 OP)) :=
  match fuel with 0%nat => OutOfFuel | S fuel' =>
  match ss with
  | [] => Ok (SNorm env)
  | s :: rest =>
    let n := List.length env in
    match s with
    | SLet e => match eval fuel' env e with Ok (CVal v) => exec fuel' (env ++ [v]) rest | Ok (CRet v) => Ok (SRet v) | Panic => Panic | UB s => UB s | OutOfFuel => OutOfFuel | Stuck s => Stuck s end
    | SAssign p e => match eval fuel' env e with Ok (CVal v) => env' <- pset env p v ;; exec fuel' env' rest | Ok (CRet v) => Ok (SRet v) | Panic => Panic | UB s => UB s | OutOfFuel => OutOfFuel | Stuck s => Stuck s end
    | SExpr e => match eval fuel' env e with Ok (CVal _) => exec fuel' env rest | Ok (CRet v) => Ok (SRet v) | Panic => Panic | UB s => UB s | OutOfFuel => OutOfFuel | Stuck s => Stuck s end
    | SAssert c => match eval fuel' env c with Ok (CVal (VB true)) => exec fuel' env rest | Ok (CVal (VB false)) => Panic | Ok (CVal _) => Stuck "assert" | Ok (CRet v) => Stuck "assert-return" | Panic => Panic | UB s => UB s | OutOfFuel => OutOfFuel | Stuck s => Stuck s end
    | SIf c t f => match eval fuel' env c with
        | Ok (CVal (VB b)) =>      (* the continuation is duplicated into the two branches, so that an undetermined condition splits the whole remaining path *)
            if b then match exec fuel' env t with Ok (SNorm env') => exec fuel' (firstn n env') rest | other => other end
            else match exec fuel' env f with Ok (SNorm env') => exec fuel' (firstn n env') rest | other => other end
        | Ok (CVal _) => Stuck "sif" | Ok (CRet v) => Ok (SRet v) | Panic => Panic | UB s => UB s | OutOfFuel => OutOfFuel | Stuck s => Stuck s end
    end
  end end.

Definition run (fuel:nat) (f:positive) (args:list val) : res val :=
  match tbl f with Some d => match eval fuel args (f_body d) with Ok (CVal v) | Ok (CRet v) => Ok v | Panic => Panic | UB s => UB s | OutOfFuel => OutOfFuel | Stuck s => Stuck s end | None => Stuck "nofn" end.
End E.
