(* Concrete semantics: Rust integer primitives on Z and IEEE-754 floats on Flocq (binary32/binary64). *)
From Glam Require Import Base.
From Coq Require Import ZArith List String Bool Lia.
From Flocq Require Import Core BinarySingleNaN Binary Bits.
Import ListNotations.
Open Scope Z_scope.

(* ---------------- integers *)
Definition bits (k:ik) : Z := match k with I8 | U8 => 8 | I16 | U16 => 16 | I32 | U32 => 32 | I64 | U64 | USize => 64 end.
Definition signed (k:ik) : bool := match k with I8 | I16 | I32 | I64 => true | _ => false end.
Definition imin (k:ik) : Z := if signed k then - 2 ^ (bits k - 1) else 0.
Definition imax (k:ik) : Z := if signed k then 2 ^ (bits k - 1) - 1 else 2 ^ bits k - 1.
Definition inr (k:ik) (z:Z) : bool := Z.leb (imin k) z && Z.leb z (imax k).
Definition wrap (k:ik) (z:Z) : Z := let m := z mod 2 ^ bits k in if signed k && Z.leb (2 ^ (bits k - 1)) m then m - 2 ^ bits k else m.
Definition sat (k:ik) (z:Z) : Z := if Z.ltb z (imin k) then imin k else if Z.ltb (imax k) z then imax k else z.
Definition unsigned_of (k:ik) : ik := match k with I8 => U8 | I16 => U16 | I32 => U32 | I64 => U64 | x => x end.
Definition signed_of (k:ik) : ik := match k with U8 => I8 | U16 => I16 | U32 => I32 | U64 | USize => I64 | x => x end.

Section Ints.
Variable chk : bool.   (* overflow checks (debug profile) *)
Definition arith (k:ik) (r:Z) : option Z := if inr k r then Some r else if chk then None else Some (wrap k r).
Definition zi_2 (k:ik) (o:iop2) (a b:Z) : option Z :=
  match o with
  | IAdd => arith k (a + b) | ISub => arith k (a - b) | IMul => arith k (a * b)
  | IDiv => if Z.eqb b 0 then None else if signed k && Z.eqb a (imin k) && Z.eqb b (-1) then None else Some (Z.quot a b)
  | IRem => if Z.eqb b 0 then None else if signed k && Z.eqb a (imin k) && Z.eqb b (-1) then None else Some (Z.rem a b)
  | IWAdd => Some (wrap k (a + b)) | IWSub => Some (wrap k (a - b)) | IWMul => Some (wrap k (a * b))
  | IWDiv => if Z.eqb b 0 then None else Some (wrap k (Z.quot a b))
  | ISAdd => Some (sat k (a + b)) | ISSub => Some (sat k (a - b)) | ISMul => Some (sat k (a * b))
  | ISDiv => if Z.eqb b 0 then None else Some (sat k (Z.quot a b))
  | IAnd => Some (Z.land a b) | IOr => Some (Z.lor a b) | IXor => Some (Z.lxor a b)
  | IMin => Some (Z.min a b) | IMax => Some (Z.max a b)
  | IDivEuclid => if Z.eqb b 0 then None else if signed k && Z.eqb a (imin k) && Z.eqb b (-1) then None else
      let q := Z.quot a b in Some (if Z.ltb (Z.rem a b) 0 then (if Z.ltb 0 b then q - 1 else q + 1) else q)
  | IRemEuclid => if Z.eqb b 0 then None else if signed k && Z.eqb a (imin k) && Z.eqb b (-1) then None else
      let r := Z.rem a b in Some (if Z.ltb r 0 then r + Z.abs b else r)
  | IAbsDiff => Some (Z.abs (a - b))
  end.
Definition zi_1 (k:ik) (o:iop1) (a:Z) : option Z :=
  match o with INeg => arith k (- a) | IAbs => arith k (Z.abs a) | ISignum => Some (Z.sgn a) | INot => Some (if signed k then - a - 1 else imax k - a) | IWrappingNeg => Some (wrap k (- a)) end.
Definition zi_checked (k:ik) (o:iop2) (a b:Z) : option Z :=
  match o with
  | IAdd => if inr k (a + b) then Some (a + b) else None | ISub => if inr k (a - b) then Some (a - b) else None | IMul => if inr k (a * b) then Some (a * b) else None
  | IDiv => if Z.eqb b 0 then None else if inr k (Z.quot a b) then Some (Z.quot a b) else None
  | _ => None end.
Definition shcount (k kc:ik) (b:Z) : option Z := if Z.leb 0 b && Z.ltb b (bits k) then Some b else if chk then None else Some (b mod bits k).
Definition zi_shl (k kc:ik) (a b:Z) : option Z := match shcount k kc b with Some c => Some (wrap k (Z.shiftl a c)) | None => None end.
Definition zi_shr (k kc:ik) (a b:Z) : option Z := match shcount k kc b with Some c => Some (Z.shiftr a c) | None => None end.
Open Scope string_scope.
Definition zi_mixed (k:ik) (nm:string) (a b:Z) : option Z :=
  if String.eqb nm "wrapping_add_unsigned" || String.eqb nm "wrapping_add_signed" then Some (wrap k (a + b))
  else if String.eqb nm "wrapping_sub_unsigned" then Some (wrap k (a - b))
  else if String.eqb nm "saturating_add_unsigned" || String.eqb nm "saturating_add_signed" then Some (sat k (a + b))
  else if String.eqb nm "saturating_sub_unsigned" then Some (sat k (a - b)) else None.
Definition zi_mixed_checked (k:ik) (nm:string) (a b:Z) : option Z :=
  let r := if String.eqb nm "checked_sub_unsigned" then a - b else a + b in if inr k r then Some r else None.
Close Scope string_scope.
Definition zi_cmp (c:icmp) (a b:Z) : bool := match c with IEq => Z.eqb a b | INe => negb (Z.eqb a b) | ILt => Z.ltb a b | ILe => Z.leb a b | IGt => Z.ltb b a | IGe => Z.leb b a end.
End Ints.

(* ---------------- floats: generic over (prec, emax) via the two concrete formats *)
Definition b32 := binary32. Definition b64 := binary64.
Definition ofb32 (z:Z) : b32 := b32_of_bits (z mod 4294967296).
Definition ofb64 (z:Z) : b64 := b64_of_bits (z mod 18446744073709551616).
Definition cmp_of (o : option comparison) (c:fcmp) : bool :=
  match o with
  | Some Eq => match c with FEq | FLe | FGe => true | _ => false end
  | Some Lt => match c with FLt | FLe | FNe => true | _ => false end
  | Some Gt => match c with FGt | FGe | FNe => true | _ => false end
  | None => match c with FNe => true | _ => false end end.

Section F32.
Variable oracle1 : fop1 -> Z -> Z. Variable oracle2 : fop2 -> Z -> Z -> Z.   (* libm results as bit patterns, supplied by the harness *)
Definition nan32 : b32 := ofb32 2143289344.
Definition one32 : b32 := ofb32 1065353216.
Definition norm32 (m e:Z) (sz:bool) : b32 := binary_normalize 24 128 (refl_equal _) (refl_equal _) mode_NE m e sz.
Definition rint32 (md:mode) (x:b32) : b32 := Bnearbyint 24 128 (refl_equal _) unop_nan_pl32 md x.
Definition sign32 (x:b32) : bool := Z.leb 2147483648 (bits_of_b32 x).
Definition copysign32 (x y:b32) : b32 := ofb32 (Z.lor (Z.land (bits_of_b32 x) 2147483647) (Z.land (bits_of_b32 y) 2147483648)).
Definition fmod32 (x y:b32) : b32 :=
  match x, y with
  | B754_nan _ _ _ _ _, _ => x | _, B754_nan _ _ _ _ _ => y
  | B754_infinity _ _ _, _ => nan32 | _, B754_zero _ _ _ => nan32
  | _, B754_infinity _ _ _ => x | B754_zero _ _ _, _ => x
  | B754_finite _ _ sx mx ex _, B754_finite _ _ sy my ey _ =>
      let e := Z.min ex ey in let X := Zpos mx * 2 ^ (ex - e) in let Y := Zpos my * 2 ^ (ey - e) in
      norm32 (cond_Zopp sx (X mod Y)) e sx
  end.
Definition lt32 a b := cmp_of (b32_compare a b) FLt.
Definition f32_1s (o:fop1) (a:b32) : b32 :=
  match o with
  | FNeg => ofb32 (Z.lxor (bits_of_b32 a) 2147483648) | FAbs => ofb32 (Z.land (bits_of_b32 a) 2147483647)
  | FSqrt => b32_sqrt mode_NE a | FFloor => rint32 mode_DN a | FCeil => rint32 mode_UP a | FTrunc => rint32 mode_ZR a | FRound => rint32 mode_NA a
  | FSignum => if is_nan 24 128 a then nan32 else copysign32 one32 a
  | FRecipStd => b32_div mode_NE one32 a
  | o => ofb32 (oracle1 o (bits_of_b32 a)) end.
Definition f32_2s (o:fop2) (a b:b32) : b32 :=
  match o with
  | FAdd => b32_plus mode_NE a b | FSub => b32_minus mode_NE a b | FMul => b32_mult mode_NE a b | FDiv => b32_div mode_NE a b | FRem => fmod32 a b
  | FCopysign => copysign32 a b
  | FAnd => ofb32 (Z.land (bits_of_b32 a) (bits_of_b32 b)) | FOr => ofb32 (Z.lor (bits_of_b32 a) (bits_of_b32 b)) | FXor => ofb32 (Z.lxor (bits_of_b32 a) (bits_of_b32 b))
  | FAndNot => ofb32 (Z.land (Z.lxor (bits_of_b32 a) 4294967295) (bits_of_b32 b))
  | FMinSse => if lt32 a b then a else b | FMaxSse => if lt32 b a then a else b
  | FMinStd => if is_nan 24 128 a then b else if is_nan 24 128 b then a else if lt32 b a then b else a
  | FMaxStd => if is_nan 24 128 a then b else if is_nan 24 128 b then a else if lt32 a b then b else a
  | FDivEuclid => let q := rint32 mode_ZR (b32_div mode_NE a b) in
      if lt32 (fmod32 a b) (ofb32 0) then (if lt32 (ofb32 0) b then b32_minus mode_NE q one32 else b32_plus mode_NE q one32) else q
  | FRemEuclid => let r := fmod32 a b in if lt32 r (ofb32 0) then b32_plus mode_NE r (ofb32 (Z.land (bits_of_b32 b) 2147483647)) else r
  | o => ofb32 (oracle2 o (bits_of_b32 a) (bits_of_b32 b)) end.
Definition f32_to_int_s (k:ik) (x:b32) : Z :=
  match x with B754_nan _ _ _ _ _ => 0 | B754_infinity _ _ s => if s then imin k else imax k | _ => sat k (Btrunc 24 128 x) end.
Definition cvtt32 (x:b32) : Z := match x with B754_finite _ _ _ _ _ _ | B754_zero _ _ _ => let t := Btrunc 24 128 x in if Z.leb (-2147483648) t && Z.ltb t 2147483648 then t else -2147483648 | _ => -2147483648 end.
End F32.

Section F64.
Variable oracle1 : fop1 -> Z -> Z. Variable oracle2 : fop2 -> Z -> Z -> Z.
Definition nan64 : b64 := ofb64 9221120237041090560.
Definition one64 : b64 := ofb64 4607182418800017408.
Definition norm64 (m e:Z) (sz:bool) : b64 := binary_normalize 53 1024 (refl_equal _) (refl_equal _) mode_NE m e sz.
Definition rint64 (md:mode) (x:b64) : b64 := Bnearbyint 53 1024 (refl_equal _) unop_nan_pl64 md x.
Definition copysign64 (x y:b64) : b64 := ofb64 (Z.lor (Z.land (bits_of_b64 x) 9223372036854775807) (Z.land (bits_of_b64 y) 9223372036854775808)).
Definition fmod64 (x y:b64) : b64 :=
  match x, y with
  | B754_nan _ _ _ _ _, _ => x | _, B754_nan _ _ _ _ _ => y
  | B754_infinity _ _ _, _ => nan64 | _, B754_zero _ _ _ => nan64
  | _, B754_infinity _ _ _ => x | B754_zero _ _ _, _ => x
  | B754_finite _ _ sx mx ex _, B754_finite _ _ sy my ey _ =>
      let e := Z.min ex ey in let X := Zpos mx * 2 ^ (ex - e) in let Y := Zpos my * 2 ^ (ey - e) in
      norm64 (cond_Zopp sx (X mod Y)) e sx
  end.
Definition lt64 a b := cmp_of (b64_compare a b) FLt.
Definition f64_1s (o:fop1) (a:b64) : b64 :=
  match o with
  | FNeg => ofb64 (Z.lxor (bits_of_b64 a) 9223372036854775808) | FAbs => ofb64 (Z.land (bits_of_b64 a) 9223372036854775807)
  | FSqrt => b64_sqrt mode_NE a | FFloor => rint64 mode_DN a | FCeil => rint64 mode_UP a | FTrunc => rint64 mode_ZR a | FRound => rint64 mode_NA a
  | FSignum => if is_nan 53 1024 a then nan64 else copysign64 one64 a
  | FRecipStd => b64_div mode_NE one64 a
  | o => ofb64 (oracle1 o (bits_of_b64 a)) end.
Definition f64_2s (o:fop2) (a b:b64) : b64 :=
  match o with
  | FAdd => b64_plus mode_NE a b | FSub => b64_minus mode_NE a b | FMul => b64_mult mode_NE a b | FDiv => b64_div mode_NE a b | FRem => fmod64 a b
  | FCopysign => copysign64 a b
  | FDivEuclid => let q := rint64 mode_ZR (b64_div mode_NE a b) in
      if lt64 (fmod64 a b) (ofb64 0) then (if lt64 (ofb64 0) b then b64_minus mode_NE q one64 else b64_plus mode_NE q one64) else q
  | FRemEuclid => let r := fmod64 a b in if lt64 r (ofb64 0) then b64_plus mode_NE r (ofb64 (Z.land (bits_of_b64 b) 9223372036854775807)) else r
  | FMinSse => if lt64 a b then a else b | FMaxSse => if lt64 b a then a else b
  | FMinStd => if is_nan 53 1024 a then b else if is_nan 53 1024 b then a else if lt64 b a then b else a
  | FMaxStd => if is_nan 53 1024 a then b else if is_nan 53 1024 b then a else if lt64 a b then b else a
  | o => ofb64 (oracle2 o (bits_of_b64 a) (bits_of_b64 b)) end.
Definition f64_to_int_s (k:ik) (x:b64) : Z :=
  match x with B754_nan _ _ _ _ _ => 0 | B754_infinity _ _ s => if s then imin k else imax k | _ => sat k (Btrunc 53 1024 x) end.
End F64.

Definition f32_to_f64_s (x:b32) : b64 :=
  match x with B754_zero _ _ s => B754_zero 53 1024 s | B754_infinity _ _ s => B754_infinity 53 1024 s | B754_nan _ _ s _ _ => ofb64 (if s then 18444492273895866368 else 9221120237041090560)
  | B754_finite _ _ s m e _ => norm64 (cond_Zopp s (Zpos m)) e s end.
Definition f64_to_f32_s (x:b64) : b32 :=
  match x with B754_zero _ _ s => B754_zero 24 128 s | B754_infinity _ _ s => B754_infinity 24 128 s | B754_nan _ _ s _ _ => ofb32 (if s then 4290772992 else 2143289344)
  | B754_finite _ _ s m e _ => norm32 (cond_Zopp s (Zpos m)) e s end.

Definition pred32 (p:fpred) (x:b32) : bool := match p with FIsNan => is_nan 24 128 x | FSignBit => sign32 x | FIsFinite => is_finite 24 128 x end.
Definition pred64 (p:fpred) (x:b64) : bool := match p with FIsNan => is_nan 53 1024 x | FSignBit => Z.leb 9223372036854775808 (bits_of_b64 x) | FIsFinite => is_finite 53 1024 x end.

Definition IEEE (chk:bool) (o1 : fk -> fop1 -> Z -> Z) (o2 : fk -> fop2 -> Z -> Z -> Z) : Ops := {|
  F32 := b32; F64 := b64;
  f32_1 := f32_1s (o1 K32); f32_2 := f32_2s (o2 K32); f32_3 := fun _ a b c => b32_fma mode_NE a b c;
  f32_cmp := fun c a b => cmp_of (b32_compare a b) c; f32_pred := pred32; f32_of_bits := ofb32; f32_to_bits := bits_of_b32;
  f64_1 := f64_1s (o1 K64); f64_2 := f64_2s (o2 K64); f64_3 := fun _ a b c => b64_fma mode_NE a b c;
  f64_cmp := fun c a b => cmp_of (b64_compare a b) c; f64_pred := pred64; f64_of_bits := ofb64; f64_to_bits := bits_of_b64;
  f32_cvtt_i32 := cvtt32; f32_of_i32 := fun z => norm32 z 0 false;
  f32_to_int := f32_to_int_s; f64_to_int := f64_to_int_s; f32_of_int := fun _ z => norm32 z 0 false; f64_of_int := fun _ z => norm64 z 0 false;
  f32_to_f64 := f32_to_f64_s; f64_to_f32 := f64_to_f32_s;
  i_1 := zi_1 chk; i_2 := zi_2 chk; i_checked := zi_checked; i_cmp := zi_cmp; i_cast := fun _ b z => wrap b z; i_shl := zi_shl chk; i_shr := zi_shr chk;
  i_mixed := zi_mixed; i_mixed_checked := zi_mixed_checked; i_isneg := fun _ z => Z.ltb z 0; i_try := fun _ b z => if inr b z then Some z else None |}.

(* an arbitrary float instance combined with the concrete Rust integer semantics: used where index / length logic must compute *)
Definition withZ (O:Ops) (chk:bool) : Ops := {|
  F32 := F32 O; F64 := F64 O;
  f32_1 := f32_1 O; f32_2 := f32_2 O; f32_3 := f32_3 O; f32_cmp := f32_cmp O; f32_pred := f32_pred O; f32_of_bits := f32_of_bits O; f32_to_bits := f32_to_bits O;
  f64_1 := f64_1 O; f64_2 := f64_2 O; f64_3 := f64_3 O; f64_cmp := f64_cmp O; f64_pred := f64_pred O; f64_of_bits := f64_of_bits O; f64_to_bits := f64_to_bits O;
  f32_cvtt_i32 := f32_cvtt_i32 O; f32_of_i32 := f32_of_i32 O;
  f32_to_int := f32_to_int O; f64_to_int := f64_to_int O; f32_of_int := f32_of_int O; f64_of_int := f64_of_int O; f32_to_f64 := f32_to_f64 O; f64_to_f32 := f64_to_f32 O;
  i_1 := zi_1 chk; i_2 := zi_2 chk; i_checked := zi_checked; i_cmp := zi_cmp; i_cast := fun _ b z => wrap b z; i_shl := zi_shl chk; i_shr := zi_shr chk;
  i_mixed := zi_mixed; i_mixed_checked := zi_mixed_checked; i_isneg := fun _ z => Z.ltb z 0; i_try := fun _ b z => if inr b z then Some z else None |}.

(* [IntStd O chk]: the integer primitives of [O] are the Rust ones (overflow checks on iff [chk]); floats stay arbitrary *)
Definition IntStd (O:Ops) (chk:bool) : Prop :=
  i_1 O = zi_1 chk /\ i_2 O = zi_2 chk /\ i_checked O = zi_checked /\ i_cmp O = zi_cmp /\ i_cast O = (fun _ b z => wrap b z) /\
  i_shl O = zi_shl chk /\ i_shr O = zi_shr chk /\ i_mixed O = zi_mixed /\ i_mixed_checked O = zi_mixed_checked /\
  i_isneg O = (fun _ z => Z.ltb z 0) /\ i_try O = (fun _ b z => if inr b z then Some z else None).
Lemma IntStd_withZ O chk : IntStd (withZ O chk) chk.
Proof. repeat split. Qed.
Lemma IntStd_IEEE chk o1 o2 : IntStd (IEEE chk o1 o2) chk.
Proof. repeat split. Qed.
(* [LitStd O]: the order of the literal bounds glam passes to std `clamp` (-1 <= 1 and 0 <= 1) holds in [O]; true of IEEE *)
Definition LitStd (O:Ops) : Prop :=
  f32_cmp O FLe (f32_of_bits O 3212836864) (f32_of_bits O 1065353216) = true /\ f64_cmp O FLe (f64_of_bits O 13830554455654793216) (f64_of_bits O 4607182418800017408) = true /\
  f32_cmp O FLe (f32_of_bits O 0) (f32_of_bits O 1065353216) = true /\ f64_cmp O FLe (f64_of_bits O 0) (f64_of_bits O 4607182418800017408) = true /\
  f32_pred O FSignBit (f32_of_bits O 4294967295) = true /\ f32_pred O FSignBit (f32_of_bits O 0) = false.
Lemma LitStd_IEEE chk o1 o2 : LitStd (IEEE chk o1 o2).
Proof. repeat split; vm_compute; reflexivity. Qed.
Ltac litstd_eqs H := cbv [LitStd f32_cmp f64_cmp f32_of_bits f64_of_bits f32_pred] in H; destruct H as (? & ? & ? & ? & ? & ?).
Ltac use_lits := repeat match goal with E : _ = true |- _ => rewrite E | E : _ = false |- _ => rewrite E end.

(* split the hypothesis into its eleven equations (the abstract primitives stay variables until [unlock_ints]) *)
Ltac intstd_eqs H :=
  cbv [IntStd i_1 i_2 i_checked i_cmp i_cast i_shl i_shr i_mixed i_mixed_checked i_isneg i_try] in H;
  destruct H as (? & ? & ? & ? & ? & ? & ? & ? & ? & ? & ?).
Ltac unlock_ints := repeat match goal with E : ?v = _ |- context[?v] => is_var v; rewrite E end.

(* flatten a result to words for comparison with the driver *)
Definition no_o1 (_:fk) (_:fop1) (z:Z) : Z := 0. Definition no_o2 (_:fk) (_:fop2) (a b:Z) : Z := 0.
Definition IEEEr := IEEE false no_o1 no_o2.
Fixpoint flat (v : valO IEEEr) : list Z := match v with VF32 x => [bits_of_b32 x] | VF64 x => [bits_of_b64 x] | VI _ z => [z] | VB b => [if b then 1 else 0] | VT l => flat_map flat l | VOpt None => [0] | VOpt (Some x) => 1 :: flat x | VUnit => [0] | VStr _ => [] end.
Definition out (r : res (valO IEEEr)) : list Z := match r with Ok v => 0 :: flat v | Panic => [1] | UB _ => [3] | OutOfFuel => [4] | Stuck _ => [2] end.
Definition vf32 (w:Z) : valO IEEEr := @VF32 _ _ (ofb32 w).
Definition vf64 (w:Z) : valO IEEEr := @VF64 _ _ (ofb64 w).
Definition vi (k:ik) (z:Z) : valO IEEEr := @VI _ _ k z.
Definition vb (b:bool) : valO IEEEr := @VB _ _ b.
