(* F3: the DirectXMath/glam SSE2 floor trick (src/sse2.rs m128_floor) equals IEEE roundToIntegral(toward -inf) on every binary32 bit pattern. *)
From Coq Require Import ZArith Reals Lia Lra Bool Psatz.
From Flocq Require Import Core BinarySingleNaN Binary Bits.
Open Scope Z_scope.

Notation b32 := binary32.
Definition ofb (z:Z) : b32 := b32_of_bits z.
Definition tob (x:b32) : Z := bits_of_b32 x.
Definition of_i32 (z:Z) : b32 := binary_normalize 24 128 (refl_equal _) (refl_equal _) mode_NE z 0 false.
Definition i32_of_u32 (z:Z) : Z := if Z.ltb z 2147483648 then z else z - 4294967296.
(* cvttps2dq: truncation; out of range / NaN / inf -> 0x80000000 *)
Definition cvtt (x:b32) : Z := if is_finite 24 128 x then let t := Btrunc 24 128 x in if (Z.leb (-2147483648) t && Z.ltb t 2147483648)%bool then t else -2147483648 else -2147483648.
Definition gt (a b : b32) : bool := match b32_compare a b with Some Gt => true | _ => false end.
Definition mask (b:bool) : Z := if b then 4294967295 else 0.

Definition floor_trick (v : b32) : b32 :=
  let test := mask (Z.ltb (i32_of_u32 (Z.land (tob v) 2147483647)) 1258291200) in   (* 0x4b000000 *)
  let result := of_i32 (cvtt v) in
  let larger := mask (gt result v) in
  let larger_f := of_i32 (i32_of_u32 larger) in
  let result2 := b32_plus mode_NE result larger_f in
  let r := Z.land (tob result2) test in
  let t2 := Z.land (Z.lxor test 4294967295) (tob v) in
  ofb (Z.lor r t2).

(* sanity: evaluate on a few values *)
Eval vm_compute in (tob (floor_trick (ofb 0xbf000000)), tob (floor_trick (ofb 0x40200000)), tob (floor_trick (ofb 0xc0200000)), tob (floor_trick (ofb 0x7fc00001)), tob (floor_trick (ofb 0x4b000001)), tob (floor_trick (ofb 0x80000000))).
(* -0.5 -> -1 (0xbf800000); 2.5 -> 2 (0x40000000); -2.5 -> -3 (0xc0400000); NaN stays; 2^23+1 stays; -0 -> +0 *)

Definition spec_floor (x:b32) : b32 := Bnearbyint 24 128 (refl_equal _) (fun _ => exist _ (B754_nan 24 128 false 1 (refl_equal _)) (refl_equal _)) mode_DN x.
Eval vm_compute in (tob (spec_floor (ofb 0xbf000000)), tob (spec_floor (ofb 0x40200000)), tob (spec_floor (ofb 0xc0200000)), tob (spec_floor (ofb 0x4b000001)), tob (spec_floor (ofb 0x80000000))).

Definition isnan (x:b32) := is_nan 24 128 x.
Definition feq (a b : b32) : Prop :=
  (isnan a = true /\ isnan b = true) \/ (isnan a = false /\ isnan b = false /\ b32_compare a b = Some Eq).

(* ---- bit-level helpers *)
Lemma land_ones31 : forall a, Z.land a 2147483647 = a mod 2147483648.
Proof. intros. change 2147483647 with (Z.ones 31). rewrite Z.land_ones by lia. reflexivity. Qed.
Lemma land_ones32 : forall a, 0 <= a < 4294967296 -> Z.land a 4294967295 = a.
Proof. intros. change 4294967295 with (Z.ones 32). rewrite Z.land_ones by lia. apply Z.mod_small. exact H. Qed.
Lemma join_abs : forall s m e, 0 <= m < 8388608 -> 0 <= e < 256 ->
  Z.land (join_bits 23 8 s m e) 2147483647 = e * 8388608 + m.
Proof. intros. rewrite land_ones31. unfold join_bits. rewrite Z.shiftl_mul_pow2 by lia. change (2^23) with 8388608. change (Zpower 2 8) with 256.
  destruct s; [replace ((256 + e) * 8388608 + m) with ((e * 8388608 + m) + 1 * 2147483648) by lia; rewrite Z_mod_plus_full|]; apply Z.mod_small; lia. Qed.
Lemma tob_range : forall x, 0 <= tob x < 4294967296.
Proof. intros. unfold tob, bits_of_b32. pose proof (bits_of_binary_float_range 23 8 (refl_equal _) (refl_equal _) x). simpl in H. exact H. Qed.
Lemma ofb_tob : forall x, ofb (tob x) = x.
Proof. intros. unfold ofb, tob, b32_of_bits, bits_of_b32. exact (binary_float_of_bits_of_binary_float 23 8 (refl_equal _) (refl_equal _) (refl_equal _) x). Qed.

(* when the range test fails the trick returns its input *)
Lemma trick_passthrough : forall v, Z.ltb (i32_of_u32 (Z.land (tob v) 2147483647)) 1258291200 = false -> floor_trick v = v.
Proof. intros v H. unfold floor_trick. rewrite H. cbn [mask]. rewrite Z.land_0_r. cbn [Z.lxor Z.lor]. 
  change (Z.lxor 0 4294967295) with 4294967295. rewrite Z.land_comm. rewrite land_ones32 by apply tob_range. apply ofb_tob. Qed.

(* ---- structure of canonical finite binary32 numbers *)
Lemma nan_pl_bound : forall pl, nan_pl 24 pl = true -> Zpos pl < 8388608.
Proof. intros pl H. unfold nan_pl in H. apply Z.ltb_lt in H. rewrite Zpos_digits2_pos in H.
  apply (Zpower_gt_Zdigits radix2 23 (Zpos pl)). lia. Qed.

Lemma finite_shape : forall m e, SpecFloat.bounded 24 128 m e = true ->
  -149 <= e <= 104 /\ ((8388608 <= Zpos m < 16777216) \/ (Zpos m < 8388608 /\ e = -149)).
Proof. intros m e H. unfold SpecFloat.bounded in H. apply andb_true_iff in H. destruct H as [A B]. apply Z.leb_le in B.
  unfold SpecFloat.canonical_mantissa, SpecFloat.fexp, SpecFloat.emin in A. apply Zeq_bool_eq in A. rewrite Zpos_digits2_pos in A.
  pose proof (Zdigits_correct radix2 (Zpos m)) as D. rewrite Z.abs_eq in D by lia. 
  set (d := Zdigits radix2 (Zpos m)) in *. change (3 - 128 - 24) with (-149) in A.
  assert (0 < d) by (apply Zdigits_gt_0; lia).
  destruct (Z.max_spec (d + e - 24) (-149)) as [[L M]|[L M]]; rewrite M in A.
  - split. lia. right. split; [|lia]. assert (d <= 23) by lia.
    destruct D as [_ D]. apply Z.lt_le_trans with (1 := D). change 8388608 with (radix2 ^ 23). apply Zpower_le. exact H0.
  - split. lia. left. assert (d = 24) by lia. rewrite H0 in D. simpl in D. exact D. Qed.

Lemma tob_finite : forall s m e H, tob (B754_finite 24 128 s m e H) =
  if Z.leb 8388608 (Zpos m) then join_bits 23 8 s (Zpos m - 8388608) (e + 150) else join_bits 23 8 s (Zpos m) 0.
Proof. intros. unfold tob, bits_of_b32, bits_of_binary_float. change (2^23) with 8388608. change (SpecFloat.emin (23 + 1) (2 ^ (8 - 1))) with (-149).
  replace (e - -149 + 1) with (e + 150) by lia. destruct (Z.leb_spec 8388608 (Zpos m)); destruct (Zle_bool_spec 0 (Zpos m - 8388608)); try lia; reflexivity. Qed.

Definition test_of (v:b32) : bool := Z.ltb (i32_of_u32 (Z.land (tob v) 2147483647)) 1258291200.

Lemma test_finite : forall s m e H, test_of (B754_finite 24 128 s m e H) = Z.ltb e 0.
Proof. intros. unfold test_of. rewrite tob_finite. pose proof (finite_shape m e H) as [R [N|[S E]]].
  - replace (Z.leb 8388608 (Zpos m)) with true by (symmetry; apply Z.leb_le; lia). rewrite join_abs by lia.
    unfold i32_of_u32. replace (Z.ltb ((e + 150) * 8388608 + (Zpos m - 8388608)) 2147483648) with true by (symmetry; apply Z.ltb_lt; lia).
    destruct (Z.ltb_spec e 0); [apply Z.ltb_lt|apply Z.ltb_ge]; lia.
  - replace (Z.leb 8388608 (Zpos m)) with false by (symmetry; apply Z.leb_gt; lia). rewrite join_abs by lia.
    unfold i32_of_u32. replace (Z.ltb (0 * 8388608 + Zpos m) 2147483648) with true by (symmetry; apply Z.ltb_lt; lia). subst e.
    apply Z.ltb_lt. lia. Qed.

Lemma test_nan : forall s pl H, test_of (B754_nan 24 128 s pl H) = false.
Proof. intros. unfold test_of, tob, bits_of_b32, bits_of_binary_float. pose proof (nan_pl_bound pl H). change (Zpower 2 8 - 1) with 255.
  rewrite join_abs by lia. unfold i32_of_u32. replace (Z.ltb (255 * 8388608 + Zpos pl) 2147483648) with true by (symmetry; apply Z.ltb_lt; lia). apply Z.ltb_ge. lia. Qed.

(* ---- real-number facts *)
Open Scope R_scope.
Notation fexp32 := (FLT_exp (3 - 128 - 24) 24).
Notation B2R32 := (B2R 24 128). Notation fin := (is_finite 24 128).
Lemma int_format : forall z, (Z.abs z < 16777216)%Z -> generic_format radix2 fexp32 (IZR z).
Proof. intros z Hz. apply generic_format_FLT. apply FLT_spec with (f := Float radix2 z 0).
  - unfold F2R. simpl. lra.
  - simpl. exact Hz.
  - simpl. lia. Qed.
Lemma int_lt_emax : forall z, (Z.abs z < 16777216)%Z -> Rabs (IZR z) < bpow radix2 128.
Proof. intros. rewrite <- abs_IZR. apply Rlt_trans with (IZR 16777216). apply IZR_lt. exact H.
  change (IZR 16777216) with (bpow radix2 24). apply bpow_lt. lia. Qed.

Lemma of_i32_correct : forall z, (Z.abs z < 16777216)%Z ->
  B2R32 (of_i32 z) = IZR z /\ fin (of_i32 z) = true.
Proof. intros z Hz. unfold of_i32.
  pose proof (binary_normalize_correct 24 128 (refl_equal _) (refl_equal _) mode_NE z 0 false) as H.
  assert (E : F2R (Float radix2 z 0) = IZR z) by (unfold F2R; simpl; lra). rewrite E in H.
  rewrite round_generic in H; [|apply valid_rnd_round_mode|apply int_format; exact Hz].
  rewrite Rlt_bool_true in H by (apply int_lt_emax; exact Hz). destruct H as (A & B & _). split; assumption. Qed.

Lemma small_abs : forall s m e H, (e < 0)%Z -> Rabs (B2R32 (B754_finite 24 128 s m e H)) < 8388608.
Proof. intros s m e H He. pose proof (finite_shape m e H) as [R Sh]. simpl. unfold F2R. simpl Fnum. simpl Fexp.
  rewrite Rabs_mult. rewrite (Rabs_pos_eq (bpow radix2 e)) by apply bpow_ge_0. rewrite <- abs_IZR. rewrite abs_cond_Zopp. simpl Z.abs.
  assert (Hm : IZR (Zpos m) < 16777216) by (apply IZR_lt; lia).
  assert (Hb : bpow radix2 e <= / 2) by (change (/2) with (bpow radix2 (-1)); apply bpow_le; lia).
  pose proof (bpow_gt_0 radix2 e). assert (0 < IZR (Zpos m)) by (apply IZR_lt; lia). nra. Qed.

Lemma Ztrunc_abs_le : forall r, Rabs (IZR (Ztrunc r)) <= Rabs r.
Proof. intros r. unfold Ztrunc. destruct (Rlt_bool_spec r 0).
  - pose proof (Zceil_ub r). assert (IZR (Zceil r) <= 0). { replace 0 with (IZR 0) by reflexivity. apply IZR_le. apply Zceil_glb. simpl. lra. }
    rewrite !Rabs_left1 by lra. lra.
  - pose proof (Zfloor_lb r). assert (0 <= IZR (Zfloor r)). { replace 0 with (IZR 0) by reflexivity. apply IZR_le. apply Zfloor_lub. simpl. lra. }
    rewrite !Rabs_pos_eq by lra. lra. Qed.

Lemma cvtt_small : forall v, fin v = true -> Rabs (B2R32 v) < 8388608 ->
  cvtt v = Ztrunc (B2R32 v) /\ (Z.abs (cvtt v) < 8388608)%Z.
Proof. intros v Hf Hr. unfold cvtt. rewrite Hf. pose proof (Btrunc_correct 24 128 (refl_equal _) v) as T. rewrite round_FIX_IZR in T. apply eq_IZR in T. rewrite T.
  assert (B : (Z.abs (Ztrunc (B2R32 v)) < 8388608)%Z). { apply lt_IZR. rewrite abs_IZR. eapply Rle_lt_trans. apply Ztrunc_abs_le. exact Hr. }
  replace ((-2147483648 <=? Ztrunc (B2R32 v))%Z && (Ztrunc (B2R32 v) <? 2147483648)%Z)%bool with true. split; [reflexivity|exact B].
  symmetry. apply andb_true_iff. split; [apply Z.leb_le|apply Z.ltb_lt]; lia. Qed.

Lemma gt_correct : forall a b, fin a = true -> fin b = true -> gt a b = Rlt_bool (B2R32 b) (B2R32 a).
Proof. intros a b Ha Hb. unfold gt, b32_compare. rewrite Bcompare_correct by assumption.
  destruct (Rcompare_spec (B2R32 a) (B2R32 b)); destruct (Rlt_bool_spec (B2R32 b) (B2R32 a)); try reflexivity; lra. Qed.

Lemma floor_via_trunc : forall r, Zfloor r = if Rlt_bool r (IZR (Ztrunc r)) then (Ztrunc r - 1)%Z else Ztrunc r.
Proof. intros r. unfold Ztrunc. destruct (Rlt_bool_spec r 0) as [Hn|Hp].
  - destruct (Rlt_bool_spec r (IZR (Zceil r))) as [L|G].
    + assert (Zceil r = (Zfloor r + 1)%Z). { apply Zceil_floor_neq. intro E. assert (C : Zceil r = Zfloor r). { rewrite <- E. rewrite Zceil_IZR, Zfloor_IZR. reflexivity. } rewrite C, E in L. lra. } lia.
    + pose proof (Zceil_ub r). assert (E : IZR (Zceil r) = r) by lra. rewrite <- E. rewrite Zceil_IZR. apply Zfloor_IZR.
  - pose proof (Zfloor_lb r). rewrite Rlt_bool_false by lra. reflexivity. Qed.

Lemma plus_exact : forall a b za zb, fin a = true -> fin b = true -> B2R32 a = IZR za -> B2R32 b = IZR zb -> (Z.abs (za + zb) < 16777216)%Z ->
  B2R32 (b32_plus mode_NE a b) = IZR (za + zb) /\ fin (b32_plus mode_NE a b) = true.
Proof. intros a b za zb Ha Hb Ea Eb Hs. unfold b32_plus.
  pose proof (Bplus_correct 24 128 (refl_equal _) (refl_equal _) binop_nan_pl32 mode_NE a b Ha Hb) as P.
  rewrite Ea, Eb, <- plus_IZR in P. rewrite round_generic in P; [|apply valid_rnd_round_mode|apply int_format; exact Hs].
  rewrite Rlt_bool_true in P by (apply int_lt_emax; exact Hs). destruct P as (A & B & _). split; assumption. Qed.

Lemma feq_of_R : forall a b, fin a = true -> fin b = true -> B2R32 a = B2R32 b -> feq a b.
Proof. intros a b Ha Hb E. right. assert (Na : isnan a = false) by (destruct a; simpl in *; congruence). assert (Nb : isnan b = false) by (destruct b; simpl in *; congruence).
  repeat split; try assumption. unfold b32_compare. rewrite Bcompare_correct by assumption. rewrite E. rewrite Rcompare_Eq; reflexivity. Qed.

Lemma spec_floor_R : forall v, B2R32 (spec_floor v) = IZR (Zfloor (B2R32 v)) /\ fin (spec_floor v) = fin v.
Proof. intros v. unfold spec_floor. match goal with |- context[Bnearbyint 24 128 ?h ?n mode_DN v] => pose proof (Bnearbyint_correct 24 128 h n mode_DN v) as (A & B & _) end.
  rewrite round_FIX_IZR in A. simpl round_mode in A. split; assumption. Qed.

Lemma masked_true : forall x y : b32, ofb (Z.lor (Z.land (tob x) 4294967295) (Z.land (Z.lxor 4294967295 4294967295) (tob y))) = x.
Proof. intros. change (Z.lxor 4294967295 4294967295) with 0%Z. rewrite Z.land_0_l, Z.lor_0_r. rewrite land_ones32 by apply tob_range. apply ofb_tob. Qed.

Theorem floor_trick_correct : forall v, feq (floor_trick v) (spec_floor v).
Proof.
  intros v. destruct v as [s|s|s pl Hpl|s m e Hb].
  - destruct s; right; vm_compute; auto.
  - destruct s; right; vm_compute; auto.
  - rewrite trick_passthrough by apply test_nan. left. split. reflexivity. reflexivity.
  - destruct (Z.ltb_spec e 0) as [Hneg|Hpos].
    + (* |v| < 2^23: the integer round trip *)
      set (v := B754_finite 24 128 s m e Hb). assert (Hf : fin v = true) by reflexivity.
      pose proof (small_abs s m e Hb Hneg) as Hsmall. fold v in Hsmall.
      destruct (cvtt_small v Hf Hsmall) as [Ct Cb].
      destruct (of_i32_correct (cvtt v)) as [Rr Fr]; [lia|].
      assert (Tst : test_of v = true) by (unfold v; rewrite test_finite; apply Z.ltb_lt; exact Hneg).
      unfold floor_trick. fold (test_of v). rewrite Tst. cbn [mask].
      rewrite (gt_correct _ _ Fr Hf). rewrite Rr.
      set (c := cvtt v) in *.
      assert (Hl : forall bb : bool, exists zl : Z, (zl = if bb then (-1)%Z else 0%Z) /\ B2R32 (of_i32 (i32_of_u32 (mask bb))) = IZR zl /\ fin (of_i32 (i32_of_u32 (mask bb))) = true).
      { intros [|]; [exists (-1)%Z|exists 0%Z]; (split; [reflexivity|]); change (i32_of_u32 (mask true)) with (-1)%Z; change (i32_of_u32 (mask false)) with 0%Z; apply of_i32_correct; simpl; lia. }
      destruct (Hl (Rlt_bool (B2R32 v) (IZR c))) as (zl & Ezl & Rl & Fl).
      destruct (plus_exact _ _ c zl Fr Fl Rr Rl) as [Rs Fs]. { destruct (Rlt_bool (B2R32 v) (IZR c)); subst zl; lia. }
      rewrite masked_true. apply feq_of_R; [exact Fs| |].
      * destruct (spec_floor_R v) as [_ F]. rewrite F. exact Hf.
      * destruct (spec_floor_R v) as [S _]. rewrite S, Rs. f_equal. rewrite floor_via_trunc. rewrite <- Ct. destruct (Rlt_bool (B2R32 v) (IZR c)); subst zl; lia.
    + (* |v| >= 2^23: already an integer *)
      rewrite trick_passthrough by (fold (test_of (B754_finite 24 128 s m e Hb)); rewrite test_finite; apply Z.ltb_ge; exact Hpos).
      set (v := B754_finite 24 128 s m e Hb). destruct (spec_floor_R v) as [S F]. apply feq_of_R; [reflexivity|rewrite F; reflexivity|].
      rewrite S. unfold v. simpl B2R. assert (E : F2R (Float radix2 (cond_Zopp s (Zpos m)) e) = IZR (cond_Zopp s (Zpos m) * 2 ^ e)).
      { unfold F2R. simpl Fnum. simpl Fexp. rewrite mult_IZR. f_equal. rewrite <- (IZR_Zpower radix2 e Hpos). reflexivity. }
      rewrite E. rewrite Zfloor_IZR. reflexivity.
Qed.
Print Assumptions floor_trick_correct.
