(* C01, F3 part: the lane functions of the multi-instruction SSE2 operations, written once in terms of the abstract
   primitives of [Ops] (the generated C01 lemmas prove, for all Ops, that the translated code applies exactly these functions
   to every lane), and their agreement with the Rust primitive in the IEEE instance. *)
From Glam Require Import Base Sem FloorTrick RoundTricks.
From Coq Require Import ZArith Bool Lia Reals ZifyBool.
From Flocq Require Import Core BinarySingleNaN Binary Bits.
Open Scope Z_scope.
Ltac Zify.zify_post_hook ::= Z.div_mod_to_equations.

Section Lane.
Variable O : Ops.
Definition maskf (b : bool) : F32 O := f32_of_bits O (if b then 4294967295 else 0).
Definition bits_i32 (x : F32 O) : Z := i_cast O U32 I32 (f32_to_bits O x).
(* src/sse2.rs m128_floor, one lane *)
Definition floor_lane (v : F32 O) : F32 O :=
  let test0 := f32_2 O FAnd v (f32_of_bits O 2147483647) in
  let test := maskf (i_cmp O ILt (bits_i32 test0) (bits_i32 (f32_of_bits O 1258291200))) in
  let vint := f32_of_bits O (i_cast O I32 U32 (f32_cvtt_i32 O v)) in
  let result := f32_of_i32 O (bits_i32 vint) in
  let larger := maskf (f32_cmp O FGt result v) in
  let larger_f := f32_of_i32 O (bits_i32 larger) in
  let result2 := f32_2 O FAdd result larger_f in
  let r := f32_2 O FAnd result2 test in
  let t2 := f32_2 O FAndNot test v in
  f32_2 O FOr r t2.
End Lane.

(* ---- IEEE instance *)
Definition OI := IEEEr.
Lemma tob_ofb32 z : 0 <= z < 4294967296 -> bits_of_b32 (ofb32 z) = z.
Proof. intros H. unfold ofb32. rewrite Z.mod_small by exact H. unfold bits_of_b32, b32_of_bits.
  apply (bits_of_binary_float_of_bits 23 8 (refl_equal _) (refl_equal _) (refl_equal _) z). change (2 ^ (23 + 8 + 1)) with 4294967296. exact H. Qed.
Lemma ofb32_ofb z : 0 <= z < 4294967296 -> ofb32 z = ofb z.
Proof. intros H. unfold ofb32, ofb. rewrite Z.mod_small by exact H. reflexivity. Qed.
Lemma wrap_i32 z : 0 <= z < 4294967296 -> wrap I32 z = i32_of_u32 z.
Proof. intros H. unfold wrap, i32_of_u32. cbn [bits signed andb]. change (2 ^ 32) with 4294967296. change (2 ^ (32 - 1)) with 2147483648.
  rewrite Z.mod_small by exact H. destruct (Z.leb_spec 2147483648 z), (Z.ltb_spec z 2147483648); lia. Qed.
Lemma wrap_u32_of_i32 z : -2147483648 <= z < 2147483648 -> i32_of_u32 (wrap U32 z) = z.
Proof. intros H. unfold wrap, i32_of_u32. cbn [bits signed andb]. change (2 ^ 32) with 4294967296.
  destruct (Z.ltb_spec (z mod 4294967296) 2147483648); lia. Qed.
Lemma wrap_u32_range z : 0 <= wrap U32 z < 4294967296.
Proof. unfold wrap. cbn [bits signed andb]. change (2 ^ 32) with 4294967296. apply Z.mod_pos_bound. lia. Qed.
Lemma cvtt32_cvtt v : cvtt32 v = cvtt v.
Proof. unfold cvtt32, cvtt. destruct v; reflexivity. Qed.
Lemma cvtt_range v : -2147483648 <= cvtt v < 2147483648.
Proof. unfold cvtt. destruct (is_finite 24 128 v); [|lia].
  destruct ((-2147483648 <=? Btrunc 24 128 v) && (Btrunc 24 128 v <? 2147483648))%bool eqn:E; [|lia].
  apply andb_true_iff in E. destruct E as [A B]. apply Z.leb_le in A. apply Z.ltb_lt in B. lia. Qed.
Lemma tob_range' x : 0 <= bits_of_b32 x < 4294967296. Proof. exact (tob_range x). Qed.
Lemma land_range a b : 0 <= a -> 0 <= b < 4294967296 -> 0 <= Z.land a b < 4294967296.
Proof. intros Ha Hb. assert (N : 0 <= Z.land a b) by (apply Z.land_nonneg; left; exact Ha). split; [exact N|].
  destruct (Z.eq_dec (Z.land a b) 0) as [E|E]; [rewrite E; lia|].
  assert (Hb0 : 0 < b). { destruct (Z.eq_dec b 0) as [->|]; [rewrite Z.land_0_r in E; congruence|lia]. }
  change 4294967296 with (2 ^ 32). apply Z.log2_lt_pow2; [lia|].
  pose proof (Z.log2_land a b Ha (proj1 Hb)) as L. assert (Z.log2 b < 32) by (apply Z.log2_lt_pow2; [exact Hb0|exact (proj2 Hb)]). lia. Qed.
Lemma mask_range b : 0 <= mask b < 4294967296. Proof. destruct b; cbn; lia. Qed.

Lemma gt_cmp a b : cmp_of (b32_compare a b) FGt = gt a b.
Proof. unfold gt. destruct (b32_compare a b) as [[| |]|]; reflexivity. Qed.

(* the lane function of the model, in the IEEE instance, is the function analysed in FloorTrick.v *)
Theorem floor_lane_trick : forall v : binary32, floor_lane OI v = floor_trick v.
Proof.
  intros v. unfold floor_lane, floor_trick, maskf, bits_i32, OI, IEEEr, IEEE.
  cbn [f32_2 f32_of_bits f32_to_bits f32_cmp f32_cvtt_i32 f32_of_i32 i_cast i_cmp f32_2s zi_cmp].
  (* test *)
  assert (T0 : bits_of_b32 (ofb32 (Z.land (bits_of_b32 v) (bits_of_b32 (ofb32 2147483647)))) = Z.land (tob v) 2147483647).
  { rewrite (tob_ofb32 2147483647) by lia. apply tob_ofb32. pose proof (tob_range' v). unfold tob. apply land_range; lia. }
  rewrite T0. rewrite (tob_ofb32 1258291200) by lia.
  rewrite (wrap_i32 (Z.land (tob v) 2147483647)) by (pose proof (tob_range' v); unfold tob; apply land_range; lia).
  rewrite (wrap_i32 1258291200) by lia. change (i32_of_u32 1258291200) with 1258291200.
  set (tst := Z.ltb (i32_of_u32 (Z.land (tob v) 2147483647)) 1258291200).
  (* truncation round trip *)
  rewrite cvtt32_cvtt. rewrite (tob_ofb32 (wrap U32 (cvtt v))) by apply wrap_u32_range.
  rewrite (wrap_i32 (wrap U32 (cvtt v))) by apply wrap_u32_range. rewrite wrap_u32_of_i32 by apply cvtt_range.
  change (norm32 (cvtt v) 0 false) with (of_i32 (cvtt v)). set (res := of_i32 (cvtt v)).
  rewrite gt_cmp. set (lg := gt res v).
  replace (bits_of_b32 (ofb32 (if lg then 4294967295 else 0))) with (mask lg) by (destruct lg; cbn [mask]; symmetry; apply tob_ofb32; lia).
  rewrite (wrap_i32 (mask lg)) by apply mask_range.
  change (norm32 (i32_of_u32 (mask lg)) 0 false) with (of_i32 (i32_of_u32 (mask lg))).
  set (res2 := b32_plus mode_NE res (of_i32 (i32_of_u32 (mask lg)))).
  replace (bits_of_b32 (ofb32 (if tst then 4294967295 else 0))) with (mask tst) by (destruct tst; cbn [mask]; symmetry; apply tob_ofb32; lia).
  rewrite (tob_ofb32 (Z.land (bits_of_b32 res2) (mask tst))) by (pose proof (tob_range' res2); pose proof (mask_range tst); apply land_range; lia).
  assert (R2 : 0 <= Z.land (Z.lxor (mask tst) 4294967295) (bits_of_b32 v) < 4294967296).
  { pose proof (tob_range' v). rewrite Z.land_comm. apply land_range; [lia|]. destruct tst; cbn; lia. }
  rewrite (tob_ofb32 _ R2).
  apply ofb32_ofb.
  pose proof (tob_range' res2) as Hr2. pose proof (tob_range' v) as Hv. unfold tob.
  destruct tst; cbn [mask].
  - change (Z.lxor 4294967295 4294967295) with 0. rewrite Z.land_0_l, Z.lor_0_r. apply land_range; lia.
  - rewrite Z.land_0_r, Z.lor_0_l. change (Z.lxor 0 4294967295) with 4294967295. rewrite Z.land_comm. apply land_range; lia.
Qed.

(* the Rust primitive floor of the IEEE instance and the reference of FloorTrick.v agree as IEEE values
   (they differ only in the payload chosen for a NaN result) *)
Lemma rint_DN_spec v : feq (f32_1 OI FFloor v) (spec_floor v).
Proof.
  unfold OI, IEEEr, IEEE. cbn [f32_1 f32_1s]. unfold rint32, spec_floor.
  destruct v as [s|s|s pl H|s m e H].
  - right. unfold isnan, b32_compare. destruct s; repeat split; reflexivity.
  - right. unfold isnan, b32_compare. destruct s; repeat split; reflexivity.
  - left. unfold isnan. split; reflexivity.
  - set (x := B754_finite 24 128 s m e H).
    destruct (Bnearbyint_correct 24 128 (refl_equal _) unop_nan_pl32 mode_DN x) as (R1 & F1 & _).
    destruct (Bnearbyint_correct 24 128 (refl_equal _) (fun _ => exist _ (B754_nan 24 128 false 1 (refl_equal _)) (refl_equal _)) mode_DN x) as (R2 & F2 & _).
    apply feq_of_R; [rewrite F1; reflexivity|rewrite F2; reflexivity|rewrite R1, R2; reflexivity].
Qed.

(* headline: on every binary32 bit pattern the SSE2 floor lane function has the IEEE value of round-toward-negative-infinity,
   which is also the IEEE value of the primitive f32::floor of the IEEE instance *)
Theorem floor_lane_correct : forall v : binary32, feq (floor_lane OI v) (spec_floor v) /\ feq (f32_1 OI FFloor v) (spec_floor v).
Proof. intros v. split; [rewrite floor_lane_trick; apply floor_trick_correct | apply rint_DN_spec]. Qed.

(* the one integer fact the generated SSE2 lemmas assume about [Ops] (the literal !0x8000_0000u32) holds in the instance *)
Lemma not_sign_std : i_1 OI U32 INot 2147483648 = Some 2147483647.
Proof. vm_compute. reflexivity. Qed.

(* ---- truncation and ceiling (src/sse2.rs m128_trunc, m128_ceil) *)
Section Lane2.
Variable O : Ops.
Definition trunc_lane (v : F32 O) : F32 O :=
  let test0 := f32_2 O FAnd v (f32_of_bits O 2147483647) in
  let test := maskf O (i_cmp O ILt (bits_i32 O test0) (bits_i32 O (f32_of_bits O 1258291200))) in
  let vint := f32_of_bits O (i_cast O I32 U32 (f32_cvtt_i32 O v)) in
  let result := f32_of_i32 O (bits_i32 O vint) in
  let r := f32_2 O FAnd result test in
  let t2 := f32_2 O FAndNot test v in
  f32_2 O FOr r t2.
Definition ceil_lane (v : F32 O) : F32 O :=
  let test0 := f32_2 O FAnd v (f32_of_bits O 2147483647) in
  let test := maskf O (i_cmp O ILt (bits_i32 O test0) (bits_i32 O (f32_of_bits O 1258291200))) in
  let vint := f32_of_bits O (i_cast O I32 U32 (f32_cvtt_i32 O v)) in
  let result := f32_of_i32 O (bits_i32 O vint) in
  let smaller := maskf O (f32_cmp O FLt result v) in
  let smaller_f := f32_of_i32 O (bits_i32 O smaller) in
  let result2 := f32_2 O FSub result smaller_f in
  let r := f32_2 O FAnd result2 test in
  let t2 := f32_2 O FAndNot test v in
  f32_2 O FOr r t2.
End Lane2.

Lemma lt_cmp a b : cmp_of (b32_compare a b) FLt = lt a b.
Proof. unfold lt. destruct (b32_compare a b) as [[| |]|]; reflexivity. Qed.

Theorem trunc_lane_trick : forall v : binary32, trunc_lane OI v = trunc_trick v.
Proof.
  intros v. unfold trunc_lane, trunc_trick, maskf, bits_i32, OI, IEEEr, IEEE.
  cbn [f32_2 f32_of_bits f32_to_bits f32_cmp f32_cvtt_i32 f32_of_i32 i_cast i_cmp f32_2s zi_cmp].
  assert (T0 : bits_of_b32 (ofb32 (Z.land (bits_of_b32 v) (bits_of_b32 (ofb32 2147483647)))) = Z.land (tob v) 2147483647).
  { rewrite (tob_ofb32 2147483647) by lia. apply tob_ofb32. pose proof (tob_range' v). unfold tob. apply land_range; lia. }
  rewrite T0. rewrite (tob_ofb32 1258291200) by lia.
  rewrite (wrap_i32 (Z.land (tob v) 2147483647)) by (pose proof (tob_range' v); unfold tob; apply land_range; lia).
  rewrite (wrap_i32 1258291200) by lia. change (i32_of_u32 1258291200) with 1258291200.
  set (tst := Z.ltb (i32_of_u32 (Z.land (tob v) 2147483647)) 1258291200).
  rewrite cvtt32_cvtt. rewrite (tob_ofb32 (wrap U32 (cvtt v))) by apply wrap_u32_range.
  rewrite (wrap_i32 (wrap U32 (cvtt v))) by apply wrap_u32_range. rewrite wrap_u32_of_i32 by apply cvtt_range.
  change (norm32 (cvtt v) 0 false) with (of_i32 (cvtt v)). set (res := of_i32 (cvtt v)).
  replace (bits_of_b32 (ofb32 (if tst then 4294967295 else 0))) with (mask tst) by (destruct tst; cbn [mask]; symmetry; apply tob_ofb32; lia).
  rewrite (tob_ofb32 (Z.land (bits_of_b32 res) (mask tst))) by (pose proof (tob_range' res); pose proof (mask_range tst); apply land_range; lia).
  assert (R2 : 0 <= Z.land (Z.lxor (mask tst) 4294967295) (bits_of_b32 v) < 4294967296).
  { pose proof (tob_range' v). rewrite Z.land_comm. apply land_range; [lia|]. destruct tst; cbn; lia. }
  rewrite (tob_ofb32 _ R2).
  apply ofb32_ofb.
  pose proof (tob_range' res) as Hr2. pose proof (tob_range' v) as Hv. unfold tob.
  destruct tst; cbn [mask].
  - change (Z.lxor 4294967295 4294967295) with 0. rewrite Z.land_0_l, Z.lor_0_r. apply land_range; lia.
  - rewrite Z.land_0_r, Z.lor_0_l. change (Z.lxor 0 4294967295) with 4294967295. rewrite Z.land_comm. apply land_range; lia.
Qed.

Theorem ceil_lane_trick : forall v : binary32, ceil_lane OI v = ceil_trick v.
Proof.
  intros v. unfold ceil_lane, ceil_trick, maskf, bits_i32, OI, IEEEr, IEEE.
  cbn [f32_2 f32_of_bits f32_to_bits f32_cmp f32_cvtt_i32 f32_of_i32 i_cast i_cmp f32_2s zi_cmp].
  assert (T0 : bits_of_b32 (ofb32 (Z.land (bits_of_b32 v) (bits_of_b32 (ofb32 2147483647)))) = Z.land (tob v) 2147483647).
  { rewrite (tob_ofb32 2147483647) by lia. apply tob_ofb32. pose proof (tob_range' v). unfold tob. apply land_range; lia. }
  rewrite T0. rewrite (tob_ofb32 1258291200) by lia.
  rewrite (wrap_i32 (Z.land (tob v) 2147483647)) by (pose proof (tob_range' v); unfold tob; apply land_range; lia).
  rewrite (wrap_i32 1258291200) by lia. change (i32_of_u32 1258291200) with 1258291200.
  set (tst := Z.ltb (i32_of_u32 (Z.land (tob v) 2147483647)) 1258291200).
  rewrite cvtt32_cvtt. rewrite (tob_ofb32 (wrap U32 (cvtt v))) by apply wrap_u32_range.
  rewrite (wrap_i32 (wrap U32 (cvtt v))) by apply wrap_u32_range. rewrite wrap_u32_of_i32 by apply cvtt_range.
  change (norm32 (cvtt v) 0 false) with (of_i32 (cvtt v)). set (res := of_i32 (cvtt v)).
  rewrite lt_cmp. set (lg := lt res v).
  replace (bits_of_b32 (ofb32 (if lg then 4294967295 else 0))) with (mask lg) by (destruct lg; cbn [mask]; symmetry; apply tob_ofb32; lia).
  rewrite (wrap_i32 (mask lg)) by apply mask_range.
  change (norm32 (i32_of_u32 (mask lg)) 0 false) with (of_i32 (i32_of_u32 (mask lg))).
  set (res2 := b32_minus mode_NE res (of_i32 (i32_of_u32 (mask lg)))).
  replace (bits_of_b32 (ofb32 (if tst then 4294967295 else 0))) with (mask tst) by (destruct tst; cbn [mask]; symmetry; apply tob_ofb32; lia).
  rewrite (tob_ofb32 (Z.land (bits_of_b32 res2) (mask tst))) by (pose proof (tob_range' res2); pose proof (mask_range tst); apply land_range; lia).
  assert (R2 : 0 <= Z.land (Z.lxor (mask tst) 4294967295) (bits_of_b32 v) < 4294967296).
  { pose proof (tob_range' v). rewrite Z.land_comm. apply land_range; [lia|]. destruct tst; cbn; lia. }
  rewrite (tob_ofb32 _ R2).
  apply ofb32_ofb.
  pose proof (tob_range' res2) as Hr2. pose proof (tob_range' v) as Hv. unfold tob.
  destruct tst; cbn [mask].
  - change (Z.lxor 4294967295 4294967295) with 0. rewrite Z.land_0_l, Z.lor_0_r. apply land_range; lia.
  - rewrite Z.land_0_r, Z.lor_0_l. change (Z.lxor 0 4294967295) with 4294967295. rewrite Z.land_comm. apply land_range; lia.
Qed.

Lemma rint_spec (md : mode) (fop : fop1) (spec : binary32 -> binary32) :
  (forall v, f32_1 OI fop v = rint32 md v) -> (forall v, spec v = Bnearbyint 24 128 (refl_equal _) (fun _ => nan1) md v) ->
  forall v, feq (f32_1 OI fop v) (spec v).
Proof.
  intros H1 H2 v. rewrite H1, H2. unfold rint32.
  destruct v as [s|s|s pl H|s m e H].
  - right. unfold isnan, b32_compare. destruct s, md; repeat split; reflexivity.
  - right. unfold isnan, b32_compare. destruct s, md; repeat split; reflexivity.
  - left. unfold isnan. split; reflexivity.
  - set (x := B754_finite 24 128 s m e H).
    destruct (Bnearbyint_correct 24 128 (refl_equal _) unop_nan_pl32 md x) as (R1 & F1 & _).
    destruct (Bnearbyint_correct 24 128 (refl_equal _) (fun _ => nan1) md x) as (R2 & F2 & _).
    apply feq_of_R; [rewrite F1; reflexivity|rewrite F2; reflexivity|rewrite R1, R2; reflexivity].
Qed.

Theorem trunc_lane_correct : forall v : binary32, feq (trunc_lane OI v) (spec_trunc v) /\ feq (f32_1 OI FTrunc v) (spec_trunc v).
Proof. intros v. split; [rewrite trunc_lane_trick; apply trunc_trick_correct | apply (rint_spec mode_ZR FTrunc spec_trunc); reflexivity]. Qed.
Theorem ceil_lane_correct : forall v : binary32, feq (ceil_lane OI v) (spec_ceil v) /\ feq (f32_1 OI FCeil v) (spec_ceil v).
Proof. intros v. split; [rewrite ceil_lane_trick; apply ceil_trick_correct | apply (rint_spec mode_UP FCeil spec_ceil); reflexivity]. Qed.

(* ---- round half away from zero (src/sse2.rs m128_round after the repair) *)
Section Lane3.
Variable O : Ops.
Definition round_lane (v : F32 O) : F32 O :=
  let r := trunc_lane O v in
  let d := f32_2 O FSub v r in
  let frac := f32_2 O FAnd d (f32_of_bits O 2147483647) in
  let away := maskf O (f32_cmp O FGe frac (f32_of_bits O 1056964608)) in
  let one := f32_2 O FOr (f32_2 O FAnd v (f32_of_bits O 2147483648)) (f32_of_bits O 1065353216) in
  f32_2 O FAdd r (f32_2 O FAnd away one).
End Lane3.

Lemma ge_cmp a b : cmp_of (b32_compare a b) FGe = ge a b.
Proof. unfold ge. destruct (b32_compare a b) as [[| |]|]; reflexivity. Qed.
Lemma log2_lt32 a : 0 <= a < 4294967296 -> Z.log2 a < 32.
Proof. intros H. destruct (Z.eq_dec a 0) as [->|N]; [reflexivity|]. apply Z.log2_lt_pow2; [lia|]. change (2 ^ 32) with 4294967296. lia. Qed.
Lemma lor_range a b : 0 <= a < 4294967296 -> 0 <= b < 4294967296 -> 0 <= Z.lor a b < 4294967296.
Proof. intros Ha Hb. assert (N : 0 <= Z.lor a b) by (apply Z.lor_nonneg; lia). split; [exact N|].
  destruct (Z.eq_dec (Z.lor a b) 0) as [E|E]; [rewrite E; lia|]. change 4294967296 with (2 ^ 32). apply Z.log2_lt_pow2; [lia|].
  rewrite Z.log2_lor by lia. apply Z.max_lub_lt; apply log2_lt32; assumption. Qed.

Theorem round_lane_trick : forall v : binary32, round_lane OI v = round_trick v.
Proof.
  intros v. unfold round_lane, round_trick. rewrite trunc_lane_trick. set (r := trunc_trick v).
  unfold maskf, OI, IEEEr, IEEE. cbn [f32_2 f32_of_bits f32_to_bits f32_cmp f32_2s].
  rewrite (tob_ofb32 2147483647) by lia. rewrite (tob_ofb32 2147483648) by lia. rewrite (tob_ofb32 1065353216) by lia.
  set (d := b32_minus mode_NE v r).
  assert (Ea : ofb32 (Z.land (bits_of_b32 d) 2147483647) = ofb (Z.land (tob d) 2147483647)). { apply ofb32_ofb. pose proof (tob_range' d). unfold tob. apply land_range; lia. }
  rewrite Ea. rewrite (ofb32_ofb 1056964608) by lia. rewrite ge_cmp.
  set (m := ge (ofb (Z.land (tob d) 2147483647)) (ofb 1056964608)).
  replace (bits_of_b32 (ofb32 (if m then 4294967295 else 0))) with (mask m) by (destruct m; cbn [mask]; symmetry; apply tob_ofb32; lia).
  assert (Rs : 0 <= Z.land (bits_of_b32 v) 2147483648 < 4294967296) by (pose proof (tob_range' v); apply land_range; lia).
  rewrite (tob_ofb32 _ Rs).
  assert (Ro : 0 <= Z.lor (Z.land (bits_of_b32 v) 2147483648) 1065353216 < 4294967296) by (apply lor_range; lia).
  rewrite (tob_ofb32 _ Ro). rewrite (Z.lor_comm (Z.land (bits_of_b32 v) 2147483648)).
  f_equal. set (X := Z.lor 1065353216 (Z.land (bits_of_b32 v) 2147483648)).
  assert (RX : 0 <= X < 4294967296) by (unfold X; rewrite Z.lor_comm; exact Ro).
  assert (TX : bits_of_b32 (ofb X) = X) by (rewrite <- (ofb32_ofb X RX); apply tob_ofb32; exact RX).
  unfold tob. fold X. rewrite TX. apply ofb32_ofb. pose proof (mask_range m). apply land_range; lia.
Qed.

Theorem round_lane_correct : forall v : binary32, feq (round_lane OI v) (spec_round v) /\ feq (f32_1 OI FRound v) (spec_round v).
Proof. intros v. split; [rewrite round_lane_trick; apply round_trick_correct | apply (rint_spec mode_NA FRound spec_round); reflexivity]. Qed.

(* ---- known deviation (recorded in known_findings.json, C01): the SSE2 `%` of Vec3A / Vec4 is a - floor(a / b) * b per lane, which is not the
   Rust primitive (the truncated IEEE remainder fmod).  Witness: -1 % 3 is 2 instead of -1. *)
Definition rem_floored (a b : binary32) : binary32 := f32_2 OI FSub a (f32_2 OI FMul (floor_lane OI (f32_2 OI FDiv a b)) b).
Lemma rem_floored_refuted : exists a b : binary32, ~ feq (rem_floored a b) (f32_2 OI FRem a b).
Proof.
  exists (ofb 3212836864), (ofb 1077936128).      (* -1.0, 3.0: the floored form gives 2.0, fmod gives -1.0 *)
  intros [[H _]|[_ [_ H]]]; vm_compute in H; discriminate H.
Qed.
Eval vm_compute in (tob (rem_floored (ofb 3212836864) (ofb 1077936128)), tob (f32_2 OI FRem (ofb 3212836864) (ofb 1077936128))).

(* ---- sign-bit tricks of the SSE2 backend (m128_abs, negation by xor, the is_finite test |x| < inf) *)
Section Lane4.
Variable O : Ops.
Definition abs_lane (v : F32 O) : F32 O := f32_2 O FAnd v (f32_of_bits O (i_cast O I32 U32 2147483647)).      (* _mm_castsi128_ps(_mm_set1_epi32(0x7fffffff)) *)
Definition neg_lane (v : F32 O) : F32 O := f32_2 O FXor (f32_of_bits O 2147483648) v.
Definition finite_lane (v : F32 O) : bool := f32_cmp O FLt (abs_lane v) (f32_of_bits O 2139095040).
End Lane4.
Lemma abs_lane_correct : forall v : binary32, abs_lane OI v = f32_1 OI FAbs v.
Proof. intros v. unfold abs_lane, OI, IEEEr, IEEE. cbn [f32_2 f32_1 f32_of_bits f32_2s f32_1s i_cast]. change (wrap U32 2147483647) with 2147483647. rewrite (tob_ofb32 2147483647) by lia. reflexivity. Qed.
Lemma neg_lane_correct : forall v : binary32, neg_lane OI v = f32_1 OI FNeg v.
Proof. intros v. unfold neg_lane, OI, IEEEr, IEEE. cbn [f32_2 f32_1 f32_of_bits f32_2s f32_1s]. rewrite (tob_ofb32 2147483648) by lia. rewrite Z.lxor_comm. reflexivity. Qed.
Lemma finite_lane_correct : forall v : binary32, finite_lane OI v = f32_pred OI FIsFinite v.
Proof.
  intros v. unfold finite_lane. rewrite abs_lane_correct. unfold OI, IEEEr, IEEE. cbn [f32_1 f32_cmp f32_pred f32_of_bits f32_1s].
  assert (Einf : ofb32 2139095040 = B754_infinity 24 128 false) by (vm_compute; reflexivity).
  rewrite Einf.
  destruct v as [s|s|s pl H|s m e H].
  - destruct s; vm_compute; reflexivity.
  - destruct s; vm_compute; reflexivity.
  - (* NaN: the masked value is still a NaN, every comparison with it is false *)
    assert (N : is_nan 24 128 (ofb32 (Z.land (bits_of_b32 (B754_nan 24 128 s pl H)) 2147483647)) = true).
    { unfold bits_of_b32, bits_of_binary_float. pose proof (nan_pl_bound pl H). change (Zpower 2 8 - 1) with 255. rewrite join_abs by lia.
      rewrite ofb32_ofb by lia. replace (255 * 8388608 + Z.pos pl) with (tob (B754_nan 24 128 false pl H)).
      - rewrite ofb_tob. reflexivity.
      - unfold tob, bits_of_b32, bits_of_binary_float. change (Zpower 2 8 - 1) with 255. unfold join_bits. rewrite Z.shiftl_mul_pow2 by lia. change (2^23) with 8388608. lia. }
    destruct (ofb32 (Z.land (bits_of_b32 (B754_nan 24 128 s pl H)) 2147483647)) as [| | |]; try discriminate N. reflexivity.
  - destruct (abs_bits (B754_finite 24 128 s m e H) eq_refl) as [_ F].
    assert (E : ofb32 (Z.land (bits_of_b32 (B754_finite 24 128 s m e H)) 2147483647) = ofb (Z.land (tob (B754_finite 24 128 s m e H)) 2147483647)).
    { apply ofb32_ofb. pose proof (tob_range' (B754_finite 24 128 s m e H)). unfold tob. apply land_range; lia. }
    rewrite E. destruct (ofb (Z.land (tob (B754_finite 24 128 s m e H)) 2147483647)) as [| | |]; try discriminate F; reflexivity.
Qed.

Section Lane5.
Variable O : Ops.
(* Vec4/Vec3A::copysign: (rhs & -0.0) | (!-0.0 & self) *)
Definition copysign_lane (a b : F32 O) : F32 O :=
  f32_2 O FOr (f32_2 O FAnd b (f32_of_bits O 2147483648)) (f32_2 O FAndNot (f32_of_bits O 2147483648) a).
End Lane5.
Lemma copysign_lane_correct : forall a b : binary32, copysign_lane OI a b = f32_2 OI FCopysign a b.
Proof.
  intros a b. unfold copysign_lane, OI, IEEEr, IEEE. cbn [f32_2 f32_of_bits f32_2s]. unfold copysign32.
  rewrite (tob_ofb32 2147483648) by lia. change (Z.lxor 2147483648 4294967295) with 2147483647.
  pose proof (tob_range' a) as Ha. pose proof (tob_range' b) as Hb.
  rewrite (tob_ofb32 (Z.land (bits_of_b32 b) 2147483648)) by (apply land_range; lia).
  rewrite (tob_ofb32 (Z.land 2147483647 (bits_of_b32 a))) by (rewrite Z.land_comm; apply land_range; lia).
  rewrite Z.lor_comm. rewrite (Z.land_comm 2147483647). reflexivity.
Qed.

(* ---- SSE2 signum: select(is_nan_mask, self, (self & -1.0) | 1.0) *)
Section Lane6.
Variable O : Ops.
Definition signum_lane (x : F32 O) : F32 O :=
  let p := f32_pred O FIsNan x in
  let m := f32_of_bits O (if orb p p then 4294967295 else 0) in
  let r := f32_2 O FOr (f32_2 O FAnd x (f32_of_bits O 3212836864)) (f32_of_bits O 1065353216) in
  f32_2 O FOr (f32_2 O FAndNot m r) (f32_2 O FAnd x m).
End Lane6.
Lemma sign_bits_id t : Z.lor (Z.land t 3212836864) 1065353216 = Z.lor 1065353216 (Z.land t 2147483648).
Proof.
  change 3212836864 with (Z.lor 2147483648 1065353216). apply Z.bits_inj'. intros n Hn.
  rewrite !Z.lor_spec, !Z.land_spec, !Z.lor_spec.
  destruct (Z.testbit t n), (Z.testbit 2147483648 n), (Z.testbit 1065353216 n); reflexivity.
Qed.
Lemma feq_refl : forall x : binary32, feq x x.
Proof.
  intros x. destruct (is_nan 24 128 x) eqn:N; [left; split; exact N|right; repeat split; try exact N].
  destruct x as [s|s|s pl H|s m e H]; try discriminate N.
  - destruct s; reflexivity.
  - destruct s; reflexivity.
  - unfold b32_compare. rewrite Bcompare_correct by reflexivity. rewrite Rcompare_Eq; reflexivity.
Qed.
Theorem signum_lane_correct : forall v : binary32, feq (signum_lane OI v) (f32_1 OI FSignum v).
Proof.
  intros v. unfold signum_lane, OI, IEEEr, IEEE. cbn [f32_2 f32_1 f32_pred f32_of_bits f32_2s f32_1s].
  rewrite (tob_ofb32 3212836864) by lia. rewrite (tob_ofb32 1065353216) by lia.
  pose proof (tob_range' v) as Hv.
  assert (Rr : 0 <= Z.lor (Z.land (bits_of_b32 v) 3212836864) 1065353216 < 4294967296) by (apply lor_range; [apply land_range; lia|lia]).
  rewrite (tob_ofb32 (Z.land (bits_of_b32 v) 3212836864)) by (apply land_range; lia).
  rewrite (tob_ofb32 _ Rr).
  change (pred32 FIsNan v) with (is_nan 24 128 v).
  destruct (is_nan 24 128 v) eqn:N.
  - (* NaN: the mask is all ones, the input is returned *)
    cbn [orb]. rewrite (tob_ofb32 4294967295) by lia. change (Z.lxor 4294967295 4294967295) with 0. rewrite Z.land_0_l.
    rewrite (tob_ofb32 0) by lia. rewrite (land_ones32 _ Hv). rewrite (tob_ofb32 _ Hv). rewrite Z.lor_0_l.
    rewrite ofb32_ofb by exact Hv. unfold tob in *. fold (tob v). rewrite ofb_tob. left. split; [exact N|reflexivity].
  - cbn [orb]. rewrite (tob_ofb32 0) by lia. change (Z.lxor 0 4294967295) with 4294967295. rewrite Z.land_0_r.
    rewrite (tob_ofb32 0) by lia. rewrite Z.lor_0_r. rewrite Z.land_comm. rewrite (land_ones32 _ Rr).
    unfold copysign32, one32. rewrite (tob_ofb32 1065353216) by lia. change (Z.land 1065353216 2147483647) with 1065353216.
    rewrite (tob_ofb32 _ Rr). rewrite sign_bits_id. apply feq_refl.
Qed.
