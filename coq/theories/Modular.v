(* Modular statements: a lemma may be stated about the table with one callee replaced by an abstract primitive (for instance the
   polynomial arccos approximation by the [FAcos] primitive), so that the caller's formula is proved without unfolding the callee.
   The callee itself is covered by its own lemmas / the correspondence run; the lemma names which function was abstracted. *)
From Glam Require Import Base.
From Coq Require Import ZArith List.
Import ListNotations.
Definition override (t : positive -> option fn) (f : positive) (d : fn) : positive -> option fn :=
  fun g => if Pos.eqb g f then Some d else t g.
Definition stub1 (k : fk) (o : fop1) : fn := {| f_arity := 1; f_body := EPrim (PF1 k o) [EVar 0] |}.
Lemma override_same t f d : override t f d f = Some d. Proof. unfold override. rewrite Pos.eqb_refl. reflexivity. Qed.
Lemma override_other t f d g : g <> f -> override t f d g = t g. Proof. intros H. unfold override. destruct (Pos.eqb_spec g f); [contradiction|reflexivity]. Qed.
