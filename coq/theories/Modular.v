(* Modular statements: a lemma may be stated about the table with one callee replaced by an abstract primitive (for instance the
   polynomial arccos approximation by the [FAcos] primitive), so that the caller's formula is proved without unfolding the callee.
   The callee itself is covered by its own lemmas / the correspondence run; the lemma names which function was abstracted. *)
From Glam Require Import Base.
From Coq Require Import ZArith List.
Import ListNotations.
Definition override (t : positive -> option fn) (f : positive) (d : fn) : positive -> option fn :=
  fun g => if Pos.eqb g f then Some d else t g.
Definition stub1 (k : fk) (o : fop1) : fn := {| f_arity := 1; f_body := EPrim (PF1 k o) [EVar 0] |}.
Lemma override_same t f d : override t f d f = Some d. Proof. unfold override. rewrite Pos.eqb_refl. reflexivity. Qed.
Lemma override_other t f d g : g <> f -> override t f d g = t g. Proof. intros H. unfold override. destruct (Pos.eqb_spec g f); [contradiction|reflexivity]. Qed.
(* stubs that return their arguments: used to state which arguments a caller passes to a callee whose own behaviour is covered by other lemmas
   (e.g. the normalised axes handed to the matrix -> quaternion conversion by to_scale_rotation_translation) *)
Definition stub_args3 : fn := {| f_arity := 3; f_body := EPrim PMk [EVar 0; EVar 1; EVar 2] |}.
Definition stub_id : fn := {| f_arity := 1; f_body := EVar 0 |}.
(* lane-wise stand-in for a SIMD polynomial approximation (src/sse2.rs m128_sin is abstracted to the sine primitive applied to every lane) *)
Definition stub_lanes1 (o : fop1) : fn := {| f_arity := 1; f_body := EPrim (PLanewise1 o) [EVar 0] |}.
