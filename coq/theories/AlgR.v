(* The hypotheses under which the algebraic lemmas (C03, C04, C07, C09, C10, C11) are stated are satisfiable: they hold for
   K = R with the field operations of the reals, literals read through Flocq's B2R, and sin / cos as the oracles.
   (Non-vacuity of the section hypotheses of harness/alg.py; each lemma below has exactly the shape of one hypothesis.) *)
From Coq Require Import ZArith Reals Lra RealField.
From Flocq Require Import Core Binary Bits.
From Glam Require Import Base.
Open Scope R_scope.
Definition Rlit32 (z : Z) : R := B2R 24 128 (b32_of_bits z).
Definition Rlit64 (z : Z) : R := B2R 53 1024 (b64_of_bits z).
Definition R_un (o : fop1) (x : R) : R := match o with FSin => sin x | FCos => cos x | FTan => tan x | FSqrt => sqrt x | _ => 0 end.
Lemma R_field : field_theory 0 1 Rplus Rmult Rminus Ropp Rdiv Rinv (@eq R). Proof. exact Rfield. Qed.
Ltac lit := unfold Rlit32, Rlit64; cbv [b32_of_bits b64_of_bits binary_float_of_bits]; vm_compute binary_float_of_bits_aux; cbv [B2R FF2B binary_float_of_bits_aux split_bits]; unfold F2R; simpl; try lra.
Lemma Rlit32_0 : Rlit32 0 = 0. Proof. unfold Rlit32. vm_compute (b32_of_bits 0). reflexivity. Qed.
Lemma Rlit32_nz : Rlit32 2147483648 = 0. Proof. unfold Rlit32. vm_compute (b32_of_bits 2147483648). reflexivity. Qed.
Lemma Rlit64_0 : Rlit64 0 = 0. Proof. unfold Rlit64. vm_compute (b64_of_bits 0). reflexivity. Qed.
Lemma Rlit64_nz : Rlit64 9223372036854775808 = 0. Proof. unfold Rlit64. vm_compute (b64_of_bits 9223372036854775808). reflexivity. Qed.
Ltac fin z := match goal with |- context[b32_of_bits ?b] => let v := eval vm_compute in (b32_of_bits b) in change (b32_of_bits b) with v | |- context[b64_of_bits ?b] => let v := eval vm_compute in (b64_of_bits b) in change (b64_of_bits b) with v end; unfold B2R, F2R; simpl; lra.
Lemma Rlit32_1 : Rlit32 1065353216 = 1. Proof. unfold Rlit32. fin 0. Qed.
Lemma Rlit32_m1 : Rlit32 3212836864 = - 1. Proof. unfold Rlit32. fin 0. Qed.
Lemma Rlit32_2 : Rlit32 1073741824 = 1 + 1. Proof. unfold Rlit32. fin 0. Qed.
Lemma Rlit32_m2 : Rlit32 3221225472 = - (1 + 1). Proof. unfold Rlit32. fin 0. Qed.
Lemma Rlit32_half : (1 + 1) * Rlit32 1056964608 = 1. Proof. unfold Rlit32. fin 0. Qed.
Lemma Rlit64_1 : Rlit64 4607182418800017408 = 1. Proof. unfold Rlit64. fin 0. Qed.
Lemma Rlit64_m1 : Rlit64 13830554455654793216 = - 1. Proof. unfold Rlit64. fin 0. Qed.
Lemma Rlit64_2 : Rlit64 4611686018427387904 = 1 + 1. Proof. unfold Rlit64. fin 0. Qed.
Lemma Rlit64_m2 : Rlit64 13835058055282163712 = - (1 + 1). Proof. unfold Rlit64. fin 0. Qed.
Lemma Rlit64_half : (1 + 1) * Rlit64 4602678819172646912 = 1. Proof. unfold Rlit64. fin 0. Qed.
Lemma R_sin_opp x : R_un FSin (- x) = - R_un FSin x. Proof. apply sin_neg. Qed.
Lemma R_cos_opp x : R_un FCos (- x) = R_un FCos x. Proof. apply cos_neg. Qed.
Lemma R_sin_opp_mul x y : R_un FSin (- x * y) = - R_un FSin (x * y). Proof. cbn. rewrite <- Ropp_mult_distr_l. apply sin_neg. Qed.
Lemma R_cos_opp_mul x y : R_un FCos (- x * y) = R_un FCos (x * y). Proof. cbn. rewrite <- Ropp_mult_distr_l. apply cos_neg. Qed.
