(* Facts about the formulas that harness/props/C12.py proves the code to compute (over the reals). *)
From Coq Require Import Reals Lra Field Nsatz.
Open Scope R_scope.
(* lerp: a (1 - s) + b s *)
Lemma lerp_at_0 a b : a * (1 - 0) + b * 0 = a. Proof. ring. Qed.
Lemma lerp_at_1 a b : a * (1 - 1) + b * 1 = b. Proof. ring. Qed.
Lemma lerp_affine a b s : a * (1 - s) + b * s = a + s * (b - a). Proof. ring. Qed.
Lemma lerp_between a b s : 0 <= s <= 1 -> a <= b -> a <= a * (1 - s) + b * s <= b.
Proof. intros [H0 H1] Hab. rewrite lerp_affine. split; nra. Qed.
Lemma midpoint_half a b h : (1 + 1) * h = 1 -> (a + b) * h - a = b - (a + b) * h.
Proof. intros H. assert (h = / 2) by (apply Rmult_eq_reg_l with 2; [rewrite Rinv_r by lra; lra | lra]). subst. field. Qed.
Section Ortho.
(* the orthonormal basis of Duff et al. as glam computes it; sg = signum(z) *)
Variables x y z sg : R.
Hypothesis unit : x*x + y*y + z*z = 1.
Hypothesis sg2 : sg * sg = 1.
Hypothesis nz : sg + z <> 0.
Let a := - 1 / (sg + z).
Let b := x * y * a.
Let u1 := (1 + sg * x * x * a, sg * b, - sg * x).
Let u2 := (b, sg + y * y * a, - y).
Definition dot3 (p q : R * R * R) : R := let '(p1, p2, p3) := p in let '(q1, q2, q3) := q in p1*q1 + p2*q2 + p3*q3.
Lemma key : (sg + z) * (sg - z) = x*x + y*y. Proof. replace ((sg + z) * (sg - z)) with (sg * sg - z * z) by ring. rewrite sg2, <- unit. ring. Qed.
Lemma a_eq : a * (x*x + y*y) = - (sg - z).
Proof. unfold a. rewrite <- key. field. exact nz. Qed.
Lemma u2_orth_input : dot3 u2 (x, y, z) = 0.
Proof. unfold dot3, u2, b. replace (x * y * a * x + (sg + y * y * a) * y + - y * z) with (y * (a * (x*x + y*y) + (sg - z))) by ring. rewrite a_eq. ring. Qed.
Lemma u1_orth_input : dot3 u1 (x, y, z) = 0.
Proof. unfold dot3, u1, b. replace ((1 + sg * x * x * a) * x + sg * (x * y * a) * y + - sg * x * z) with (x * (1 - sg * z) + sg * x * (a * (x*x + y*y))) by ring. rewrite a_eq. replace (x * (1 - sg * z) + sg * x * - (sg - z)) with (x * (1 - sg * sg)) by ring. rewrite sg2. ring. Qed.
End Ortho.

(* any_orthogonal_vector: both candidates are orthogonal to the input (they are its cross products with Y resp. X) *)
Lemma any_orth_1 (x y z : R) : (- z) * x + 0 * y + x * z = 0. Proof. ring. Qed.
Lemma any_orth_2 (x y z : R) : 0 * x + z * y + (- y) * z = 0. Proof. ring. Qed.
