(* C05, matrix -> quaternion: the four branch formulas proved for the code by the generated lemmas (harness/props/C05.py,
   `matrix -> quaternion, branch ...`) recover the quaternion up to sign from its own rotation matrix.  Over the reals; sqrt (4 c^2) = 2 |c|.
   m_ij below follows glam's naming in from_rotation_axes: m01 is the y component of the x axis (column 0, row 1). *)
From Coq Require Import Reals Lra Nsatz Psatz.
Open Scope R_scope.
Section FromMat.
Variables x y z w : R.
Hypothesis unit : x*x + y*y + z*z + w*w = 1.
(* columns of R(q) as produced by from_quat (C05 lemma `R(q)`) *)
Let m00 := 1 - 2*(y*y + z*z). Let m01 := 2*(x*y + w*z).     Let m02 := 2*(x*z - w*y).
Let m10 := 2*(x*y - w*z).     Let m11 := 1 - 2*(x*x + z*z). Let m12 := 2*(y*z + w*x).
Let m20 := 2*(x*z + w*y).     Let m21 := 2*(y*z - w*x).     Let m22 := 1 - 2*(x*x + y*y).
Let half := / 2.
Lemma abs_sq c : Rabs c * Rabs c = c * c. Proof. rewrite <- (Rabs_mult c c). apply Rabs_pos_eq. nra. Qed.
Lemma sqrt_4sq c : sqrt (4 * (c * c)) = 2 * Rabs c.
Proof. replace (4 * (c * c)) with ((2 * Rabs c) * (2 * Rabs c)) by (rewrite <- (abs_sq c); ring). apply sqrt_square. pose proof (Rabs_pos c). lra. Qed.
Definition sgn (c : R) : R := c / Rabs c.
Lemma sgn_sq c : c <> 0 -> sgn c * sgn c = 1.
Proof. intros H. unfold sgn. assert (Rabs c <> 0) by (apply Rabs_no_R0; exact H). replace (c / Rabs c * (c / Rabs c)) with ((c * c) / (Rabs c * Rabs c)) by (field; assumption). rewrite (abs_sq c). field. exact H. Qed.

(* branch "x^2 largest": t = (1 - m22) - (m11 - m00) = 4 x^2 *)
Lemma tx_val : (1 - m22) - (m11 - m00) = 4 * (x * x). Proof. unfold m00, m11, m22. nsatz. Qed.
Lemma ty_val : (1 - m22) + (m11 - m00) = 4 * (y * y). Proof. unfold m00, m11, m22. nsatz. Qed.
Lemma tz_val : (1 + m22) - (m11 + m00) = 4 * (z * z). Proof. unfold m00, m11, m22. nsatz. Qed.
Lemma tw_val : (1 + m22) + (m11 + m00) = 4 * (w * w). Proof. unfold m00, m11, m22. nsatz. Qed.

Ltac branch c Hc tv :=
  rewrite ?tv, ?sqrt_4sq; unfold half, sgn, m00, m01, m02, m10, m11, m12, m20, m21, m22;
  assert (Rabs c <> 0) by (apply Rabs_no_R0; exact Hc); repeat split; field; assumption.

Theorem from_mat_branch_x : x <> 0 ->
  let t := (1 - m22) - (m11 - m00) in let i := half / sqrt t in
  t * i = sgn x * x /\ (m01 + m10) * i = sgn x * y /\ (m02 + m20) * i = sgn x * z /\ (m12 - m21) * i = sgn x * w.
Proof. intros Hx t i. unfold i, t. rewrite tx_val, sqrt_4sq. unfold half, sgn, m01, m02, m10, m12, m20, m21.
  assert (Rabs x <> 0) by (apply Rabs_no_R0; exact Hx). repeat split; field; assumption. Qed.
Theorem from_mat_branch_y : y <> 0 ->
  let t := (1 - m22) + (m11 - m00) in let i := half / sqrt t in
  (m01 + m10) * i = sgn y * x /\ t * i = sgn y * y /\ (m12 + m21) * i = sgn y * z /\ (m20 - m02) * i = sgn y * w.
Proof. intros Hy t i. unfold i, t. rewrite ty_val, sqrt_4sq. unfold half, sgn, m01, m02, m10, m12, m20, m21.
  assert (Rabs y <> 0) by (apply Rabs_no_R0; exact Hy). repeat split; field; assumption. Qed.
Theorem from_mat_branch_z : z <> 0 ->
  let t := (1 + m22) - (m11 + m00) in let i := half / sqrt t in
  (m02 + m20) * i = sgn z * x /\ (m12 + m21) * i = sgn z * y /\ t * i = sgn z * z /\ (m01 - m10) * i = sgn z * w.
Proof. intros Hz t i. unfold i, t. rewrite tz_val, sqrt_4sq. unfold half, sgn, m01, m02, m10, m12, m20, m21.
  assert (Rabs z <> 0) by (apply Rabs_no_R0; exact Hz). repeat split; field; assumption. Qed.
Theorem from_mat_branch_w : w <> 0 ->
  let t := (1 + m22) + (m11 + m00) in let i := half / sqrt t in
  (m12 - m21) * i = sgn w * x /\ (m20 - m02) * i = sgn w * y /\ (m01 - m10) * i = sgn w * z /\ t * i = sgn w * w.
Proof. intros Hw t i. unfold i, t. rewrite tw_val, sqrt_4sq. unfold half, sgn, m01, m02, m10, m12, m20, m21.
  assert (Rabs w <> 0) by (apply Rabs_no_R0; exact Hw). repeat split; field; assumption. Qed.

(* the branch conditions select a component that is not zero: m22 <= 0 and m11 - m00 <= 0 give x^2 >= y^2 and x^2 + y^2 >= 1/2, etc. *)
Lemma cond_x : m22 <= 0 -> m11 - m00 <= 0 -> x <> 0. Proof. unfold m00, m11, m22. intros A B E. subst x. nra. Qed.
Lemma cond_y : m22 <= 0 -> ~ (m11 - m00 <= 0) -> y <> 0. Proof. unfold m00, m11, m22. intros A B E. subst y. apply B. nra. Qed.
Lemma cond_z : ~ (m22 <= 0) -> m11 + m00 <= 0 -> z <> 0. Proof. unfold m00, m11, m22. intros A B E. subst z. apply A. nra. Qed.
Lemma cond_w : ~ (m22 <= 0) -> ~ (m11 + m00 <= 0) -> w <> 0. Proof. unfold m00, m11, m22. intros A B E. subst w. apply B. nra. Qed.
End FromMat.
Print Assumptions from_mat_branch_x.
