(* Specification combinators shared by the generated (per method) lemmas, and the tactics that prove them.
   Everything here is parametric in the record of scalar primitives [Ops]; the generated statements quantify
   over all [Ops], hence over all lane values / bit patterns. *)
From Glam Require Import Base.
From Coq Require Import ZArith List String Bool.
Import ListNotations.

Section S.
Variable O : Ops.

Definition rb {A B} (r : res A) (k : A -> res B) : res B :=
  match r with Ok a => k a | Panic => Panic | UB s => UB s | OutOfFuel => OutOfFuel | Stuck s => Stuck s end.

(* ---- observation of a value modulo the hidden fourth lane of Vec3A-like slots *)
Inductive shp := SL | SH | ST (l : list shp) | SO (s : shp).
Fixpoint erase (s : shp) (v : valO O) {struct s} : valO O :=
  match s with
  | SL => v
  | SH => VUnit
  | ST ss => match v with
             | VT vs => VT ((fix go (ss : list shp) (vs : list (valO O)) {struct ss} : list (valO O) :=
                              match ss, vs with s :: ss', v :: vs' => erase s v :: go ss' vs' | _, vs => vs end) ss vs)
             | _ => v end
  | SO s' => match v with VOpt (Some x) => VOpt (Some (erase s' x)) | _ => v end
  end.
(* lane extraction for the lane-uniformity statements of C01 *)
Fixpoint leafv (path : list nat) (v : valO O) : res (valO O) :=
  match path with [] => Ok v | i :: p => match v with VT l => match nth_error l i with Some x => leafv p x | None => Stuck "leafv" end | _ => Stuck "leafv" end end.
Definition lanes_of (paths : list (list nat)) (r : res (valO O)) : res (valO O) :=
  rb r (fun v => rb ((fix go (ps : list (list nat)) : res (list (valO O)) := match ps with [] => Ok [] | p :: t => rb (leafv p v) (fun x => rb (go t) (fun xs => Ok (x :: xs))) end) paths) (fun l => Ok (VT l))).
Definition lanes_from (path : list nat) (rs : list (res (valO O))) : res (valO O) :=
  rb ((fix go (rs : list (res (valO O))) : res (list (valO O)) := match rs with [] => Ok [] | r :: t => rb r (fun v => rb (leafv path v) (fun x => rb (go t) (fun xs => Ok (x :: xs)))) end) rs) (fun l => Ok (VT l)).
Definition is_ok {A} (r : res A) : bool := match r with Ok _ => true | _ => false end.
Definition is_panic {A} (r : res A) : bool := match r with Panic => true | _ => false end.
Definition rerase (s : shp) (r : res (valO O)) : res (valO O) := match r with Ok v => Ok (erase s v) | e => e end.

(* ---- sequencing of primitives that may panic *)
Definition pb {B} (o : option Z) (k : Z -> res B) : res B := match o with Some z => k z | None => Panic end.
Definition ob {B} (o : option Z) (k : Z -> option B) : option B := match o with Some z => k z | None => None end.
End S.

(* destruct the innermost stuck scrutinee: an application of an abstract primitive returning [option]/[res]/[bool] *)
Ltac step :=
  match goal with
  | |- context[match ?x with Some _ => _ | None => _ end] =>
      lazymatch x with
      | context[match _ with Some _ => _ | None => _ end] => fail
      | context[if _ then _ else _] => fail
      | _ => case x; [intro|] end
  | |- context[if ?x then _ else _] =>
      lazymatch x with
      | context[match _ with Some _ => _ | None => _ end] => fail
      | context[if _ then _ else _] => fail
      | _ => case x end
  end.
(* float predicate / comparison atoms (the abstract variables left by [destruct O], passed by name), innermost first *)
Ltac has_atom P32 C32 P64 C64 x :=
  match x with context[P32 _ _] => idtac | context[C32 _ _ _] => idtac | context[P64 _ _] => idtac | context[C64 _ _ _] => idtac | context[if _ then _ else _] => idtac end.
Ltac split1 P32 C32 P64 C64 :=
  match goal with
  | |- context[P32 ?p ?x] => tryif has_atom P32 C32 P64 C64 x then fail else case (P32 p x)
  | |- context[C32 ?c ?x ?y] => tryif first [has_atom P32 C32 P64 C64 x | has_atom P32 C32 P64 C64 y] then fail else case (C32 c x y)
  | |- context[P64 ?p ?x] => tryif has_atom P32 C32 P64 C64 x then fail else case (P64 p x)
  | |- context[C64 ?c ?x ?y] => tryif first [has_atom P32 C32 P64 C64 x | has_atom P32 C32 P64 C64 y] then fail else case (C64 c x y)
  end.
Ltac clear_unused0 := repeat match goal with H : _ |- _ => clear H end.
Ltac solve_struct := vm_compute; try reflexivity; clear_unused0; repeat (step; vm_compute; try reflexivity).

(* two stages.  Stage 1 (integer primitives still abstract, so normal forms stay small): every float predicate /
   comparison atom is generalised to a boolean variable, innermost first (sound: the generalised goal is stronger).
   Stage 2: the integer primitives are made concrete once ([unlock] rewrites with the equations of IntStd), then the
   boolean variables are destructed and each closed leaf is decided by computation. *)
Ltac gen1 P32 C32 P64 C64 :=
  match goal with
  | |- context[P32 ?p ?x] => tryif has_atom P32 C32 P64 C64 x then fail else (let b := fresh "atm" in generalize (P32 p x); intro b)
  | |- context[C32 ?c ?x ?y] => tryif first [has_atom P32 C32 P64 C64 x | has_atom P32 C32 P64 C64 y] then fail else (let b := fresh "atm" in generalize (C32 c x y); intro b)
  | |- context[P64 ?p ?x] => tryif has_atom P32 C32 P64 C64 x then fail else (let b := fresh "atm" in generalize (P64 p x); intro b)
  | |- context[C64 ?c ?x ?y] => tryif first [has_atom P32 C32 P64 C64 x | has_atom P32 C32 P64 C64 y] then fail else (let b := fresh "atm" in generalize (C64 c x y); intro b)
  end.
Ltac clear_unused := repeat match goal with H : ?T |- _ => lazymatch T with (_ = true) => fail | (_ = false) => fail | _ => clear H end end.   (* per-goal cost of case/destruct grows with the context; the literal facts are kept *)
Ltac destruct_bools := repeat match goal with b : bool |- _ => destruct b end.
Ltac destruct_bools_x CHK := repeat match goal with b : bool |- _ => lazymatch b with CHK => fail | _ => destruct b end end.      (* [chk] (overflow checks on/off) stays a variable *)
(* After the booleans are destructed the literal facts are rewritten BEFORE the goal is normalised with the concrete integer functions:
   a sign test of a mask literal that is still stuck would otherwise reach Z.land / Z.modulo as a neutral argument, on which vm_compute
   does not terminate in reasonable time.  The generalise / destruct round is repeated while new atoms appear (early returns, statement ifs). *)
Ltac solve_z P32 C32 P64 C64 CHK unlock lits :=
  vm_compute; try reflexivity; lits; cbv beta iota; try reflexivity; repeat (gen1 P32 C32 P64 C64);
  unlock; clear_unused; destruct_bools_x CHK; cbv beta iota; lits; vm_compute; try reflexivity; lits; vm_compute; try reflexivity;
  repeat (progress (repeat (gen1 P32 C32 P64 C64)); destruct_bools_x CHK; cbv beta iota; lits; vm_compute; try reflexivity; lits; vm_compute; try reflexivity);
  repeat (step; vm_compute; try reflexivity).

(* variant that remembers which atom each boolean stands for (C20: the two sides of an erasure lemma expose the same comparison at
   different moments, the asserting side only after its assertion has been decided) *)
Ltac gen1e P32 C32 P64 C64 :=
  match goal with
  | |- context[P32 ?p ?x] => tryif has_atom P32 C32 P64 C64 x then fail else (let b := fresh "atm" in let E := fresh "Eatm" in remember (P32 p x) as b eqn:E; symmetry in E)
  | |- context[C32 ?c ?x ?y] => tryif first [has_atom P32 C32 P64 C64 x | has_atom P32 C32 P64 C64 y] then fail else (let b := fresh "atm" in let E := fresh "Eatm" in remember (C32 c x y) as b eqn:E; symmetry in E)
  | |- context[P64 ?p ?x] => tryif has_atom P32 C32 P64 C64 x then fail else (let b := fresh "atm" in let E := fresh "Eatm" in remember (P64 p x) as b eqn:E; symmetry in E)
  | |- context[C64 ?c ?x ?y] => tryif first [has_atom P32 C32 P64 C64 x | has_atom P32 C32 P64 C64 y] then fail else (let b := fresh "atm" in let E := fresh "Eatm" in remember (C64 c x y) as b eqn:E; symmetry in E)
  end.
Ltac clear_unused_e := repeat match goal with H : ?T |- _ => lazymatch T with (@eq bool _ _) => fail | _ => clear H end end.
Ltac use_atoms := repeat match goal with E : @eq bool ?a ?b |- context[?a] => rewrite E end.
Ltac solve_ze P32 C32 P64 C64 CHK unlock lits :=
  vm_compute; try reflexivity; lits; cbv beta iota; try reflexivity; repeat (gen1e P32 C32 P64 C64);
  unlock; clear_unused_e; destruct_bools; vm_compute; try reflexivity; lits; vm_compute; try reflexivity;
  repeat (use_atoms; vm_compute; try reflexivity; repeat (gen1e P32 C32 P64 C64); destruct_bools; vm_compute; try reflexivity);
  repeat (step; vm_compute; try reflexivity).

(* variant for functions dominated by index / enum arithmetic (Euler orders): integer primitives concrete from the start *)
Ltac solve_zc unlock lits :=
  unlock; vm_compute; try reflexivity; lits; vm_compute; try reflexivity; clear_unused; repeat (step; vm_compute; try reflexivity).
