(* Specification combinators shared by the generated (per method) lemmas, and the tactics that prove them.
   Everything here is parametric in the record of scalar primitives [Ops]; the generated statements quantify
   over all [Ops], hence over all lane values / bit patterns. *)
From Glam Require Import Base.
From Coq Require Import ZArith List String Bool.
Import ListNotations.

Section S.
Variable O : Ops.

Definition rb {A B} (r : res A) (k : A -> res B) : res B :=
  match r with Ok a => k a | Panic => Panic | UB s => UB s | OutOfFuel => OutOfFuel | Stuck s => Stuck s end.

(* ---- observation of a value modulo the hidden fourth lane of Vec3A-like slots *)
Inductive shp := SL | SH | ST (l : list shp) | SO (s : shp).
Fixpoint erase (s : shp) (v : val O) {struct s} : val O :=
  match s with
  | SL => v
  | SH => VUnit
  | ST ss => match v with
             | VT vs => VT ((fix go (ss : list shp) (vs : list (val O)) {struct ss} : list (val O) :=
                              match ss, vs with s :: ss', v :: vs' => erase s v :: go ss' vs' | _, vs => vs end) ss vs)
             | _ => v end
  | SO s' => match v with VOpt (Some x) => VOpt (Some (erase s' x)) | _ => v end
  end.
Definition rerase (s : shp) (r : res (val O)) : res (val O) := match r with Ok v => Ok (erase s v) | e => e end.

(* ---- sequencing of primitives that may panic *)
Definition pb {B} (o : option Z) (k : Z -> res B) : res B := match o with Some z => k z | None => Panic end.
Definition ob {B} (o : option Z) (k : Z -> option B) : option B := match o with Some z => k z | None => None end.
End S.

(* destruct the innermost stuck scrutinee: an application of an abstract primitive returning [option]/[res]/[bool] *)
Ltac step :=
  match goal with
  | |- context[match ?x with Some _ => _ | None => _ end] =>
      lazymatch x with
      | context[match _ with Some _ => _ | None => _ end] => fail
      | context[if _ then _ else _] => fail
      | _ => case x; [intro|] end
  | |- context[if ?x then _ else _] =>
      lazymatch x with
      | context[match _ with Some _ => _ | None => _ end] => fail
      | context[if _ then _ else _] => fail
      | _ => case x end
  end.
Ltac solve_struct := vm_compute; repeat (step; vm_compute); reflexivity.
