(* C17, history part: if every read path returns the i-th element of the abstract lane list and every write path
   updates exactly the i-th element, then any finite interleaving of reads and writes through any paths behaves like
   the same sequence of [nth_error] / [upd] on the abstract list.  Generic in the state type (a vector value of the
   model), the element type and the (finite) families of read and write paths; proved by induction on the history,
   with no bound on its length. *)
From Coq Require Import List Arith Lia.
Import ListNotations.

Section Hist.
Variables (St A : Type) (RP WP : Type).        (* state, lane value, read paths, write paths *)
Variable abs : St -> list A.
Variable N : nat.
Variable rd : RP -> nat -> St -> option A.      (* read lane i through path p; None = panic *)
Variable wr : WP -> nat -> A -> St -> option St. (* write lane i through path p *)

Fixpoint upd (l : list A) (i : nat) (a : A) : list A :=
  match l, i with [], _ => [] | _ :: t, 0 => a :: t | h :: t, S j => h :: upd t j a end.

Hypothesis abs_len : forall s, length (abs s) = N.
Hypothesis rd_ok : forall p i s, i < N -> rd p i s = nth_error (abs s) i.
Hypothesis wr_ok : forall p i a s, i < N -> exists s', wr p i a s = Some s' /\ abs s' = upd (abs s) i a.

Inductive op := Rd (p : RP) (i : nat) | Wr (p : WP) (i : nat) (a : A).
Definition in_range (o : op) : Prop := match o with Rd _ i => i < N | Wr _ i _ => i < N end.

(* concrete execution: final state and the values read, in order *)
Fixpoint exec (s : St) (ops : list op) : option (St * list A) :=
  match ops with
  | [] => Some (s, [])
  | Rd p i :: t => match rd p i s with Some a => match exec s t with Some (s', outs) => Some (s', a :: outs) | None => None end | None => None end
  | Wr p i a :: t => match wr p i a s with Some s' => exec s' t | None => None end
  end.
(* abstract execution on the lane list *)
Fixpoint aexec (l : list A) (ops : list op) : option (list A * list A) :=
  match ops with
  | [] => Some (l, [])
  | Rd _ i :: t => match nth_error l i with Some a => match aexec l t with Some (l', outs) => Some (l', a :: outs) | None => None end | None => None end
  | Wr _ i a :: t => aexec (upd l i a) t
  end.

Lemma upd_length l i a : length (upd l i a) = length l.
Proof. revert i; induction l as [|h t IH]; intros [|j]; cbn; auto. Qed.

Theorem history_refines : forall ops s, Forall in_range ops ->
  exists s' outs, exec s ops = Some (s', outs) /\ aexec (abs s) ops = Some (abs s', outs).
Proof.
  induction ops as [|o t IH]; intros s Hr.
  - exists s, []. split; reflexivity.
  - inversion Hr as [|? ? Ho Ht]; subst. destruct o as [p i|p i a]; cbn in Ho; cbn [exec aexec].
    + rewrite (rd_ok p i s Ho).
      assert (Hn : i < length (abs s)) by (rewrite abs_len; exact Ho).
      destruct (nth_error (abs s) i) as [a|] eqn:E; [|apply nth_error_None in E; lia].
      destruct (IH s Ht) as (s' & outs & E1 & E2). exists s', (a :: outs). rewrite E1, E2. split; reflexivity.
    + destruct (wr_ok p i a s Ho) as (s1 & W & Ab). rewrite W, <- Ab. apply IH. exact Ht.
Qed.

(* a write changes exactly lane i as seen through every read path, and no other lane *)
Lemma nth_upd_same l i a : i < length l -> nth_error (upd l i a) i = Some a.
Proof. revert i; induction l as [|h t IH]; intros [|j] H; cbn in *; try lia; auto. apply IH; lia. Qed.
Lemma nth_upd_other l i j a : i <> j -> nth_error (upd l i a) j = nth_error l j.
Proof. revert i j; induction l as [|h t IH]; intros [|i] [|j] H; cbn; auto; try congruence. Qed.

Corollary write_then_read : forall pw pr i j a s, i < N -> j < N ->
  exists s', wr pw i a s = Some s' /\ rd pr j s' = (if Nat.eqb i j then Some a else rd pr j s).
Proof.
  intros pw pr i j a s Hi Hj. destruct (wr_ok pw i a s Hi) as (s' & W & Ab). exists s'. split; [exact W|].
  rewrite (rd_ok pr j s' Hj), Ab. destruct (Nat.eqb_spec i j) as [->|Hne].
  - apply nth_upd_same. rewrite abs_len; exact Hj.
  - rewrite nth_upd_other by exact Hne. symmetry. apply rd_ok. exact Hj.
Qed.
End Hist.
