(* Algebraic instance of the scalar primitives: both float kinds are interpreted in one field K, with + - * / negation,
   reciprocal and fused multiply-add as the field operations.  Everything else (square root, trigonometric oracles,
   comparisons, literals other than the few the code needs) stays abstract, constrained only by the laws bundled in the
   record.  Theorems proved for every [AlgK] say that the translated code computes the stated polynomial / rational
   function over any field - in particular over the reals ([AlgR] below). *)
From Glam Require Import Base.
From Coq Require Import ZArith List String Bool Field.
Import ListNotations.

Record AlgK := {
  K : Type; k0 : K; k1 : K; kadd : K -> K -> K; kmul : K -> K -> K; ksub : K -> K -> K; kopp : K -> K; kdiv : K -> K -> K; kinv : K -> K;
  kfield : field_theory k0 k1 kadd kmul ksub kopp kdiv kinv (@eq K);
  k_un : fop1 -> K -> K;               (* sqrt, floor, sin, cos, ... : uninterpreted *)
  k_bin : fop2 -> K -> K -> K;         (* rem, copysign, atan2, bit operations, min/max ... : uninterpreted *)
  k_cmp : fcmp -> K -> K -> bool; k_pred : fpred -> K -> bool;
  lit32 : Z -> K; lit64 : Z -> K;
  lit32_0 : lit32 0 = k0; lit32_1 : lit32 1065353216 = k1; lit32_m1 : lit32 3212836864 = kopp k1; lit32_2 : lit32 1073741824 = kadd k1 k1;
  lit32_half : kmul (kadd k1 k1) (lit32 1056964608) = k1;
  lit64_0 : lit64 0 = k0; lit64_1 : lit64 4607182418800017408 = k1; lit64_m1 : lit64 13830554455654793216 = kopp k1; lit64_2 : lit64 4611686018427387904 = kadd k1 k1;
  lit64_half : kmul (kadd k1 k1) (lit64 4602678819172646912) = k1;
  (* the sign-bit tricks of the SIMD backends on the two constants they are used with *)
  k_xor_signbit32 : forall x, k_bin FXor x (lit32 2147483648) = kopp x; k_xor_signbit32' : forall x, k_bin FXor (lit32 2147483648) x = kopp x
}.

Definition a1 (A : AlgK) (o : fop1) : K A -> K A :=
  match o with FNeg => kopp A | FRecipStd => kinv A | o => k_un A o end.
Definition a2 (A : AlgK) (o : fop2) : K A -> K A -> K A :=
  match o with FAdd => kadd A | FSub => ksub A | FMul => kmul A | FDiv => kdiv A | o => k_bin A o end.

(* integer primitives are irrelevant to the algebraic statements; they are taken from an arbitrary [Ops] *)
Definition OA (A : AlgK) (O0 : Ops) : Ops := {|
  F32 := K A; F64 := K A;
  f32_1 := a1 A; f32_2 := a2 A; f32_3 := fun _ a b c => kadd A (kmul A a b) c; f32_cmp := k_cmp A; f32_pred := k_pred A; f32_of_bits := lit32 A; f32_to_bits := fun _ => 0%Z;
  f64_1 := a1 A; f64_2 := a2 A; f64_3 := fun _ a b c => kadd A (kmul A a b) c; f64_cmp := k_cmp A; f64_pred := k_pred A; f64_of_bits := lit64 A; f64_to_bits := fun _ => 0%Z;
  f32_cvtt_i32 := fun _ => 0%Z; f32_of_i32 := fun _ => k0 A; f32_to_int := fun _ _ => 0%Z; f64_to_int := fun _ _ => 0%Z; f32_of_int := fun _ _ => k0 A; f64_of_int := fun _ _ => k0 A;
  f32_to_f64 := fun x => x; f64_to_f32 := fun x => x;
  i_1 := i_1 O0; i_2 := i_2 O0; i_checked := i_checked O0; i_cmp := i_cmp O0; i_cast := i_cast O0; i_shl := i_shl O0; i_shr := i_shr O0;
  i_mixed := i_mixed O0; i_mixed_checked := i_mixed_checked O0; i_isneg := i_isneg O0; i_try := i_try O0 |}.

(* proof support: peel the value constructors, close scalar goals with the given tactic *)
Ltac lanes_with tac :=
  repeat match goal with
  | |- Ok _ = Ok _ => f_equal
  | |- VT _ = VT _ => f_equal
  | |- VOpt _ = VOpt _ => f_equal
  | |- Some _ = Some _ => f_equal
  | |- _ :: _ = _ :: _ => f_equal
  | |- VF32 _ = VF32 _ => f_equal; tac
  | |- VF64 _ = VF64 _ => f_equal; tac
  | |- [] = [] => reflexivity
  | |- VUnit = VUnit => reflexivity
  end.
