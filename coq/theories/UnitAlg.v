(* C20, first half, exact real-arithmetic core: the values glam produces from valid inputs satisfy, as real numbers, the preconditions glam
   asserts (`is_normalized`: | |v|^2 - 1 | <= 2e-4, i.e. exactly 1 over the reals).  The formulas are the ones the generated lemmas of C02
   (normalize), C04 (Hamilton product, conjugate), C09 (axis-angle, Euler constructors) prove the code to compute.  What is NOT proved here is
   that the rounding error of the float evaluation stays within the 2e-4 tolerance (exercised by the chain run of the C20 check). *)
From Coq Require Import Reals Lra Nsatz Psatz.
Open Scope R_scope.

(* normalize: v / |v| has squared length 1 whenever |v|^2 > 0 *)
Lemma normalize_unit3 x y z : 0 < x*x + y*y + z*z ->
  let r := 1 / sqrt (x*x + y*y + z*z) in (x*r)*(x*r) + (y*r)*(y*r) + (z*r)*(z*r) = 1.
Proof. intros H r. unfold r. set (s := sqrt (x*x + y*y + z*z)). assert (Hs : s * s = x*x + y*y + z*z) by (apply sqrt_sqrt; lra).
  assert (s <> 0) by (intro E; rewrite E in Hs; lra). field_simplify_eq; [|assumption]. nra. Qed.
Lemma normalize_unit2 x y : 0 < x*x + y*y -> let r := 1 / sqrt (x*x + y*y) in (x*r)*(x*r) + (y*r)*(y*r) = 1.
Proof. intros H r. unfold r. set (s := sqrt (x*x + y*y)). assert (Hs : s * s = x*x + y*y) by (apply sqrt_sqrt; lra).
  assert (s <> 0) by (intro E; rewrite E in Hs; lra). field_simplify_eq; [|assumption]. nra. Qed.
Lemma normalize_unit4 x y z w : 0 < x*x + y*y + z*z + w*w ->
  let r := 1 / sqrt (x*x + y*y + z*z + w*w) in (x*r)*(x*r) + (y*r)*(y*r) + (z*r)*(z*r) + (w*r)*(w*r) = 1.
Proof. intros H r. unfold r. set (s := sqrt (x*x + y*y + z*z + w*w)). assert (Hs : s * s = x*x + y*y + z*z + w*w) by (apply sqrt_sqrt; lra).
  assert (s <> 0) by (intro E; rewrite E in Hs; lra). field_simplify_eq; [|assumption]. nra. Qed.

(* rotation constructors: (a sin(t/2), cos(t/2)) with a unit axis is a unit quaternion *)
Lemma axis_angle_unit x y z S C : x*x + y*y + z*z = 1 -> S*S + C*C = 1 -> (x*S)*(x*S) + (y*S)*(y*S) + (z*S)*(z*S) + C*C = 1.
Proof. intros. nsatz. Qed.
Lemma axis_angle_unit_trig x y z t : x*x + y*y + z*z = 1 -> let S := sin (t * / 2) in let C := cos (t * / 2) in (x*S)*(x*S) + (y*S)*(y*S) + (z*S)*(z*S) + C*C = 1.
Proof. intros H S C. apply axis_angle_unit; [exact H|]. unfold S, C. pose proof (sin2_cos2 (t * / 2)) as E. unfold Rsqr in E. exact E. Qed.
(* single-axis rotations from_rotation_x/y/z *)
Lemma single_axis_unit t : let S := sin (t * / 2) in let C := cos (t * / 2) in S*S + 0*0 + 0*0 + C*C = 1.
Proof. intros S C. pose proof (sin2_cos2 (t * / 2)) as E. unfold Rsqr in E. unfold S, C. lra. Qed.

(* products, conjugates and negations of unit quaternions are unit (Euler constructors are products of single-axis rotations) *)
Definition qn2 (x y z w : R) := x*x + y*y + z*z + w*w.
Lemma hprod_unit qx qy qz qw px py pz pw : qn2 qx qy qz qw = 1 -> qn2 px py pz pw = 1 ->
  qn2 (qw*px + qx*pw + qy*pz - qz*py) (qw*py - qx*pz + qy*pw + qz*px) (qw*pz + qx*py - qy*px + qz*pw) (qw*pw - qx*px - qy*py - qz*pz) = 1.
Proof. unfold qn2. intros. nsatz. Qed.
Lemma conj_unit x y z w : qn2 x y z w = 1 -> qn2 (-x) (-y) (-z) w = 1. Proof. unfold qn2. intros. nsatz. Qed.
Lemma neg_unit x y z w : qn2 x y z w = 1 -> qn2 (-x) (-y) (-z) (-w) = 1. Proof. unfold qn2. intros. nsatz. Qed.

(* the rotation matrix of a unit quaternion has unit, mutually orthogonal columns (what transform / to_euler / from_mat3 assert) *)
Section QMat.
Variables x y z w : R. Hypothesis U : qn2 x y z w = 1.
Let c00 := 1 - 2*(y*y + z*z). Let c01 := 2*(x*y + w*z).     Let c02 := 2*(x*z - w*y).
Let c10 := 2*(x*y - w*z).     Let c11 := 1 - 2*(x*x + z*z). Let c12 := 2*(y*z + w*x).
Let c20 := 2*(x*z + w*y).     Let c21 := 2*(y*z - w*x).     Let c22 := 1 - 2*(x*x + y*y).
Lemma qmat_cols_unit : c00*c00 + c01*c01 + c02*c02 = 1 /\ c10*c10 + c11*c11 + c12*c12 = 1 /\ c20*c20 + c21*c21 + c22*c22 = 1.
Proof. unfold qn2 in U. subst c00 c01 c02 c10 c11 c12 c20 c21 c22. repeat split; nsatz. Qed.
Lemma qmat_cols_orth : c00*c10 + c01*c11 + c02*c12 = 0 /\ c00*c20 + c01*c21 + c02*c22 = 0 /\ c10*c20 + c11*c21 + c12*c22 = 0.
Proof. unfold qn2 in U. subst c00 c01 c02 c10 c11 c12 c20 c21 c22. repeat split; nsatz. Qed.
End QMat.

(* any_orthonormal_pair / vector: see InterpAlg.v; lerp of two unit quaternions followed by normalize: normalize_unit4 *)
Print Assumptions hprod_unit.
