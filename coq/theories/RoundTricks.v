(* F3, continued: the SSE2 truncation and ceiling tricks (src/sse2.rs m128_trunc, m128_ceil) equal IEEE roundToIntegral toward zero /
   toward +inf on every binary32 bit pattern.  Reuses the bit-level and real-number lemmas of FloorTrick.v. *)
From Coq Require Import ZArith Reals Lia Lra Bool Psatz.
From Flocq Require Import Core BinarySingleNaN Binary Bits.
From Glam Require Import FloorTrick.
Open Scope Z_scope.

Definition lt (a b : b32) : bool := match b32_compare a b with Some Lt => true | _ => false end.

Definition trunc_trick (v : b32) : b32 :=
  let test := mask (Z.ltb (i32_of_u32 (Z.land (tob v) 2147483647)) 1258291200) in
  let result := of_i32 (cvtt v) in
  let r := Z.land (tob result) test in
  let t2 := Z.land (Z.lxor test 4294967295) (tob v) in
  ofb (Z.lor r t2).

Definition ceil_trick (v : b32) : b32 :=
  let test := mask (Z.ltb (i32_of_u32 (Z.land (tob v) 2147483647)) 1258291200) in
  let result := of_i32 (cvtt v) in
  let smaller := mask (lt result v) in
  let smaller_f := of_i32 (i32_of_u32 smaller) in
  let result2 := b32_minus mode_NE result smaller_f in
  let r := Z.land (tob result2) test in
  let t2 := Z.land (Z.lxor test 4294967295) (tob v) in
  ofb (Z.lor r t2).

Definition nan1 : { x : b32 | is_nan 24 128 x = true } := exist _ (B754_nan 24 128 false 1 (refl_equal _)) (refl_equal _).
Definition spec_trunc (x : b32) : b32 := Bnearbyint 24 128 (refl_equal _) (fun _ => nan1) mode_ZR x.
Definition spec_ceil (x : b32) : b32 := Bnearbyint 24 128 (refl_equal _) (fun _ => nan1) mode_UP x.

Eval vm_compute in (tob (trunc_trick (ofb 0xbf000000)), tob (trunc_trick (ofb 0x40200000)), tob (trunc_trick (ofb 0xc0200000)), tob (ceil_trick (ofb 0xbf000000)), tob (ceil_trick (ofb 0x40200000)), tob (ceil_trick (ofb 0xc0200000))).
Eval vm_compute in (tob (spec_trunc (ofb 0xbf000000)), tob (spec_trunc (ofb 0x40200000)), tob (spec_trunc (ofb 0xc0200000)), tob (spec_ceil (ofb 0xbf000000)), tob (spec_ceil (ofb 0x40200000)), tob (spec_ceil (ofb 0xc0200000))).

Lemma sel_false : forall x v : b32, ofb (Z.lor (Z.land (tob x) 0) (Z.land (Z.lxor 0 4294967295) (tob v))) = v.
Proof. intros. rewrite Z.land_0_r. cbn [Z.lor]. change (Z.lxor 0 4294967295) with 4294967295. rewrite Z.land_comm. rewrite land_ones32 by apply tob_range. apply ofb_tob. Qed.

Lemma trunc_passthrough : forall v, test_of v = false -> trunc_trick v = v.
Proof. intros v H. unfold trunc_trick. fold (test_of v). rewrite H. cbn [mask]. apply sel_false. Qed.
Lemma ceil_passthrough : forall v, test_of v = false -> ceil_trick v = v.
Proof. intros v H. unfold ceil_trick. fold (test_of v). rewrite H. cbn [mask]. apply sel_false. Qed.

Open Scope R_scope.
Lemma spec_trunc_R : forall v, B2R32 (spec_trunc v) = IZR (Ztrunc (B2R32 v)) /\ fin (spec_trunc v) = fin v.
Proof. intros v. unfold spec_trunc. match goal with |- context[Bnearbyint 24 128 ?h ?n mode_ZR v] => pose proof (Bnearbyint_correct 24 128 h n mode_ZR v) as (A & B & _) end.
  rewrite round_FIX_IZR in A. simpl round_mode in A. split; assumption. Qed.
Lemma spec_ceil_R : forall v, B2R32 (spec_ceil v) = IZR (Zceil (B2R32 v)) /\ fin (spec_ceil v) = fin v.
Proof. intros v. unfold spec_ceil. match goal with |- context[Bnearbyint 24 128 ?h ?n mode_UP v] => pose proof (Bnearbyint_correct 24 128 h n mode_UP v) as (A & B & _) end.
  rewrite round_FIX_IZR in A. simpl round_mode in A. split; assumption. Qed.

Lemma lt_correct : forall a b, fin a = true -> fin b = true -> lt a b = Rlt_bool (B2R32 a) (B2R32 b).
Proof. intros a b Ha Hb. unfold lt, b32_compare. rewrite Bcompare_correct by assumption.
  destruct (Rcompare_spec (B2R32 a) (B2R32 b)); destruct (Rlt_bool_spec (B2R32 a) (B2R32 b)); try reflexivity; lra. Qed.

Lemma ceil_via_trunc : forall r, Zceil r = if Rlt_bool (IZR (Ztrunc r)) r then (Ztrunc r + 1)%Z else Ztrunc r.
Proof. intros r. unfold Ztrunc. destruct (Rlt_bool_spec r 0) as [Hn|Hp].
  - pose proof (Zceil_ub r). rewrite Rlt_bool_false by lra. reflexivity.
  - destruct (Rlt_bool_spec (IZR (Zfloor r)) r) as [L|G].
    + apply Zceil_floor_neq. lra.
    + pose proof (Zfloor_lb r). assert (E : IZR (Zfloor r) = r) by lra. rewrite <- E. rewrite Zfloor_IZR. apply Zceil_IZR. Qed.

Lemma minus_exact : forall a b za zb, fin a = true -> fin b = true -> B2R32 a = IZR za -> B2R32 b = IZR zb -> (Z.abs (za - zb) < 16777216)%Z ->
  B2R32 (b32_minus mode_NE a b) = IZR (za - zb) /\ fin (b32_minus mode_NE a b) = true.
Proof. intros a b za zb Ha Hb Ea Eb Hs. unfold b32_minus.
  pose proof (Bminus_correct 24 128 (refl_equal _) (refl_equal _) binop_nan_pl32 mode_NE a b Ha Hb) as P.
  rewrite Ea, Eb, <- minus_IZR in P. rewrite round_generic in P; [|apply valid_rnd_round_mode|apply int_format; exact Hs].
  rewrite Rlt_bool_true in P by (apply int_lt_emax; exact Hs). destruct P as (A & B & _). split; assumption. Qed.

Lemma big_is_int : forall s m e Hb, (0 <= e)%Z -> B2R32 (B754_finite 24 128 s m e Hb) = IZR (cond_Zopp s (Zpos m) * 2 ^ e).
Proof. intros. simpl B2R. unfold F2R. simpl Fnum. simpl Fexp. rewrite mult_IZR. f_equal. rewrite <- (IZR_Zpower radix2 e H). reflexivity. Qed.

Theorem trunc_trick_correct : forall v, feq (trunc_trick v) (spec_trunc v).
Proof.
  intros v. destruct v as [s|s|s pl Hpl|s m e Hb].
  - destruct s; right; vm_compute; auto.
  - destruct s; right; vm_compute; auto.
  - rewrite trunc_passthrough by apply test_nan. left. split; reflexivity.
  - destruct (Z.ltb_spec e 0) as [Hneg|Hpos].
    + set (v := B754_finite 24 128 s m e Hb). assert (Hf : fin v = true) by reflexivity.
      pose proof (small_abs s m e Hb Hneg) as Hsmall. fold v in Hsmall.
      destruct (cvtt_small v Hf Hsmall) as [Ct Cb].
      destruct (of_i32_correct (cvtt v)) as [Rr Fr]; [lia|].
      assert (Tst : test_of v = true) by (unfold v; rewrite test_finite; apply Z.ltb_lt; exact Hneg).
      unfold trunc_trick. fold (test_of v). rewrite Tst. cbn [mask]. rewrite masked_true.
      destruct (spec_trunc_R v) as [S F]. apply feq_of_R; [exact Fr|rewrite F; exact Hf|]. rewrite S, Rr, Ct. reflexivity.
    + rewrite trunc_passthrough by (rewrite test_finite; apply Z.ltb_ge; exact Hpos).
      set (v := B754_finite 24 128 s m e Hb). destruct (spec_trunc_R v) as [S F]. apply feq_of_R; [reflexivity|rewrite F; reflexivity|].
      rewrite S. unfold v. rewrite big_is_int by exact Hpos. rewrite Ztrunc_IZR. reflexivity.
Qed.

Theorem ceil_trick_correct : forall v, feq (ceil_trick v) (spec_ceil v).
Proof.
  intros v. destruct v as [s|s|s pl Hpl|s m e Hb].
  - destruct s; right; vm_compute; auto.
  - destruct s; right; vm_compute; auto.
  - rewrite ceil_passthrough by apply test_nan. left. split; reflexivity.
  - destruct (Z.ltb_spec e 0) as [Hneg|Hpos].
    + set (v := B754_finite 24 128 s m e Hb). assert (Hf : fin v = true) by reflexivity.
      pose proof (small_abs s m e Hb Hneg) as Hsmall. fold v in Hsmall.
      destruct (cvtt_small v Hf Hsmall) as [Ct Cb].
      destruct (of_i32_correct (cvtt v)) as [Rr Fr]; [lia|].
      assert (Tst : test_of v = true) by (unfold v; rewrite test_finite; apply Z.ltb_lt; exact Hneg).
      unfold ceil_trick. fold (test_of v). rewrite Tst. cbn [mask].
      rewrite (lt_correct _ _ Fr Hf). rewrite Rr.
      set (c := cvtt v) in *.
      assert (Hl : forall bb : bool, exists zl : Z, (zl = if bb then (-1)%Z else 0%Z) /\ B2R32 (of_i32 (i32_of_u32 (mask bb))) = IZR zl /\ fin (of_i32 (i32_of_u32 (mask bb))) = true).
      { intros [|]; [exists (-1)%Z|exists 0%Z]; (split; [reflexivity|]); change (i32_of_u32 (mask true)) with (-1)%Z; change (i32_of_u32 (mask false)) with 0%Z; apply of_i32_correct; simpl; lia. }
      destruct (Hl (Rlt_bool (IZR c) (B2R32 v))) as (zl & Ezl & Rl & Fl).
      destruct (minus_exact _ _ c zl Fr Fl Rr Rl) as [Rs Fs]. { destruct (Rlt_bool (IZR c) (B2R32 v)); subst zl; lia. }
      rewrite masked_true. apply feq_of_R; [exact Fs| |].
      * destruct (spec_ceil_R v) as [_ F]. rewrite F. exact Hf.
      * destruct (spec_ceil_R v) as [S _]. rewrite S, Rs. f_equal. rewrite ceil_via_trunc. rewrite <- Ct. destruct (Rlt_bool (IZR c) (B2R32 v)); subst zl; lia.
    + rewrite ceil_passthrough by (rewrite test_finite; apply Z.ltb_ge; exact Hpos).
      set (v := B754_finite 24 128 s m e Hb). destruct (spec_ceil_R v) as [S F]. apply feq_of_R; [reflexivity|rewrite F; reflexivity|].
      rewrite S. unfold v. rewrite big_is_int by exact Hpos. rewrite Zceil_IZR. reflexivity.
Qed.

(* ---- round half away from zero: trunc(v) + (|v - trunc(v)| >= 1/2 ? copysign(1, v) : 0), every step exact (the repaired src/sse2.rs m128_round) *)
Open Scope R_scope.

Lemma nearestA_via_trunc : forall x, ZnearestA x = if Rle_bool (/2) (Rabs (x - IZR (Ztrunc x))) then (if Rlt_bool x 0 then Ztrunc x - 1 else Ztrunc x + 1)%Z else Ztrunc x.
Proof.
  intros x. unfold Znearest, Ztrunc. pose proof (Zfloor_lb x) as Fl. pose proof (Zfloor_ub x) as Fu. pose proof (Zceil_ub x) as Cu.
  destruct (Rlt_bool_spec x 0) as [Hn|Hp].
  - (* negative: trunc = ceil *)
    destruct (Req_dec (IZR (Zfloor x)) x) as [Ei|Ni].
    + assert (Ec : Zceil x = Zfloor x) by (rewrite <- Ei at 1; apply Zceil_IZR). rewrite Ec. rewrite Ei.
      replace (x - x) with 0 by ring. rewrite Rabs_R0. rewrite Rle_bool_false by lra. rewrite Rcompare_Lt by lra. reflexivity.
    + assert (Ec : Zceil x = (Zfloor x + 1)%Z) by (apply Zceil_floor_neq; exact Ni). rewrite Ec. rewrite plus_IZR. 
      assert (Fl' : IZR (Zfloor x) < x) by lra.
      rewrite Rabs_left1 by lra.
      destruct (Rcompare_spec (x - IZR (Zfloor x)) (/2)) as [L|E|G].
      * rewrite Rle_bool_true by lra. lia.
      * rewrite Rle_bool_true by lra. replace (0 <=? Zfloor x)%Z with false. lia. symmetry. apply Z.leb_gt. apply lt_IZR. lra.
      * rewrite Rle_bool_false by lra. reflexivity.
  - pose proof (Zfloor_lub 0 x Hp) as F0.
    rewrite Rabs_pos_eq by lra.
    destruct (Rcompare_spec (x - IZR (Zfloor x)) (/2)) as [L|E|G].
    + rewrite Rle_bool_false by lra. reflexivity.
    + rewrite Rle_bool_true by lra. replace (0 <=? Zfloor x)%Z with true by (symmetry; apply Z.leb_le; exact F0). apply Zceil_floor_neq. lra.
    + rewrite Rle_bool_true by lra. apply Zceil_floor_neq. lra.
Qed.

Notation fexp32 := (FLT_exp (3 - 128 - 24) 24).
Lemma trunc_frac_lt1 : forall x, Rabs (x - IZR (Ztrunc x)) < 1.
Proof. intros x. unfold Ztrunc. pose proof (Zfloor_lb x). pose proof (Zfloor_ub x). pose proof (Zceil_ub x). pose proof (Zceil_lb x).
  destruct (Rlt_bool_spec x 0); [rewrite Rabs_left1 by lra|rewrite Rabs_pos_eq by lra]; lra. Qed.
Lemma trunc_small0 : forall x, Rabs x < 1 -> Ztrunc x = 0%Z.
Proof. intros x H. apply Rabs_lt_inv in H. unfold Ztrunc. destruct (Rlt_bool_spec x 0).
  - apply Zceil_imp. simpl. lra.
  - apply Zfloor_imp. simpl. lra. Qed.

Lemma frac_format : forall s m e H, (e < 0)%Z -> let x := B2R32 (B754_finite 24 128 s m e H) in generic_format radix2 fexp32 (x - IZR (Ztrunc x)).
Proof.
  intros s m e H He x. pose proof (finite_shape m e H) as [[Elo Ehi] Sh].
  set (M := cond_Zopp s (Zpos m)). assert (HM : (Z.abs M < 16777216)%Z) by (unfold M; rewrite abs_cond_Zopp; simpl; lia).
  assert (Ex : x = IZR M * bpow radix2 e) by reflexivity.
  set (k := Ztrunc x). set (N := (M - k * 2 ^ (- e))%Z).
  assert (EN : x - IZR k = IZR N * bpow radix2 e).
  { unfold N. rewrite minus_IZR, mult_IZR. replace (IZR (2 ^ (- e))) with (bpow radix2 (- e)) by (rewrite <- (IZR_Zpower radix2 (- e)) by lia; reflexivity). rewrite Rmult_minus_distr_r. rewrite Rmult_assoc. rewrite <- bpow_plus. replace (- e + e)%Z with 0%Z by lia. simpl bpow. rewrite Ex. ring. }
  rewrite EN. apply generic_format_FLT. apply FLT_spec with (f := Float radix2 N e); [reflexivity| |simpl; lia].
  simpl Fnum. pose proof (trunc_frac_lt1 x) as L. fold k in L. rewrite EN in L. rewrite Rabs_mult in L. rewrite (Rabs_pos_eq (bpow radix2 e)) in L by apply bpow_ge_0.
  destruct (Z_le_gt_dec (-e) 24) as [Hs|Hb].
  - apply lt_IZR. rewrite abs_IZR. rewrite (IZR_Zpower radix2 24) by lia.
    apply Rlt_le_trans with (bpow radix2 (-e)); [|apply bpow_le; lia].
    rewrite bpow_opp. pose proof (bpow_gt_0 radix2 e). apply Rmult_lt_reg_r with (bpow radix2 e); [assumption|]. rewrite Rinv_l by lra. exact L.
  - assert (Hx1 : Rabs x < 1).
    { rewrite Ex. rewrite Rabs_mult. rewrite (Rabs_pos_eq (bpow radix2 e)) by apply bpow_ge_0. rewrite <- abs_IZR.
      apply Rlt_le_trans with (IZR 16777216 * bpow radix2 e). apply Rmult_lt_compat_r. apply bpow_gt_0. apply IZR_lt. exact HM.
      change (IZR 16777216) with (bpow radix2 24). rewrite <- bpow_plus. change 1 with (bpow radix2 0). apply bpow_le. lia. }
    assert (k = 0%Z) by (apply trunc_small0; exact Hx1). unfold N. rewrite H0. rewrite Z.mul_0_l, Z.sub_0_r. exact HM.
Qed.

(* ---- bit-level: absolute value by masking, copysign(1, v) by or-ing the sign bit *)
Open Scope Z_scope.
Lemma join_plain : forall m e, join_bits 23 8 false m e = e * 8388608 + m.
Proof. intros. unfold join_bits. rewrite Z.shiftl_mul_pow2 by lia. change (2^23) with 8388608. lia. Qed.
Lemma abs_bits : forall f : b32, is_finite 24 128 f = true ->
  (B2R32 (ofb (Z.land (tob f) 2147483647)) = Rabs (B2R32 f))%R /\ is_finite 24 128 (ofb (Z.land (tob f) 2147483647)) = true.
Proof.
  intros f Hf. destruct f as [s| | |s m e H]; try discriminate Hf.
  - assert (E : Z.land (tob (B754_zero 24 128 s)) 2147483647 = 0). { unfold tob, bits_of_b32, bits_of_binary_float. rewrite join_abs by lia. reflexivity. }
    rewrite E. split; [simpl; rewrite Rabs_R0; reflexivity|reflexivity].
  - assert (E : Z.land (tob (B754_finite 24 128 s m e H)) 2147483647 = tob (B754_finite 24 128 false m e H)).
    { rewrite !tob_finite. pose proof (finite_shape m e H) as [R [N|[S E]]].
      - replace (Z.leb 8388608 (Zpos m)) with true by (symmetry; apply Z.leb_le; lia). rewrite join_abs by lia. rewrite join_plain. reflexivity.
      - replace (Z.leb 8388608 (Zpos m)) with false by (symmetry; apply Z.leb_gt; lia). rewrite join_abs by lia. rewrite join_plain. reflexivity. }
    rewrite E. rewrite ofb_tob. split; [|reflexivity]. simpl B2R. unfold F2R. simpl Fnum. simpl Fexp.
    rewrite Rabs_mult. rewrite (Rabs_pos_eq (bpow radix2 e)) by apply bpow_ge_0. rewrite <- abs_IZR. rewrite abs_cond_Zopp. reflexivity.
Qed.

Lemma land_sign : forall r, 0 <= r < 2147483648 -> forall s : bool, Z.land ((if s then 2147483648 else 0) + r) 2147483648 = if s then 2147483648 else 0.
Proof.
  intros r Hr s. apply Z.bits_inj'. intros n Hn. rewrite Z.land_spec. change 2147483648 with (2 ^ 31) at 2. rewrite Z.pow2_bits_eqb by lia.
  destruct (Z.eqb_spec 31 n) as [<-|Ne].
  - rewrite andb_true_r. destruct s.
    + change 2147483648 with (2 ^ 31) at 2. rewrite Z.pow2_bits_true by lia. rewrite Z.testbit_true by lia. change (2^31) with 2147483648.
      pose proof (Z.div_mod (2147483648 + r) 2147483648 ltac:(lia)) as D. pose proof (Z.mod_pos_bound (2147483648 + r) 2147483648 ltac:(lia)) as B. assert (Q : (2147483648 + r) / 2147483648 = 1) by nia. rewrite Q. reflexivity.
    + rewrite Z.add_0_l. rewrite Z.bits_0. apply Z.testbit_false; [lia|]. change (2^31) with 2147483648. rewrite Z.div_small by lia. reflexivity.
  - rewrite andb_false_r. destruct s; [change 2147483648 with (2^31); rewrite Z.pow2_bits_false by lia|rewrite Z.bits_0]; reflexivity.
Qed.
Lemma join_split : forall s m e, 0 <= m < 8388608 -> 0 <= e < 256 -> join_bits 23 8 s m e = (if s then 2147483648 else 0) + (e * 8388608 + m).
Proof. intros. unfold join_bits. rewrite Z.shiftl_mul_pow2 by lia. change (2^23) with 8388608. change (Zpower 2 8) with 256. destruct s; lia. Qed.
Lemma tob_sign : forall s m e H, Z.land (tob (B754_finite 24 128 s m e H)) 2147483648 = if s then 2147483648 else 0.
Proof. intros. rewrite tob_finite. pose proof (finite_shape m e H) as [R [N|[S E]]].
  - replace (Z.leb 8388608 (Zpos m)) with true by (symmetry; apply Z.leb_le; lia). rewrite join_split by lia. apply land_sign. lia.
  - replace (Z.leb 8388608 (Zpos m)) with false by (symmetry; apply Z.leb_gt; lia). rewrite join_split by lia. apply land_sign. lia. Qed.
Definition one_s (s : bool) : b32 := ofb (Z.lor 1065353216 (if s then 2147483648 else 0)).
Lemma one_s_R : forall s, (B2R32 (one_s s) = if s then -1 else 1)%R /\ is_finite 24 128 (one_s s) = true.
Proof. intros [|]; split; try reflexivity; vm_compute; lra. Qed.

Definition ge (a b : b32) : bool := match b32_compare a b with Some Gt | Some Eq => true | _ => false end.
Definition round_trick (v : b32) : b32 :=
  let r := trunc_trick v in
  let d := b32_minus mode_NE v r in
  let ad := ofb (Z.land (tob d) 2147483647) in
  let m := mask (ge ad (ofb 1056964608)) in
  let one := ofb (Z.lor 1065353216 (Z.land (tob v) 2147483648)) in
  b32_plus mode_NE r (ofb (Z.land m (tob one))).
Definition spec_round (x : b32) : b32 := Bnearbyint 24 128 (refl_equal _) (fun _ => nan1) mode_NA x.
Eval vm_compute in (tob (round_trick (ofb 0x3f000000)), tob (round_trick (ofb 0x40200000)), tob (round_trick (ofb 0xc0200000)), tob (round_trick (ofb 0x3effffff)), tob (round_trick (ofb 0x4b000001)), tob (round_trick (ofb 0x7f800000))).
Eval vm_compute in (tob (spec_round (ofb 0x3f000000)), tob (spec_round (ofb 0x40200000)), tob (spec_round (ofb 0xc0200000)), tob (spec_round (ofb 0x3effffff)), tob (spec_round (ofb 0x4b000001)), tob (spec_round (ofb 0x7f800000))).

Open Scope R_scope.
Lemma spec_round_R : forall v, B2R32 (spec_round v) = IZR (ZnearestA (B2R32 v)) /\ fin (spec_round v) = fin v.
Proof. intros v. unfold spec_round. match goal with |- context[Bnearbyint 24 128 ?h ?n mode_NA v] => pose proof (Bnearbyint_correct 24 128 h n mode_NA v) as (A & B & _) end.
  rewrite round_FIX_IZR in A. simpl round_mode in A. split; assumption. Qed.
Lemma ge_correct : forall a b, fin a = true -> fin b = true -> ge a b = Rle_bool (B2R32 b) (B2R32 a).
Proof. intros a b Ha Hb. unfold ge, b32_compare. rewrite Bcompare_correct by assumption.
  destruct (Rcompare_spec (B2R32 a) (B2R32 b)); destruct (Rle_bool_spec (B2R32 b) (B2R32 a)); try reflexivity; lra. Qed.
Lemma half_R : B2R32 (ofb 1056964608) = /2 /\ fin (ofb 1056964608) = true.
Proof. split; [vm_compute; lra|reflexivity]. Qed.
Lemma minus_exact_fmt : forall a b, fin a = true -> fin b = true -> generic_format radix2 fexp32 (B2R32 a - B2R32 b) -> Rabs (B2R32 a - B2R32 b) < bpow radix2 128 ->
  B2R32 (b32_minus mode_NE a b) = B2R32 a - B2R32 b /\ fin (b32_minus mode_NE a b) = true.
Proof. intros a b Ha Hb G L. unfold b32_minus.
  pose proof (Bminus_correct 24 128 (refl_equal _) (refl_equal _) binop_nan_pl32 mode_NE a b Ha Hb) as P.
  rewrite round_generic in P; [|apply valid_rnd_round_mode|exact G]. rewrite Rlt_bool_true in P by exact L. destruct P as (A & B & _). split; assumption. Qed.
Lemma plus_zero_r : forall a, fin a = true -> B2R32 (b32_plus mode_NE a (ofb 0)) = B2R32 a /\ fin (b32_plus mode_NE a (ofb 0)) = true.
Proof. intros a Ha. unfold b32_plus.
  pose proof (Bplus_correct 24 128 (refl_equal _) (refl_equal _) binop_nan_pl32 mode_NE a (ofb 0) Ha (refl_equal _)) as P.
  change (B2R 24 128 (ofb 0)) with 0 in P. rewrite Rplus_0_r in P. rewrite round_generic in P; [|apply valid_rnd_round_mode|apply generic_format_B2R].
  rewrite Rlt_bool_true in P by (apply abs_B2R_lt_emax). destruct P as (A & B & _). split; assumption. Qed.

Theorem round_trick_correct : forall v, feq (round_trick v) (spec_round v).
Proof.
  intros v. destruct v as [s|s|s pl Hpl|s m e Hb].
  - destruct s; right; vm_compute; auto.
  - destruct s; right; vm_compute; auto.
  - left. split; [|reflexivity]. unfold round_trick. rewrite trunc_passthrough by apply test_nan.
    unfold isnan, b32_plus. match goal with |- is_nan 24 128 (Bplus _ _ _ _ _ _ _ ?y) = true => destruct y; reflexivity end.
  - destruct (Z.ltb_spec e 0) as [Hneg|Hpos].
    + set (v := B754_finite 24 128 s m e Hb). assert (Hf : fin v = true) by reflexivity.
      pose proof (small_abs s m e Hb Hneg) as Hsmall. fold v in Hsmall.
      destruct (cvtt_small v Hf Hsmall) as [Ct Cb].
      destruct (of_i32_correct (cvtt v)) as [Rr Fr]; [lia|].
      assert (Tst : test_of v = true) by (unfold v; rewrite test_finite; apply Z.ltb_lt; exact Hneg).
      assert (Er : trunc_trick v = of_i32 (cvtt v)). { unfold trunc_trick. fold (test_of v). rewrite Tst. cbn [mask]. apply masked_true. }
      unfold round_trick. rewrite Er. set (r := of_i32 (cvtt v)) in *. set (c := cvtt v) in *. set (x := B2R32 v) in *.
      (* the fractional part is computed exactly *)
      destruct (minus_exact_fmt v r Hf Fr) as [Rd Fd].
      { rewrite Rr, Ct. apply (frac_format s m e Hb Hneg). }
      { rewrite Rr, Ct. eapply Rlt_trans. apply trunc_frac_lt1. change 1 with (bpow radix2 0). apply bpow_lt. lia. }
      set (d := b32_minus mode_NE v r) in *.
      destruct (abs_bits d Fd) as [Ra Fa]. set (ad := ofb (Z.land (tob d) 2147483647)) in *.
      destruct half_R as [Rh Fh]. rewrite (ge_correct ad _ Fa Fh). rewrite Rh, Ra, Rd, Rr. fold x.
      unfold v at 1. rewrite tob_sign. fold (one_s s). destruct (one_s_R s) as [Ro Fo].
      destruct (spec_round_R v) as [S F]. fold x in S.
      rewrite nearestA_via_trunc in S. unfold c in *. rewrite <- Ct in S.
      assert (Hsx : Rle_bool (/ 2) (Rabs (x - IZR (cvtt v))) = true -> Rlt_bool x 0 = s).
      { intros Hge. destruct (Rle_bool_spec (/2) (Rabs (x - IZR (cvtt v)))) as [G|]; [|discriminate]. unfold x, v. simpl B2R. unfold F2R. simpl Fnum. simpl Fexp.
        pose proof (bpow_gt_0 radix2 e). assert (0 < IZR (Zpos m)) by (apply IZR_lt; lia).
        destruct s; simpl cond_Zopp; [change (Z.neg m) with (- Z.pos m)%Z; rewrite opp_IZR; apply Rlt_bool_true|apply Rlt_bool_false]; nra. }
      destruct (Rle_bool (/ 2) (Rabs (x - IZR (cvtt v)))) eqn:Eg; cbn [mask].
      * rewrite Z.land_comm. rewrite land_ones32 by apply tob_range. rewrite ofb_tob.
        destruct (plus_exact r (one_s s) (cvtt v) (if s then -1 else 1)%Z Fr Fo Rr) as [Rs Fs].
        { rewrite Ro. destruct s; reflexivity. } { destruct s; lia. }
        apply feq_of_R; [exact Fs|rewrite F; exact Hf|]. rewrite Rs, S. rewrite (Hsx eq_refl). destruct s; f_equal; lia.
      * rewrite Z.land_0_l. destruct (plus_zero_r r Fr) as [Rs Fs]. apply feq_of_R; [exact Fs|rewrite F; exact Hf|]. rewrite Rs, S, Rr. reflexivity.
    + (* |v| >= 2^23: an integer; trunc returns v, v - v = +0, nothing is added *)
      unfold round_trick. rewrite trunc_passthrough by (rewrite test_finite; apply Z.ltb_ge; exact Hpos).
      set (v := B754_finite 24 128 s m e Hb). assert (Hf : fin v = true) by reflexivity.
      destruct (minus_exact_fmt v v Hf Hf) as [Rd Fd].
      { replace (B2R32 v - B2R32 v) with 0 by ring. apply generic_format_0. } { replace (B2R32 v - B2R32 v) with 0 by ring. rewrite Rabs_R0. apply bpow_gt_0. }
      set (d := b32_minus mode_NE v v) in *.
      destruct (abs_bits d Fd) as [Ra Fa]. set (ad := ofb (Z.land (tob d) 2147483647)) in *.
      destruct half_R as [Rh Fh]. rewrite (ge_correct ad _ Fa Fh). rewrite Rh, Ra, Rd. replace (B2R32 v - B2R32 v) with 0 by ring. rewrite Rabs_R0.
      rewrite Rle_bool_false by lra. cbn [mask]. rewrite Z.land_0_l.
      destruct (plus_zero_r v Hf) as [Rs Fs]. destruct (spec_round_R v) as [S F]. apply feq_of_R; [exact Fs|rewrite F; exact Hf|]. rewrite Rs, S.
      unfold v. rewrite big_is_int by exact Hpos. rewrite (@Zrnd_IZR ZnearestA (valid_rnd_N _)). reflexivity.
Qed.
Print Assumptions round_trick_correct.
Print Assumptions trunc_trick_correct.
Print Assumptions ceil_trick_correct.
