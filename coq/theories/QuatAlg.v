(* Laws of quaternion rotation that follow from the reference formulas alone (over any field): used with the generated
   lemmas of C04, which identify glam's mul_quat / mul_vec3 / conjugate with [hprod] / [qrot] / [qconj]. *)
From Coq Require Import Ring Field.
Section Q.
Variable K : Type. Variables (k0 k1 : K) (kadd kmul ksub kdiv : K -> K -> K) (kopp kinv : K -> K).
Variable Kth : field_theory k0 k1 kadd kmul ksub kopp kdiv kinv (@eq K).
Add Field Kq : Kth.
Declare Scope Q_scope. Delimit Scope Q_scope with Q. Local Open Scope Q_scope.
Infix "+" := kadd : Q_scope. Infix "*" := kmul : Q_scope. Infix "-" := ksub : Q_scope. Notation "- x" := (kopp x) : Q_scope.
Notation two := (k1 + k1).
Definition quat := (K * K * K * K)%type.  Definition vec := (K * K * K)%type.
Definition hprod (q p : quat) : quat :=
  let '(qx, qy, qz, qw) := q in let '(px, py, pz, pw) := p in
  (qw * px + qx * pw + qy * pz - qz * py, qw * py - qx * pz + qy * pw + qz * px, qw * pz + qx * py - qy * px + qz * pw, qw * pw - qx * px - qy * py - qz * pz).
Definition qconj (q : quat) : quat := let '(x, y, z, w) := q in (- x, - y, - z, w).
Definition qneg (q : quat) : quat := let '(x, y, z, w) := q in (- x, - y, - z, - w).
Definition qnorm2 (q : quat) : K := let '(x, y, z, w) := q in x * x + y * y + z * z + w * w.
Definition vnorm2 (v : vec) : K := let '(x, y, z) := v in x * x + y * y + z * z.
Definition vscale (s : K) (v : vec) : vec := let '(x, y, z) := v in (s * x, s * y, s * z).
(* vector part of q v conj(q), as glam's mul_vec3 is proved to compute it *)
Definition qrot (q : quat) (v : vec) : vec :=
  let '(x, y, z, w) := q in let '(vx, vy, vz) := v in
  ((w*w + x*x - y*y - z*z) * vx + two * (x*y - w*z) * vy + two * (x*z + w*y) * vz,
   two * (x*y + w*z) * vx + (w*w - x*x + y*y - z*z) * vy + two * (y*z - w*x) * vz,
   two * (x*z - w*y) * vx + two * (y*z + w*x) * vy + (w*w - x*x - y*y + z*z) * vz).
Ltac q3 := repeat match goal with q : quat |- _ => destruct q as [[[? ?] ?] ?] | v : vec |- _ => destruct v as [[? ?] ?] end; cbn [hprod qconj qneg qnorm2 vnorm2 vscale qrot fst snd].
Ltac peq := repeat match goal with |- (_, _) = (_, _) => f_equal end; ring.
Theorem rot_compose q p v : qrot (hprod q p) v = qrot q (qrot p v).
Proof. q3. peq. Qed.
Theorem rot_length q v : vnorm2 (qrot q v) = qnorm2 q * qnorm2 q * vnorm2 v.
Proof. q3. ring. Qed.
Theorem rot_neg q v : qrot (qneg q) v = qrot q v.
Proof. q3. peq. Qed.
Theorem rot_undo q v : qrot (qconj q) (qrot q v) = vscale (qnorm2 q * qnorm2 q) v.
Proof. q3. peq. Qed.
Theorem norm_hprod q p : qnorm2 (hprod q p) = qnorm2 q * qnorm2 p.
Proof. q3. ring. Qed.
Theorem conj_hprod q p : qconj (hprod q p) = hprod (qconj p) (qconj q).
Proof. q3. peq. Qed.
(* for unit quaternions: length is preserved, the conjugate (glam's inverse) undoes the rotation *)
Corollary rot_length_unit q v : qnorm2 q = k1 -> vnorm2 (qrot q v) = vnorm2 v.
Proof. intros H. rewrite rot_length, H. ring. Qed.
Corollary rot_undo_unit q v : qnorm2 q = k1 -> qrot (qconj q) (qrot q v) = v.
Proof. intros H. rewrite rot_undo, H. destruct v as [[x y] z]. cbn [vscale]. peq. Qed.
End Q.
