(* Frustum facts of the documented projection matrices (C11), over the reals.  A perspective matrix has the shape
     [ A 0 0 0 ; 0 B 0 0 ; 0 0 C D ; 0 0 E 0 ]   (rows), E = -1 for right-handed, +1 for left-handed forms,
   so a view-space point (x, y, z, 1) maps to clip (A x, B y, C z + D, E z) and to NDC depth (C z + D) / (E z).
   With A = cot/aspect, B = cot, cot = 1/t, t = tan(fov/2) > 0 and the depth entries of each constructor as proved for the
   code in harness/props/C11.py: *)
From Coq Require Import Reals Lra Field.
Open Scope R_scope.
Section Persp.
Variables t asp n f d : R.
Hypothesis Ht : t <> 0. Hypothesis Ha : asp <> 0. Hypothesis Hd : d <> 0. Hypothesis Hn : n <> 0. Hypothesis Hnf : n - f <> 0. Hypothesis Hfn : f - n <> 0.
Let cot := 1 / t.
(* the point (aspect t d, t d) at depth d maps to NDC (1, 1): clip x / w and clip y / w with w = d *)
Lemma fov_edge_x : (cot / asp) * (asp * t * d) / d = 1. Proof. unfold cot. field. auto. Qed.
Lemma fov_edge_y : cot * (t * d) / d = 1. Proof. unfold cot. field. auto. Qed.
(* right-handed: view-space depth d is z = -d, clip w = -z = d *)
Lemma rh_w : -1 * (- d) = d. Proof. ring. Qed.
Lemma lh_w : 1 * d = d. Proof. ring. Qed.
(* perspective_rh_gl: C = (n+f)/(n-f), D = 2 n f/(n-f): near -> -1, far -> +1 *)
Lemma rh_gl_near : ((n + f) / (n - f) * (- n) + 2 * n * f / (n - f)) / n = -1. Proof. field. auto. Qed.
Lemma rh_gl_far : f <> 0 -> ((n + f) / (n - f) * (- f) + 2 * n * f / (n - f)) / f = 1. Proof. intros. field. auto. Qed.
(* perspective_rh: C = f/(n-f), D = n f/(n-f): near -> 0, far -> 1 *)
Lemma rh_near : (f / (n - f) * (- n) + n * f / (n - f)) / n = 0. Proof. field. auto. Qed.
Lemma rh_far : f <> 0 -> (f / (n - f) * (- f) + n * f / (n - f)) / f = 1. Proof. intros. field. auto. Qed.
(* perspective_lh: C = f/(f-n), D = - n f/(f-n): near -> 0, far -> 1 (z = +d, w = d) *)
Lemma lh_near : (f / (f - n) * n + - (n * f) / (f - n)) / n = 0. Proof. field. auto. Qed.
Lemma lh_far : f <> 0 -> (f / (f - n) * f + - (n * f) / (f - n)) / f = 1. Proof. intros. field. auto. Qed.
(* infinite forms: depth(d) = 1 - n/d (lh: C = 1, D = -n; rh: C = -1, D = -n with z = -d): 0 at the near plane, -> 1 as d -> infinity *)
Lemma inf_lh_depth : (1 * d + - n) / d = 1 - n / d. Proof. field. auto. Qed.
Lemma inf_rh_depth : (-1 * (- d) + - n) / d = 1 - n / d. Proof. field. auto. Qed.
Lemma inf_near : 1 - n / n = 0. Proof. field. auto. Qed.
(* reversed infinite forms: depth(d) = n/d : 1 at the near plane, -> 0 as d -> infinity *)
Lemma inf_rev_lh_depth : (0 * d + n) / d = n / d. Proof. field. auto. Qed.
Lemma inf_rev_rh_depth : (0 * (- d) + n) / d = n / d. Proof. field. auto. Qed.
Lemma inf_rev_near : n / n = 1. Proof. field. auto. Qed.
End Persp.
Section Ortho.
Variables l r b t n f : R.
Hypothesis Hrl : r - l <> 0. Hypothesis Htb : t - b <> 0. Hypothesis Hfn : f - n <> 0. Hypothesis Hnf : n - f <> 0.
(* x: l -> -1, r -> +1 (same for y with b, t) *)
Lemma ortho_x_left : 2 / (r - l) * l + - (r + l) / (r - l) = -1. Proof. field. auto. Qed.
Lemma ortho_x_right : 2 / (r - l) * r + - (r + l) / (r - l) = 1. Proof. field. auto. Qed.
Lemma ortho_y_bottom : 2 / (t - b) * b + - (t + b) / (t - b) = -1. Proof. field. auto. Qed.
Lemma ortho_y_top : 2 / (t - b) * t + - (t + b) / (t - b) = 1. Proof. field. auto. Qed.
(* depth: rh_gl (z = -d): near -> -1, far -> 1; lh (z = d): 0, 1; rh (z = -d): 0, 1 *)
Lemma ortho_rh_gl_near : - 2 / (f - n) * (- n) + - (f + n) / (f - n) = -1. Proof. field. auto. Qed.
Lemma ortho_rh_gl_far : - 2 / (f - n) * (- f) + - (f + n) / (f - n) = 1. Proof. field. auto. Qed.
Lemma ortho_lh_near : 1 / (f - n) * n + - n / (f - n) = 0. Proof. field. auto. Qed.
Lemma ortho_lh_far : 1 / (f - n) * f + - n / (f - n) = 1. Proof. field. auto. Qed.
Lemma ortho_rh_near : 1 / (n - f) * (- n) + n / (n - f) = 0. Proof. field. auto. Qed.
Lemma ortho_rh_far : 1 / (n - f) * (- f) + n / (n - f) = 1. Proof. field. auto. Qed.
End Ortho.
