(* Integer-vector specification combinators (C13).

   Where a glam method is literally the lane-wise primitive, the generated lemma states that directly.
   Where it is written with comparisons (min/max/clamp are compare-select, min/max_element are nested selects,
   min/max_position are scans), the generated lemma (for all [Ops]) states the result with the combinators
   below, and the lemmas of section [Sem] show - for the concrete integer semantics [zi_cmp] on Z - that each
   combinator computes the value of the corresponding Rust primitive (min, max, clamp, first position of the
   extremum, sign bit mask). *)
From Glam Require Import Base Spec Sem.
From Coq Require Import ZArith List Bool Lia.
Import ListNotations.
Open Scope Z_scope.

Section Trees.
Variable O : Ops.
Definition lt a b := i_cmp O ILt a b.
Definition gt a b := i_cmp O IGt a b.
Definition ge a b := i_cmp O IGe a b.
Definition sel_lt (a b : Z) : Z := if lt a b then a else b.      (* code of min *)
Definition sel_gt (a b : Z) : Z := if gt a b then a else b.      (* code of max *)
Definition clamp_sel (a lo hi : Z) : Z := sel_lt (sel_gt a lo) hi.
(* min(x, min(y, ...)) : right-nested, as the templates write it *)
Fixpoint minel (l : list Z) : Z := match l with [] => 0 | [x] => x | x :: t => sel_lt x (minel t) end.
Fixpoint maxel (l : list Z) : Z := match l with [] => 0 | [x] => x | x :: t => sel_gt x (maxel t) end.
(* scan for the first position of the minimum / maximum (dimensions 3 and 4) *)
Fixpoint argmin_from (best bi i : Z) (l : list Z) : Z :=
  match l with [] => bi | x :: t => argmin_from (if lt x best then x else best) (if lt x best then i else bi) (i + 1) t end.
Fixpoint argmax_from (best bi i : Z) (l : list Z) : Z :=
  match l with [] => bi | x :: t => argmax_from (if gt x best then x else best) (if gt x best then i else bi) (i + 1) t end.
Definition argmin (l : list Z) : Z := match l with [] => 0 | x :: t => argmin_from x 0 1 t end.
Definition argmax (l : list Z) : Z := match l with [] => 0 | x :: t => argmax_from x 0 1 t end.
(* dimension 2 is written with <= / >= *)
Definition argmin2 (x y : Z) : Z := if i_cmp O ILe x y then 0 else 1.
Definition argmax2 (x y : Z) : Z := if ge x y then 0 else 1.
End Trees.

(* ---- the combinators compute the Rust primitives under the concrete integer semantics *)
Section Sem.
Variables (chk : bool) (o1 : fk -> fop1 -> Z -> Z) (o2 : fk -> fop2 -> Z -> Z -> Z).
Let ZO := IEEE chk o1 o2.

Lemma sel_lt_min a b : sel_lt ZO a b = Z.min a b.
Proof. unfold sel_lt, lt; cbn. destruct (Z.ltb_spec a b); lia. Qed.
Lemma sel_gt_max a b : sel_gt ZO a b = Z.max a b.
Proof. unfold sel_gt, gt; cbn. destruct (Z.ltb_spec b a); lia. Qed.
(* Rust's Ord::clamp / the documented clamp for min <= max *)
Lemma clamp_sel_spec a lo hi : lo <= hi -> clamp_sel ZO a lo hi = (if a <? lo then lo else if hi <? a then hi else a).
Proof. intros H. unfold clamp_sel. rewrite sel_lt_min, sel_gt_max. destruct (Z.ltb_spec a lo), (Z.ltb_spec hi a); lia. Qed.

Fixpoint lmin (l : list Z) : Z := match l with [] => 0 | [x] => x | x :: t => Z.min x (lmin t) end.
Fixpoint lmax (l : list Z) : Z := match l with [] => 0 | [x] => x | x :: t => Z.max x (lmax t) end.
Lemma minel_lmin l : minel ZO l = lmin l.
Proof. induction l as [|x [|y t] IH]; cbn [minel lmin]; auto. rewrite sel_lt_min. f_equal. exact IH. Qed.
Lemma maxel_lmax l : maxel ZO l = lmax l.
Proof. induction l as [|x [|y t] IH]; cbn [maxel lmax]; auto. rewrite sel_gt_max. f_equal. exact IH. Qed.
Lemma lmin_le l x : In x l -> lmin l <= x.
Proof. induction l as [|a [|b t] IH]; intros H. destruct H. destruct H as [->|[]]; cbn; lia.
  change (lmin (a :: b :: t)) with (Z.min a (lmin (b :: t))). destruct H as [->|H]; [lia|]. specialize (IH H). lia. Qed.
Lemma lmin_in l : l <> [] -> In (lmin l) l.
Proof. induction l as [|a [|b t] IH]; intros H; [congruence|left; reflexivity|].
  change (lmin (a :: b :: t)) with (Z.min a (lmin (b :: t))).
  destruct (Z.min_spec a (lmin (b :: t))) as [[_ ->]|[_ ->]]; [left; auto|right; apply IH; congruence]. Qed.
Lemma lmax_ge l x : In x l -> x <= lmax l.
Proof. induction l as [|a [|b t] IH]; intros H. destruct H. destruct H as [->|[]]; cbn; lia.
  change (lmax (a :: b :: t)) with (Z.max a (lmax (b :: t))). destruct H as [->|H]; [lia|]. specialize (IH H). lia. Qed.
Lemma lmax_in l : l <> [] -> In (lmax l) l.
Proof. induction l as [|a [|b t] IH]; intros H; [congruence|left; reflexivity|].
  change (lmax (a :: b :: t)) with (Z.max a (lmax (b :: t))).
  destruct (Z.max_spec a (lmax (b :: t))) as [[_ ->]|[_ ->]]; [right; apply IH; congruence|left; auto]. Qed.

(* position scans: the returned index holds the extremum and no earlier index does *)
Fixpoint getz (l : list Z) (i : Z) : Z := match l with [] => 0 | x :: t => if i =? 0 then x else getz t (i - 1) end.
Definition first_min (l : list Z) (i : Z) : Prop :=
  0 <= i < Z.of_nat (length l) /\ (forall x, In x l -> getz l i <= x) /\ (forall j, 0 <= j < i -> getz l i < getz l j).
Definition first_max (l : list Z) (i : Z) : Prop :=
  0 <= i < Z.of_nat (length l) /\ (forall x, In x l -> x <= getz l i) /\ (forall j, 0 <= j < i -> getz l j < getz l i).

Ltac cases_cmp := repeat match goal with
  | |- context[Z.ltb ?a ?b] => lazymatch a with context[Z.ltb _ _] => fail | _ => lazymatch b with context[Z.ltb _ _] => fail | _ => destruct (Z.ltb_spec a b) end end
  | |- context[Z.leb ?a ?b] => destruct (Z.leb_spec a b) end.
Ltac idx_cases j := assert (j = 0 \/ j = 1 \/ j = 2 \/ j = 3 \/ j < 0 \/ 3 < j) as Hj by lia; destruct Hj as [->|[->|[->|[->|Hj]]]]; cbn; try lia.
Ltac in_cases := intros x0 Hx; cbn in Hx; repeat (destruct Hx as [<-|Hx]); try destruct Hx; cbn; lia.

Lemma argmin2_spec x y : first_min [x; y] (argmin2 ZO x y).
Proof. unfold argmin2, first_min; cbn. cases_cmp; cbn; (split; [lia|split; [in_cases|intros j Hj0; idx_cases j]]). Qed.
Lemma argmax2_spec x y : first_max [x; y] (argmax2 ZO x y).
Proof. unfold argmax2, ge, first_max; cbn. cases_cmp; cbn; (split; [lia|split; [in_cases|intros j Hj0; idx_cases j]]). Qed.
Lemma argmin3_spec x y z : first_min [x; y; z] (argmin ZO [x; y; z]).
Proof. unfold argmin, lt, first_min; cbn. cases_cmp; cbn; (split; [lia|split; [in_cases|intros j Hj0; idx_cases j]]). Qed.
Lemma argmax3_spec x y z : first_max [x; y; z] (argmax ZO [x; y; z]).
Proof. unfold argmax, gt, first_max; cbn. cases_cmp; cbn; (split; [lia|split; [in_cases|intros j Hj0; idx_cases j]]). Qed.
Lemma argmin4_spec x y z w : first_min [x; y; z; w] (argmin ZO [x; y; z; w]).
Proof. unfold argmin, lt, first_min; cbn. cases_cmp; cbn; (split; [lia|split; [in_cases|intros j Hj0; idx_cases j]]). Qed.
Lemma argmax4_spec x y z w : first_max [x; y; z; w] (argmax ZO [x; y; z; w]).
Proof. unfold argmax, gt, first_max; cbn. cases_cmp; cbn; (split; [lia|split; [in_cases|intros j Hj0; idx_cases j]]). Qed.
End Sem.
