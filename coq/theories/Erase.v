(* C20: a generic theorem about the evaluator of Base.v.  [rel tbl n a p] is a computable check that the expression [a]
   (translated with glam-assert) and the expression [p] (translated without) differ only by [SAssert] statements, followed
   through every call whose callee differs between the two tables.  Theorem [erase_run]: if the check succeeds, every value
   returned by the asserting function is returned by the plain one, for all Ops, all arguments and all fuel.
   The generated C20 lemmas discharge the check by computation, one per function pair. *)
From Glam Require Import Base.
From Coq Require Import ZArith List String Bool Lia PeanoNat.
Import ListNotations.
Open Scope Z_scope.

Lemma prim_eq_dec : forall a b : prim, {a = b} + {a <> b}.
Proof. decide equality; try apply Z.eq_dec; try apply string_dec; try apply Nat.eq_dec; try (apply list_eq_dec; apply Nat.eq_dec); decide equality. Defined.
Lemma place_eq_dec : forall a b : place, {a = b} + {a <> b}.
Proof. decide equality; apply Nat.eq_dec. Defined.
Lemma ik_eq_dec : forall a b : ik, {a = b} + {a <> b}.
Proof. decide equality. Defined.
Definition prim_eqb (a b : prim) : bool := if prim_eq_dec a b then true else false.
Definition place_eqb (a b : place) : bool := if place_eq_dec a b then true else false.
Definition ik_eqb (a b : ik) : bool := if ik_eq_dec a b then true else false.
Lemma prim_eqb_eq a b : prim_eqb a b = true -> a = b. Proof. unfold prim_eqb; destruct (prim_eq_dec a b); [auto|discriminate]. Qed.
Lemma place_eqb_eq a b : place_eqb a b = true -> a = b. Proof. unfold place_eqb; destruct (place_eq_dec a b); [auto|discriminate]. Qed.
Lemma ik_eqb_eq a b : ik_eqb a b = true -> a = b. Proof. unfold ik_eqb; destruct (ik_eq_dec a b); [auto|discriminate]. Qed.

Fixpoint all2 {A B} (f : A -> B -> bool) (l : list A) (m : list B) : bool :=
  match l, m with [], [] => true | x :: l', y :: m' => f x y && all2 f l' m' | _, _ => false end.
Lemma all2_Forall2 {A B} (f : A -> B -> bool) l m : all2 f l m = true -> Forall2 (fun x y => f x y = true) l m.
Proof. revert m; induction l as [|x l IH]; intros [|y m] H; try discriminate; [constructor|]. cbn in H. apply andb_true_iff in H. destruct H. constructor; auto. Qed.

Section R.
Variable tbl : positive -> option fn.

Fixpoint rel (n : nat) (a p : expr) {struct n} : bool :=
  match n with O => false | S n' =>
  match a, p with
  | EVar i, EVar j => Nat.eqb i j
  | ELitF32 x, ELitF32 y => Z.eqb x y
  | ELitF64 x, ELitF64 y => Z.eqb x y
  | ELitI k x, ELitI k' y => ik_eqb k k' && Z.eqb x y
  | ELitB x, ELitB y => Bool.eqb x y
  | EUnit, EUnit => true
  | EPrim q aa, EPrim q' ap => prim_eqb q q' && all2 (rel n') aa ap
  | ECall f aa, ECall g ap => all2 (rel n') aa ap && (Pos.eqb f g || match tbl f, tbl g with Some df, Some dg => rel n' (f_body df) (f_body dg) | _, _ => false end)
  | EIf c t e, EIf c' t' e' => rel n' c c' && rel n' t t' && rel n' e e'
  | EMatchI s arms d, EMatchI s' arms' d' => rel n' s s' && all2 (fun x y => Z.eqb (fst x) (fst y) && rel n' (snd x) (snd y)) arms arms' && rel n' d d'
  | EMatchOpt s a1 a2, EMatchOpt s' b1 b2 => rel n' s s' && rel n' a1 b1 && rel n' a2 b2
  | EBlock ss t, _ => (match p with EBlock ss' t' => rel_ss n' ss ss' && rel n' t t' | _ => false end) || (rel_ss n' ss [] && rel n' t p)   (* a block of assertions only around the plain expression *)
  | EPanic, EPanic => true
  | EReturn e, EReturn e' => rel n' e e'
  | ETry e, ETry e' => rel n' e e'
  | EFold l i b, EFold l' i' b' => rel n' l l' && rel n' i i' && rel n' b b'
  | _, _ => false
  end end
with rel_ss (n : nat) (a p : list stmt) {struct n} : bool :=
  match n with O => false | S n' =>
  match a, p with
  | [], [] => true
  | SAssert _ :: ra, _ => rel_ss n' ra p
  | SLet e :: ra, SLet e' :: rp => rel n' e e' && rel_ss n' ra rp
  | SAssign pl e :: ra, SAssign pl' e' :: rp => place_eqb pl pl' && rel n' e e' && rel_ss n' ra rp
  | SExpr e :: ra, SExpr e' :: rp => rel n' e e' && rel_ss n' ra rp
  | SIf c t f :: ra, SIf c' t' f' :: rp => rel n' c c' && rel_ss n' t t' && rel_ss n' f f' && rel_ss n' ra rp
  | _, _ => false
  end end.
End R.

Section S.
Variable OP : Ops.
Variable tbl : positive -> option fn.
Notation val := (valO OP).
Notation M := (M OP).
Notation eval := (eval OP tbl).
Notation exec := (exec OP tbl).
Notation lift := (lift OP).
Notation ret := (ret OP).
Notation bindv := (bindv OP).

Definition evals_of (ev : expr -> M) : list expr -> res (list val + val) :=
  fix evals (es : list expr) : res (list val + val) :=
    match es with [] => Ok (inl []) | e :: es' =>
      match ev e with
      | Ok (CVal v) => match evals es' with Ok (inl vs) => Ok (inl (v :: vs)) | other => other end
      | Ok (CRet v) => Ok (inr v) | Panic => Panic | UB s => UB s | OutOfFuel => OutOfFuel | Stuck s => Stuck s end end.
Definition fold_go (stp : val -> val -> M) : list val -> val -> M :=
  fix go (xs : list val) (acc : val) : M := match xs with [] => ret acc | x :: xs' => bindv (stp acc x) (fun acc' => go xs' acc') end.

Definition arms_of (ev : expr -> M) (z : Z) (arms : list (Z * expr)) (d : expr) : M :=
  (fix go (arms : list (Z * expr)) : M := match arms with [] => ev d | (k, e) :: t => if Z.eqb z k then ev e else go t end) arms.
Lemma arms_find ev z arms d : arms_of ev z arms d = ev (find_arm z arms d).
Proof. unfold arms_of. induction arms as [|[k e] t IH]; [reflexivity|]. cbn [find_arm]. destruct (Z.eqb z k); [reflexivity|exact IH]. Qed.

Lemma eval_S fuel env e : eval (S fuel) env e =
  let evals := evals_of (eval fuel env) in
  match e with
  | EVar n => lift (nthv OP env n)
  | ELitF32 b => ret (VF32 (f32_of_bits OP b)) | ELitF64 b => ret (VF64 (f64_of_bits OP b))
  | ELitI k z => ret (VI k z) | ELitB b => ret (VB b) | EUnit => ret VUnit
  | EPrim p args => match evals args with Ok (inl vs) => lift (eval_prim OP p vs) | Ok (inr v) => Ok (CRet v) | Panic => Panic | UB s => UB s | OutOfFuel => OutOfFuel | Stuck s => Stuck s end
  | ECall f args => match evals args with
      | Ok (inl vs) => match tbl f with Some d => match eval fuel vs (f_body d) with Ok (CVal v) | Ok (CRet v) => ret v | other => other end | None => Stuck "nofn" end
      | Ok (inr v) => Ok (CRet v) | Panic => Panic | UB s => UB s | OutOfFuel => OutOfFuel | Stuck s => Stuck s end
  | EIf c t f => bindv (eval fuel env c) (fun v => match v with VB true => eval fuel env t | VB false => eval fuel env f | _ => Stuck "if" end)
  | EMatchI s arms d => bindv (eval fuel env s) (fun v => match v with VI _ z => arms_of (eval fuel env) z arms d | _ => Stuck "matchi" end)
  | EMatchOpt s sm nn => bindv (eval fuel env s) (fun v => match v with VOpt (Some x) => eval fuel (env ++ [x]) sm | VOpt None => eval fuel env nn | _ => Stuck "matchopt" end)
  | EBlock ss tl => match exec fuel env ss with Ok (SNorm env') => eval fuel env' tl | Ok (SRet v) => Ok (CRet v) | Panic => Panic | UB s => UB s | OutOfFuel => OutOfFuel | Stuck s => Stuck s end
  | EPanic => Panic
  | EReturn e => bindv (eval fuel env e) (fun v => Ok (CRet v))
  | ETry e => bindv (eval fuel env e) (fun v => match v with VOpt (Some x) => ret x | VOpt None => Ok (CRet (VOpt None)) | _ => Stuck "try" end)
  | EFold l i b => bindv (eval fuel env l) (fun lv => bindv (eval fuel env i) (fun iv => match lv with
      | VT xs => fold_go (fun acc x => eval fuel (env ++ [acc; x]) b) xs iv
      | _ => Stuck "fold" end))
  end.
Proof. destruct e; reflexivity. Qed.

Lemma exec_S fuel env ss : exec (S fuel) env ss =
  match ss with
  | [] => Ok (SNorm env)
  | s :: rest =>
    let n := List.length env in
    match s with
    | SLet e => match eval fuel env e with Ok (CVal v) => exec fuel (env ++ [v]) rest | Ok (CRet v) => Ok (SRet v) | Panic => Panic | UB s => UB s | OutOfFuel => OutOfFuel | Stuck s => Stuck s end
    | SAssign p e => match eval fuel env e with Ok (CVal v) => rbind (pset OP env p v) (fun env' => exec fuel env' rest) | Ok (CRet v) => Ok (SRet v) | Panic => Panic | UB s => UB s | OutOfFuel => OutOfFuel | Stuck s => Stuck s end
    | SExpr e => match eval fuel env e with Ok (CVal _) => exec fuel env rest | Ok (CRet v) => Ok (SRet v) | Panic => Panic | UB s => UB s | OutOfFuel => OutOfFuel | Stuck s => Stuck s end
    | SAssert c => match eval fuel env c with Ok (CVal (VB true)) => exec fuel env rest | Ok (CVal (VB false)) => Panic | Ok (CVal _) => Stuck "assert" | Ok (CRet v) => Stuck "assert-return" | Panic => Panic | UB s => UB s | OutOfFuel => OutOfFuel | Stuck s => Stuck s end
    | SIf c t f => match eval fuel env c with
        | Ok (CVal (VB b)) =>
            if b then match exec fuel env t with Ok (SNorm env') => exec fuel (firstn n env') rest | other => other end
            else match exec fuel env f with Ok (SNorm env') => exec fuel (firstn n env') rest | other => other end
        | Ok (CVal _) => Stuck "sif" | Ok (CRet v) => Ok (SRet v) | Panic => Panic | UB s => UB s | OutOfFuel => OutOfFuel | Stuck s => Stuck s end
    end
  end.
Proof. destruct ss as [|[] ?]; reflexivity. Qed.

Lemma evals_imp (ev ev' : expr -> M) (R : expr -> expr -> Prop) :
  (forall a p c, R a p -> ev a = Ok c -> ev' p = Ok c) ->
  forall aa ap x, Forall2 R aa ap -> evals_of ev aa = Ok x -> evals_of ev' ap = Ok x.
Proof.
  intros H aa ap x F; revert x; induction F as [|a p aa ap Hap F IH]; intros x E; [exact E|].
  cbn in E |- *. destruct (ev a) as [[v|v]| | | |] eqn:Ea; try discriminate E.
  - rewrite (H _ _ _ Hap Ea). destruct (evals_of ev aa) as [[vs|w]| | | |] eqn:Es; try discriminate E; rewrite (IH _ eq_refl); exact E.
  - rewrite (H _ _ _ Hap Ea). exact E.
Qed.
Lemma fold_go_imp (stp stp' : val -> val -> M) :
  (forall acc x c, stp acc x = Ok c -> stp' acc x = Ok c) ->
  forall xs acc c, fold_go stp xs acc = Ok c -> fold_go stp' xs acc = Ok c.
Proof.
  intros H xs; induction xs as [|x xs IH]; intros acc c E; [exact E|].
  cbn in E |- *. unfold Base.bindv in *. destruct (stp acc x) as [[v|v]| | | |] eqn:Ea; try discriminate E; rewrite (H _ _ _ Ea); [apply IH; exact E|exact E].
Qed.
Lemma Forall2_eq_refl {A} (l : list A) : Forall2 eq l l. Proof. induction l; constructor; auto. Qed.

Ltac ev1 H IHe :=
  match type of H with
  | context[match eval ?f ?env ?e with _ => _ end] =>
      let E := fresh "E" in destruct (eval f env e) as [[?v|?v]| | | |] eqn:E; try discriminate H; rewrite (IHe _ _ _ E)
  end.

Lemma mono : forall fuel, (forall env e c, eval fuel env e = Ok c -> eval (S fuel) env e = Ok c) /\ (forall env ss r, exec fuel env ss = Ok r -> exec (S fuel) env ss = Ok r).
Proof.
  induction fuel as [|fuel [IHe IHs]]; [split; intros; discriminate|].
  assert (IHes : forall env aa x, evals_of (eval fuel env) aa = Ok x -> evals_of (eval (S fuel) env) aa = Ok x).
  { intros env aa x. apply (evals_imp _ _ eq); [intros a p c ->; apply IHe | apply Forall2_eq_refl]. }
  split.
  - intros env e c H. rewrite eval_S in H. rewrite (eval_S (S fuel)). cbv zeta in *. unfold Base.bindv in *. destruct e; try exact H.
    + destruct (evals_of (eval fuel env) args) as [[vs|w]| | | |] eqn:E; try discriminate H; rewrite (IHes _ _ _ E); exact H.
    + destruct (evals_of (eval fuel env) args) as [[vs|w]| | | |] eqn:E; try discriminate H; rewrite (IHes _ _ _ E); [|exact H].
      destruct (tbl f) as [d|]; [|exact H]. ev1 H IHe; exact H.
    + ev1 H IHe; [|exact H]. destruct v; try discriminate H. destruct b; apply IHe; exact H.
    + ev1 H IHe; [|exact H]. destruct v; try discriminate H. rewrite arms_find in H |- *. apply IHe; exact H.
    + ev1 H IHe; [|exact H]. destruct v; try discriminate H. destruct o; apply IHe; exact H.
    + destruct (exec fuel env ss) as [[env'|v]| | | |] eqn:E; try discriminate H; rewrite (IHs _ _ _ E); [apply IHe; exact H|exact H].
    + ev1 H IHe; exact H.
    + ev1 H IHe; exact H.
    + ev1 H IHe; [|exact H]. ev1 H IHe; [|exact H]. destruct v; try discriminate H.
      revert H. apply fold_go_imp. intros acc x c0. apply IHe.
  - intros env ss r H. rewrite exec_S in H. rewrite (exec_S (S fuel)). cbv zeta in *. destruct ss as [|s rest]; [exact H|]. destruct s.
    + ev1 H IHe; [apply IHs; exact H|exact H].
    + ev1 H IHe; [|exact H]. unfold rbind in *. destruct (pset OP env p v); try discriminate H; try exact H. apply IHs; exact H.
    + destruct (eval fuel env c) as [[v|v]| | | |] eqn:E; try discriminate H; rewrite (IHe _ _ _ E); [|exact H].
      destruct v; try discriminate H; try exact H.
      destruct b.
      * destruct (exec fuel env t) as [[env'|w]| | | |] eqn:E2; try discriminate H; rewrite (IHs _ _ _ E2); [apply IHs; exact H|exact H].
      * destruct (exec fuel env e) as [[env'|w]| | | |] eqn:E2; try discriminate H; rewrite (IHs _ _ _ E2); [apply IHs; exact H|exact H].
    + ev1 H IHe; [apply IHs; exact H|exact H].
    + ev1 H IHe. destruct v; try discriminate H; try exact H. destruct b; [apply IHs; exact H|exact H].
Qed.

Lemma find_arm_rel n z arms arms' d d' :
  all2 (fun x y => Z.eqb (fst x) (fst y) && rel tbl n (snd x) (snd y)) arms arms' = true -> rel tbl n d d' = true ->
  rel tbl n (find_arm z arms d) (find_arm z arms' d') = true.
Proof.
  revert arms'; induction arms as [|[k e] arms IH]; intros [|[k' e'] arms'] Ha Hd; try discriminate Ha; [exact Hd|].
  cbn in Ha. apply andb_true_iff in Ha. destruct Ha as [Ha Hr]. apply andb_true_iff in Ha. destruct Ha as [Hk He]. apply Z.eqb_eq in Hk. subst k'.
  cbn [find_arm]. destruct (Z.eqb z k); [exact He|apply IH; assumption].
Qed.

Ltac ev2 H IHe Hr :=
  match type of H with
  | context[match eval ?f ?env ?e with _ => _ end] =>
      let E := fresh "E" in destruct (eval f env e) as [[?v|?v]| | | |] eqn:E; try discriminate H; rewrite (IHe _ _ _ _ _ Hr E)
  end.
Ltac splitb H := repeat match type of H with (_ && _ = true) => let H1 := fresh H in apply andb_true_iff in H; destruct H as [H H1] end.

Lemma sim : forall fuel,
  (forall n a p env c, rel tbl n a p = true -> eval fuel env a = Ok c -> eval fuel env p = Ok c) /\
  (forall n a p env r, rel_ss tbl n a p = true -> exec fuel env a = Ok r -> exec fuel env p = Ok r).
Proof.
  induction fuel as [|fuel [IHe IHs]]; [split; intros; discriminate|].
  assert (IHes : forall n env aa ap x, all2 (rel tbl n) aa ap = true -> evals_of (eval fuel env) aa = Ok x -> evals_of (eval fuel env) ap = Ok x).
  { intros n env aa ap x Ha. apply (evals_imp _ _ (fun a p => rel tbl n a p = true)); [intros a p c; apply IHe | apply all2_Forall2; exact Ha]. }
  split.
  - intros n a p env c Hr H. destruct n as [|n]; [discriminate Hr|]. rewrite eval_S in H. cbv zeta in *. unfold Base.bindv in *.
    destruct a; match type of Hr with context[EBlock] => idtac | _ => destruct p; try discriminate Hr; cbn [rel] in Hr; rewrite eval_S; cbv zeta; unfold Base.bindv end.
    + apply Nat.eqb_eq in Hr. subst. exact H.
    + apply Z.eqb_eq in Hr. subst. exact H.
    + apply Z.eqb_eq in Hr. subst. exact H.
    + splitb Hr. apply ik_eqb_eq in Hr. apply Z.eqb_eq in Hr0. subst. exact H.
    + apply eqb_prop in Hr. subst. exact H.
    + exact H.
    + splitb Hr. apply prim_eqb_eq in Hr. subst.
      destruct (evals_of (eval fuel env) args) as [[vs|w]| | | |] eqn:E; try discriminate H; rewrite (IHes _ _ _ _ _ Hr0 E); exact H.
    + splitb Hr.
      destruct (evals_of (eval fuel env) args) as [[vs|w]| | | |] eqn:E; try discriminate H; rewrite (IHes _ _ _ _ _ Hr E); [|exact H].
      apply orb_true_iff in Hr0. destruct Hr0 as [Hf|Hf]; [apply Pos.eqb_eq in Hf; subst; exact H|].
      destruct (tbl f) as [d|]; [|discriminate Hf]. destruct (tbl f0) as [d0|]; [|discriminate Hf].
      ev2 H IHe Hf; exact H.
    + splitb Hr. ev2 H IHe Hr; [|exact H]. destruct v; try discriminate H. destruct b; (eapply IHe; [|exact H]; eassumption).
    + splitb Hr. ev2 H IHe Hr; [|exact H]. destruct v; try discriminate H. rewrite arms_find in H |- *. eapply IHe; [|exact H]. apply find_arm_rel; eassumption.
    + splitb Hr. ev2 H IHe Hr; [|exact H]. destruct v; try discriminate H. destruct o; (eapply IHe; [|exact H]; eassumption).
    + cbn [rel] in Hr. apply orb_true_iff in Hr. destruct Hr as [Hr|Hr].
      * destruct p; try discriminate Hr. splitb Hr. rewrite eval_S. cbv zeta.
        destruct (exec fuel env ss) as [[env'|v]| | | |] eqn:E; try discriminate H; rewrite (IHs _ _ _ _ _ Hr E); [(eapply IHe; [|exact H]; eassumption)|exact H].
      * (* assertions only: they held, the environment is unchanged, and the plain expression ran with one unit of fuel less *)
        splitb Hr. destruct (exec fuel env ss) as [[env'|v]| | | |] eqn:E; try discriminate H.
        -- pose proof (IHs _ _ _ _ _ Hr E) as E0. destruct fuel as [|fuel0]; [discriminate E0|]. rewrite exec_S in E0. injection E0 as <-.
           apply (proj1 (mono (S fuel0))). eapply IHe; [|exact H]. exact Hr0.
        -- pose proof (IHs _ _ _ _ _ Hr E) as E0. destruct fuel as [|fuel0]; [discriminate E0|]. rewrite exec_S in E0. discriminate E0.
    + exact H.
    + ev2 H IHe Hr; exact H.
    + ev2 H IHe Hr; exact H.
    + splitb Hr. ev2 H IHe Hr; [|exact H]. ev2 H IHe Hr1; [|exact H]. destruct v; try discriminate H.
      revert H. apply fold_go_imp. intros acc x c0. apply (IHe n). exact Hr0.
  - intros n a p env r Hr H. destruct n as [|n]; [discriminate Hr|]. destruct a as [|sa ra].
    + destruct p; [exact H|discriminate Hr].
    + destruct sa.
      * destruct p as [|[] rp]; try discriminate Hr. cbn [rel_ss] in Hr. splitb Hr. rewrite exec_S in H. rewrite exec_S. cbv zeta in *.
        ev2 H IHe Hr; [(eapply IHs; [|exact H]; eassumption)|exact H].
      * destruct p as [|[] rp]; try discriminate Hr. cbn [rel_ss] in Hr. splitb Hr. apply place_eqb_eq in Hr. subst. rewrite exec_S in H. rewrite exec_S. cbv zeta in *.
        ev2 H IHe Hr1; [|exact H]. unfold rbind in *. match type of H with context[pset OP env ?q v] => destruct (pset OP env q v) end; try discriminate H; try exact H. (eapply IHs; [|exact H]; eassumption).
      * destruct p as [|[] rp]; try discriminate Hr. cbn [rel_ss] in Hr. splitb Hr. rewrite exec_S in H. rewrite exec_S. cbv zeta in *.
        ev2 H IHe Hr; [|exact H]. destruct v; try discriminate H; try exact H.
        destruct b.
        -- destruct (exec fuel env t) as [[env'|w]| | | |] eqn:E2; try discriminate H; rewrite (IHs _ _ _ _ _ Hr2 E2); [(eapply IHs; [|exact H]; eassumption)|exact H].
        -- destruct (exec fuel env e) as [[env'|w]| | | |] eqn:E2; try discriminate H; rewrite (IHs _ _ _ _ _ Hr1 E2); [(eapply IHs; [|exact H]; eassumption)|exact H].
      * destruct p as [|[] rp]; try discriminate Hr. cbn [rel_ss] in Hr. splitb Hr. rewrite exec_S in H. rewrite exec_S. cbv zeta in *.
        ev2 H IHe Hr; [(eapply IHs; [|exact H]; eassumption)|exact H].
      * (* an assertion of the asserting side: it held, and the rest ran with one unit of fuel less *)
        assert (Hr' : rel_ss tbl n ra p = true) by (destruct p as [|[] rp]; exact Hr).
        rewrite exec_S in H. cbv zeta in H.
        destruct (eval fuel env c) as [[v|v]| | | |] eqn:E; try discriminate H. destruct v; try discriminate H. destruct b; [|discriminate H].
        apply (proj2 (mono fuel)). (eapply IHs; [|exact H]; eassumption).
Qed.

(* the statement used by the generated lemmas *)
Theorem erase_run : forall n fa fp da dp, tbl fa = Some da -> tbl fp = Some dp -> rel tbl n (f_body da) (f_body dp) = true ->
  forall fuel args v, run OP tbl fuel fa args = Ok v -> run OP tbl fuel fp args = Ok v.
Proof.
  intros n fa fp da dp Ha Hp Hr fuel args v. unfold run. rewrite Ha, Hp.
  destruct (eval fuel args (f_body da)) as [[w|w]| | | |] eqn:E; try discriminate; rewrite (proj1 (sim fuel) _ _ _ _ _ Hr E); exact (fun x => x).
Qed.
End S.

(* computable form: one boolean per function pair *)
Definition erase_check (tbl : positive -> option fn) (n : nat) (fa fp : positive) : bool :=
  match tbl fa, tbl fp with Some da, Some dp => rel tbl n (f_body da) (f_body dp) | _, _ => false end.
Theorem erase_check_sound : forall (tbl : positive -> option fn) n fa fp, erase_check tbl n fa fp = true ->
  forall (O : Ops) fuel args v, run O tbl fuel fa args = Ok v -> run O tbl fuel fp args = Ok v.
Proof.
  intros tbl n fa fp H O. unfold erase_check in H. destruct (tbl fa) as [da|] eqn:Ea; [|discriminate H]. destruct (tbl fp) as [dp|] eqn:Ep; [|discriminate H].
  exact (erase_run O tbl n fa fp da dp Ea Ep H).
Qed.
Print Assumptions erase_check_sound.
