(* Facts about the reference formulas of C09 over the reals (they are polynomial identities modulo |a| = 1, s^2 + c^2 = 1):
   the Rodrigues matrix is orthonormal with determinant 1; the matrix of the axis-angle quaternion (a sin(t/2), cos(t/2))
   is the Rodrigues matrix of angle t (double-angle relation made explicit). *)
From Coq Require Import Reals Nsatz Lra.
Open Scope R_scope.
Section Rot.
Variables x y z S C : R.
Hypothesis unit_axis : x*x + y*y + z*z = 1.
Hypothesis trig : S*S + C*C = 1.
Let omc := 1 - C.
(* rows of the Rodrigues matrix *)
Definition r00 := x*x*omc + C.   Definition r01 := x*y*omc - z*S. Definition r02 := x*z*omc + y*S.
Definition r10 := x*y*omc + z*S. Definition r11 := y*y*omc + C.   Definition r12 := y*z*omc - x*S.
Definition r20 := x*z*omc - y*S. Definition r21 := y*z*omc + x*S. Definition r22 := z*z*omc + C.
Ltac u := unfold r00, r01, r02, r10, r11, r12, r20, r21, r22, omc.
Lemma rod_col0_unit : r00*r00 + r10*r10 + r20*r20 = 1. Proof. u. nsatz. Qed.
Lemma rod_col1_unit : r01*r01 + r11*r11 + r21*r21 = 1. Proof. u. nsatz. Qed.
Lemma rod_col2_unit : r02*r02 + r12*r12 + r22*r22 = 1. Proof. u. nsatz. Qed.
Lemma rod_col01_orth : r00*r01 + r10*r11 + r20*r21 = 0. Proof. u. nsatz. Qed.
Lemma rod_col02_orth : r00*r02 + r10*r12 + r20*r22 = 0. Proof. u. nsatz. Qed.
Lemma rod_col12_orth : r01*r02 + r11*r12 + r21*r22 = 0. Proof. u. nsatz. Qed.
Lemma rod_det : r00*(r11*r22 - r12*r21) - r01*(r10*r22 - r12*r20) + r02*(r10*r21 - r11*r20) = 1. Proof. u. nsatz. Qed.
(* the rotation fixes its axis *)
Lemma rod_axis : r00*x + r01*y + r02*z = x /\ r10*x + r11*y + r12*z = y /\ r20*x + r21*y + r22*z = z.
Proof. u. repeat split; nsatz. Qed.
End Rot.

Section QuatMat.
(* q = (x s, y s, z s, c) with half-angle sine s and cosine c: its rotation matrix (as glam's quat_to_axes / mul_vec3 compute
   it, see C04/C05) is the Rodrigues matrix with S = 2 s c and C = c^2 - s^2 *)
Variables x y z s c : R.
Hypothesis unit_axis : x*x + y*y + z*z = 1.
Hypothesis trig : s*s + c*c = 1.
Let qx := x*s. Let qy := y*s. Let qz := z*s. Let qw := c.
Let S := 2*s*c. Let C := c*c - s*s.
Lemma quat_mat_00 : qw*qw + qx*qx - qy*qy - qz*qz = r00 x C. Proof. unfold r00, qx, qy, qz, qw, C. nsatz. Qed.
Lemma quat_mat_01 : 2*(qx*qy - qw*qz) = r01 x y z S C. Proof. unfold r01, qx, qy, qz, qw, S, C. nsatz. Qed.
Lemma quat_mat_02 : 2*(qx*qz + qw*qy) = r02 x y z S C. Proof. unfold r02, qx, qy, qz, qw, S, C. nsatz. Qed.
Lemma quat_mat_10 : 2*(qx*qy + qw*qz) = r10 x y z S C. Proof. unfold r10, qx, qy, qz, qw, S, C. nsatz. Qed.
Lemma quat_mat_11 : qw*qw - qx*qx + qy*qy - qz*qz = r11 y C. Proof. unfold r11, qx, qy, qz, qw, C. nsatz. Qed.
Lemma quat_mat_12 : 2*(qy*qz - qw*qx) = r12 x y z S C. Proof. unfold r12, qx, qy, qz, qw, S, C. nsatz. Qed.
Lemma quat_mat_20 : 2*(qx*qz - qw*qy) = r20 x y z S C. Proof. unfold r20, qx, qy, qz, qw, S, C. nsatz. Qed.
Lemma quat_mat_21 : 2*(qy*qz + qw*qx) = r21 x y z S C. Proof. unfold r21, qx, qy, qz, qw, S, C. nsatz. Qed.
Lemma quat_mat_22 : qw*qw - qx*qx - qy*qy + qz*qz = r22 z C. Proof. unfold r22, qx, qy, qz, qw, C. nsatz. Qed.
Lemma double_angle_consistent : S*S + C*C = 1. Proof. unfold S, C. nsatz. Qed.
End QuatMat.
