theories/Base.vo theories/Base.glob theories/Base.v.beautified theories/Base.required_vo: theories/Base.v 
theories/Base.vio: theories/Base.v 
theories/Base.vos theories/Base.vok theories/Base.required_vos: theories/Base.v 
theories/Sem.vo theories/Sem.glob theories/Sem.v.beautified theories/Sem.required_vo: theories/Sem.v theories/Base.vo
theories/Sem.vio: theories/Sem.v theories/Base.vio
theories/Sem.vos theories/Sem.vok theories/Sem.required_vos: theories/Sem.v theories/Base.vos
theories/Spec.vo theories/Spec.glob theories/Spec.v.beautified theories/Spec.required_vo: theories/Spec.v theories/Base.vo
theories/Spec.vio: theories/Spec.v theories/Base.vio
theories/Spec.vos theories/Spec.vok theories/Spec.required_vos: theories/Spec.v theories/Base.vos
theories/IntSpec.vo theories/IntSpec.glob theories/IntSpec.v.beautified theories/IntSpec.required_vo: theories/IntSpec.v theories/Base.vo theories/Spec.vo theories/Sem.vo
theories/IntSpec.vio: theories/IntSpec.v theories/Base.vio theories/Spec.vio theories/Sem.vio
theories/IntSpec.vos theories/IntSpec.vok theories/IntSpec.required_vos: theories/IntSpec.v theories/Base.vos theories/Spec.vos theories/Sem.vos
theories/AccessHist.vo theories/AccessHist.glob theories/AccessHist.v.beautified theories/AccessHist.required_vo: theories/AccessHist.v 
theories/AccessHist.vio: theories/AccessHist.v 
theories/AccessHist.vos theories/AccessHist.vok theories/AccessHist.required_vos: theories/AccessHist.v 
theories/Alg.vo theories/Alg.glob theories/Alg.v.beautified theories/Alg.required_vo: theories/Alg.v theories/Base.vo
theories/Alg.vio: theories/Alg.v theories/Base.vio
theories/Alg.vos theories/Alg.vok theories/Alg.required_vos: theories/Alg.v theories/Base.vos
theories/QuatAlg.vo theories/QuatAlg.glob theories/QuatAlg.v.beautified theories/QuatAlg.required_vo: theories/QuatAlg.v 
theories/QuatAlg.vio: theories/QuatAlg.v 
theories/QuatAlg.vos theories/QuatAlg.vok theories/QuatAlg.required_vos: theories/QuatAlg.v 
theories/RotAlg.vo theories/RotAlg.glob theories/RotAlg.v.beautified theories/RotAlg.required_vo: theories/RotAlg.v 
theories/RotAlg.vio: theories/RotAlg.v 
theories/RotAlg.vos theories/RotAlg.vok theories/RotAlg.required_vos: theories/RotAlg.v 
theories/ProjAlg.vo theories/ProjAlg.glob theories/ProjAlg.v.beautified theories/ProjAlg.required_vo: theories/ProjAlg.v 
theories/ProjAlg.vio: theories/ProjAlg.v 
theories/ProjAlg.vos theories/ProjAlg.vok theories/ProjAlg.required_vos: theories/ProjAlg.v 
theories/AlgR.vo theories/AlgR.glob theories/AlgR.v.beautified theories/AlgR.required_vo: theories/AlgR.v theories/Base.vo
theories/AlgR.vio: theories/AlgR.v theories/Base.vio
theories/AlgR.vos theories/AlgR.vok theories/AlgR.required_vos: theories/AlgR.v theories/Base.vos
theories/InterpAlg.vo theories/InterpAlg.glob theories/InterpAlg.v.beautified theories/InterpAlg.required_vo: theories/InterpAlg.v 
theories/InterpAlg.vio: theories/InterpAlg.v 
theories/InterpAlg.vos theories/InterpAlg.vok theories/InterpAlg.required_vos: theories/InterpAlg.v 
theories/FloorTrick.vo theories/FloorTrick.glob theories/FloorTrick.v.beautified theories/FloorTrick.required_vo: theories/FloorTrick.v 
theories/FloorTrick.vio: theories/FloorTrick.v 
theories/FloorTrick.vos theories/FloorTrick.vok theories/FloorTrick.required_vos: theories/FloorTrick.v 
theories/RoundTricks.vo theories/RoundTricks.glob theories/RoundTricks.v.beautified theories/RoundTricks.required_vo: theories/RoundTricks.v theories/FloorTrick.vo
theories/RoundTricks.vio: theories/RoundTricks.v theories/FloorTrick.vio
theories/RoundTricks.vos theories/RoundTricks.vok theories/RoundTricks.required_vos: theories/RoundTricks.v theories/FloorTrick.vos
theories/FloatTricks.vo theories/FloatTricks.glob theories/FloatTricks.v.beautified theories/FloatTricks.required_vo: theories/FloatTricks.v theories/Base.vo theories/Sem.vo theories/FloorTrick.vo theories/RoundTricks.vo
theories/FloatTricks.vio: theories/FloatTricks.v theories/Base.vio theories/Sem.vio theories/FloorTrick.vio theories/RoundTricks.vio
theories/FloatTricks.vos theories/FloatTricks.vok theories/FloatTricks.required_vos: theories/FloatTricks.v theories/Base.vos theories/Sem.vos theories/FloorTrick.vos theories/RoundTricks.vos
theories/Erase.vo theories/Erase.glob theories/Erase.v.beautified theories/Erase.required_vo: theories/Erase.v theories/Base.vo
theories/Erase.vio: theories/Erase.v theories/Base.vio
theories/Erase.vos theories/Erase.vok theories/Erase.required_vos: theories/Erase.v theories/Base.vos
theories/Modular.vo theories/Modular.glob theories/Modular.v.beautified theories/Modular.required_vo: theories/Modular.v theories/Base.vo
theories/Modular.vio: theories/Modular.v theories/Base.vio
theories/Modular.vos theories/Modular.vok theories/Modular.required_vos: theories/Modular.v theories/Base.vos
theories/FromMatAlg.vo theories/FromMatAlg.glob theories/FromMatAlg.v.beautified theories/FromMatAlg.required_vo: theories/FromMatAlg.v 
theories/FromMatAlg.vio: theories/FromMatAlg.v 
theories/FromMatAlg.vos theories/FromMatAlg.vok theories/FromMatAlg.required_vos: theories/FromMatAlg.v 
theories/UnitAlg.vo theories/UnitAlg.glob theories/UnitAlg.v.beautified theories/UnitAlg.required_vo: theories/UnitAlg.v 
theories/UnitAlg.vio: theories/UnitAlg.v 
theories/UnitAlg.vos theories/UnitAlg.vok theories/UnitAlg.required_vos: theories/UnitAlg.v 
