#!/bin/bash
# Build the framework from files on disk only (offline): translator, Coq library; then warm the caches
# (model of the current tree, correspondence drivers) so that the first check does not pay for them.
set -e
cd "$(dirname "$0")"
export CARGO_NET_OFFLINE=true
python3 - <<'PY'
import sys, concurrent.futures
sys.path.insert(0, '.')
from harness import core
with core.Lock():
    core.build_tools()
    print(core.translate())
    print(core.build_model())
def b(c):
    try: return c, core.build_driver(c)
    except Exception as e: return c, 'FAILED: %s' % str(e)[-400:]
with concurrent.futures.ThreadPoolExecutor(4) as ex:
    for c, r in ex.map(b, ['sse2', 'scalar', 'coresimd']): print(c, r)
PY
