"""C09, extraction direction (differential on the crate only, the oracle is the round trip): for every type with from_euler / to_euler and every
EulerRot order, from_euler(order, to_euler(order, from_euler(order, a, b, c))) must reproduce the rotation, including middle angles close to
the gimbal singularities (where the tolerance stays at the format's resolution because the reconstruction, unlike the angles, is well conditioned)."""
import math, random, struct
from . import core

TYPES = [('Mat3', 'f32', 9), ('Mat3A', 'f32', 9), ('Mat4', 'f32', 16), ('Quat', 'f32', 4), ('DMat3', 'f64', 9), ('DMat4', 'f64', 16), ('DQuat', 'f64', 4)]
REPEATED = {6, 7, 8, 9, 10, 11, 18, 19, 20, 21, 22, 23}      # positions of the proper-Euler orders in tools/driver/src/rt.rs EULER (ZYZ ZXZ YXY YZY XYX XZX and their Ex forms)

def enc(k, x): return struct.unpack('<I', struct.pack('<f', x))[0] if k == 'f32' else struct.unpack('<Q', struct.pack('<d', x))[0]
def dec(k, w): return struct.unpack('<f', struct.pack('<I', w & 0xffffffff))[0] if k == 'f32' else struct.unpack('<d', struct.pack('<Q', w))[0]

def run(idx, seed, per_order, cfg='sse2'):
    rr = random.Random(seed); fns = {f['key']: f for f in idx.fns(cfg)}; b = core.build_driver(cfg)
    stats = {'cfg': cfg, 'round_trips': 0, 'types': [], 'worst': {}, 'near_singular_cases': 0}; bad = []
    for tn, k, width in TYPES:
        fe = fns.get(tn + '::from_euler'); te = fns.get(tn + '::to_euler')
        if not fe or not te or fe['did'] is None or te['did'] is None: continue
        stats['types'].append(tn); cases = []
        deltas = [1e-2, 1e-3] + ([1e-5, 1e-6, 1e-7] if k == 'f64' else [])
        for order in range(24):
            for j in range(per_order):
                a = rr.uniform(-3.1, 3.1); c = rr.uniform(-3.1, 3.1)
                if j < len(deltas) * 2:
                    d = deltas[j // 2]; sg = 1 if j % 2 == 0 else -1
                    bb = (d if sg > 0 else math.pi - d) if order in REPEATED else sg * (math.pi / 2 - d); stats['near_singular_cases'] += 1
                else: bb = rr.uniform(0.05, 3.09) if order in REPEATED else rr.uniform(-1.52, 1.52)
                dist = min(abs(bb), abs(math.pi - bb)) if order in REPEATED else abs(math.pi / 2 - abs(bb))
                cases.append((order, a, bb, c, dist))
        l1 = ['%d %x %x %x %x' % (fe['did'], o, enc(k, a), enc(k, bb), enc(k, c)) for o, a, bb, c, _ in cases]
        r1 = core.run_driver(b, l1)
        l2 = ['%d %s %x' % (te['did'], ' '.join(x.split()[1:]), o) for x, (o, _, _, _, _) in zip(r1, cases)]
        if tn == 'Mat3A': l2 = ['%d %s %x' % (te['did'], ' '.join(w for i in range(3) for w in x.split()[1 + 3 * i:4 + 3 * i] + ['0']), o) for x, (o, _, _, _, _) in zip(r1, cases)]
        r2 = core.run_driver(b, l2)
        l3 = ['%d %x %s' % (fe['did'], o, ' '.join(y.split()[1:4])) for y, (o, _, _, _, _) in zip(r2, cases)]
        r3 = core.run_driver(b, l3)
        eps = 1.1920929e-07 if k == 'f32' else 2.220446049250313e-16; worst = 0.0
        for ci, ((o, a, bb, c, dist), x, y, z) in enumerate(zip(cases, r1, r2, r3)):
            tol = max(64 * eps, 16 * eps / max(dist, eps))      # the property: error no faster than epsilon / distance from the singularity
            stats['round_trips'] += 1
            if not (x.startswith('OK') and y.startswith('OK') and z.startswith('OK')): continue
            u = [dec(k, int(w, 16)) for w in x.split()[1:]]; v = [dec(k, int(w, 16)) for w in z.split()[1:]]
            if len(u) != len(v) or any(math.isnan(t) for t in u + v): continue
            err = max(abs(p - q) for p, q in zip(u, v))
            if width == 4: err = min(err, max(abs(p + q) for p, q in zip(u, v)))
            worst = max(worst, err / tol)
            if err > tol:
                bad.append(({'kind': 'counterexample', 'theorem': 'from_euler(order, to_euler(order, R)) = R', 'function': tn + '::to_euler', 'cfg': cfg, 'did': te['did'], 'input_words': l2[ci].split()[1:], 'distance_from_singularity': dist, 'order_index': o, 'angles': [a, bb, c],
                             'extracted': [dec(k, int(w, 16)) for w in y.split()[1:4]], 'reconstruction_error': err, 'tolerance': tol, 'how_found': 'round trip through the crate built from the working tree (no model involved)'}, True))
        stats['worst'][tn] = round(worst, 4)      # largest error / tolerance
    return stats, bad
