"""The common flow of a check: translate -> model -> lemmas -> correspondence -> search/replay -> evidence."""
import json, os, sys, time, traceback
from . import core
from .core import log

def known_findings():
    try: return json.load(open(core.VERIF + '/known_findings.json'))
    except OSError: return {'findings': [], 'fixed': []}

def search_counterexample(idx, lem, seed, n=600):
    """Evaluate both sides of a failed lemma on concrete inputs (IEEE / Z instance, vm_compute); return the first
    assignment on which they differ, or None."""
    g = core.Gen(seed); assigns = []
    # structured candidates first: every argument group (variables sharing a prefix letter) uniformly set to one special value, all pairs of
    # special values across the first two groups (this reaches MIN / -1, NaN vs number, x.5 ties ... in every lane at once)
    groups = {}
    for name, k in lem.vars: groups.setdefault(name.split('_')[0], []).append((name, k))
    def specials(k):
        if k == 'f32': return core.L32
        if k == 'f64': return core.L64
        if k == 'bool': return [0, 1]
        b = core.BITS[k]; sgn = k[0] == 'i'; lo, hi = (-(1 << (b - 1)), (1 << (b - 1)) - 1) if sgn else (0, (1 << b) - 1)
        return sorted(set([lo, hi, lo + 1, hi - 1, 0, 1, 2, 3, b - 1, b, max(lo, -1), max(lo, -2), hi // 2]))
    gl = list(groups.values())
    if gl and len(set(k for _, k in lem.vars)) <= 3:
        import itertools
        k0 = gl[0][0][1]; k1 = gl[1][0][1] if len(gl) > 1 else None
        combos = list(itertools.product(specials(k0), specials(k1) if k1 else [None]))
        g.r.shuffle(combos)
        for u, v in combos[:max(200, n // 2)]:
            a = []
            for name, k in lem.vars:
                grp = name.split('_')[0]
                if grp == gl[0][0][0].split('_')[0] and k == k0: a.append(u)
                elif k1 is not None and len(gl) > 1 and grp == gl[1][0][0].split('_')[0] and k == k1: a.append(v)
                else: a.append(g.f32() if k == 'f32' else g.f64() if k == 'f64' else g.bool() if k == 'bool' else g.int(k))
            assigns.append(a)
    for _ in range(n):
        a = []
        for name, k in lem.vars:
            if k == 'f32': a.append(g.f32())
            elif k == 'f64': a.append(g.f64())
            elif k == 'bool': a.append(g.bool())
            else: a.append(g.int(k))
        assigns.append(a)
    def lit(k, v):
        return '(ofb32 %d)' % v if k == 'f32' else '(ofb64 %d)' % v if k == 'f64' else ('true' if v else 'false') if k == 'bool' else '(%d)' % v
    binders = core.binders(lem.vars, getattr(lem, 'ops', 'O'))
    ty = getattr(lem, 'ty', 'res (valO O)'); outf = 'outb' if ty == 'bool' else 'out'
    imports = 'From Glam Require Import FloatTricks.\nOpen Scope Z_scope.\nDefinition outb (b:bool) : list Z := [if b then 1 else 0].\nDefinition cx_l (O:Ops) %s : %s := %s.\nDefinition cx_r (O:Ops) %s : %s := %s.\n' % (binders, ty, lem.lhs, binders, ty, lem.rhs)
    fmt = outf + ' (cx_l IEEEr %s) ++ [-777] ++ ' + outf + ' (cx_r IEEEr %s)'
    terms = [fmt % (' '.join(lit(k, v) for (_, k), v in zip(lem.vars, a)), ' '.join(lit(k, v) for (_, k), v in zip(lem.vars, a))) for a in assigns]
    res, errs = core.eval_model(terms, 'search_' + lem.name, imports=imports, chunk=100)
    # the implementation itself on the same inputs (when the function has a public entry point)
    crate = None; m = lem.meta; f = None
    try:
        if m.get('cfg') and m.get('did') and ty != 'bool' and not m.get('fixed'):
            f = next(x for x in idx.fns(m['cfg']) if x['i'] == m['did'])
            tys = ([f['self']] if f['has_self'] else []) + [p[1] for p in f['params']]
            lines = []
            for a in assigns:
                vals = iter(a); words = [w for t in tys for w in core.words_from_values(idx.structs(m['cfg']), idx.enums(m['cfg']), t, vals)]
                lines.append('%d %s' % (m['did'], ' '.join('%x' % (w & core.M64) for w in words)))
            crate = core.run_driver(core.build_driver(m['cfg']), lines)
            if len(crate) != len(assigns): crate = None
    except Exception as e:
        errs = list(errs) + ['crate search skipped: %r' % e]; crate = None
    first_model = None
    for j, (a, r) in enumerate(zip(assigns, res)):
        if r is None or -777 not in r: continue
        k = r.index(-777); l, rr = r[:k], r[k + 1:]
        asg = {n: ('%#x' % v if kk in ('f32', 'f64') else v) for (n, kk), v in zip(lem.vars, a)}
        if crate is not None and f is not None:
            ret = f['self'] if (f['self_mut'] and f['ret'] == 'unit') else f['ret']
            try:
                cs = core.canon_model(idx.structs(m['cfg']), idx.enums(m['cfg']), ret, rr); cd = core.canon_driver(idx.structs(m['cfg']), idx.enums(m['cfg']), ret, crate[j])
                if cs != cd and cs not in ('STUCK', 'SHORT', 'BAD', 'UB', 'FUEL'):
                    return {'assignment': asg, 'expected_by_spec': cs if isinstance(cs, str) else ['%s' % x for x in cs], 'impl_result': cd if isinstance(cd, str) else ['%s' % x for x in cd], 'model_lhs': l, 'confirmed_on_crate': True, 'cfg': m['cfg'], 'did': m['did'], 'function': f['key'], 'input_words': lines[j].split()[1:]}, errs
            except core.SymErr: pass
        if first_model is None and l != rr: first_model = {'assignment': asg, 'model_lhs': l, 'spec_rhs': rr}
    return first_model, errs

def confirm_on_crate(idx, lem, cx):
    """replay the failing assignment on the real crate through the driver"""
    m = lem.meta; cfg = m.get('cfg'); did = m.get('did')
    if not cfg or not did: return {'crate_replay': 'no public entry point for this function'}
    f = next(x for x in idx.fns(cfg) if x['i'] == did)
    tys = ([f['self']] if f['has_self'] else []) + [p[1] for p in f['params']]
    vals = iter([int(v, 16) if isinstance(v, str) else int(v) for v in cx['assignment'].values()])
    words = [w for t in tys for w in core.words_from_values(idx.structs(cfg), idx.enums(cfg), t, vals)]
    out = core.run_driver(core.build_driver(cfg), ['%d %s' % (did, ' '.join('%x' % w for w in words))])
    return {'cfg': cfg, 'did': did, 'function': f['key'], 'input_words': ['%x' % w for w in words], 'impl_result': out[0] if out else None, 'expected_by_spec': cx['spec_rhs']}

def canon_words(ws):
    return ws  # exact comparison: lemma sides are compared bit for bit (both computed by the same primitives)

def report(pid, tier, seed, t0, res):
    """res: dict with obligations, discharged, failures [(Lemma, err)], assumptions, corr (stats, bad), notes, extra coverage keys.
    Prints VIOLATION lines, writes evidence; returns exit code."""
    viol = []
    idx = res.get('idx')
    import glob
    for old in glob.glob('%s/replays/%s-*.json' % (core.VERIF, pid)):
        try: os.remove(old)
        except OSError: pass
    kf = known_findings(); known = [k for k in kf.get('findings', []) if k.get('property') == pid]
    fails = list(res['failures']); own = [x for x in fails if hasattr(x[0], 'search')]; nsearch = 8 if not own else min(len(fails), 64)
    res['failures'] = fails
    for lem, err in fails[:nsearch]:
        cx, errs = (None, [])
        if any(core_match(k, {'meta': lem.meta, 'theorem': lem.name}) for k in known):      # a listed finding: no search, it is reported as KNOWN-FINDING
            viol.append(({'kind': 'unproved', 'theorem': lem.name, 'statement': lem.statement()[:2000], 'meta': lem.meta, 'coq_error': err[-600:]}, False)); continue
        try: cx, errs = (lem.spot_cx, []) if getattr(lem, 'spot_cx', None) else lem.search(idx, seed) if hasattr(lem, 'search') else (None, ['no search for implication-shaped / IEEE-enumeration statements']) if (getattr(lem, 'raw_stmt', False) or getattr(lem, 'mode', None) == 'ieee') else search_counterexample(idx, lem, seed)
        except Exception as e: errs = ['search failed: %r' % e]
        obj = {'kind': 'counterexample' if cx else 'unproved', 'theorem': lem.name, 'statement': lem.statement()[:2000], 'meta': lem.meta, 'coq_error': err[-600:], 'how_found': 'lemma failed; both sides evaluated with the IEEE/Z instance under vm_compute on %s candidate inputs' % ('600'), 'search_errors': errs[:2]}
        if cx:
            obj.update(cx)
            try:
                if not cx.get('confirmed_on_crate'): obj.update(confirm_on_crate(idx, lem, cx))
            except Exception as e: obj['crate_replay_error'] = repr(e)[:300]
        viol.append((obj, cx is not None))
    for lem, err in fails[nsearch:]:
        viol.append(({'kind': 'unproved', 'theorem': lem.name, 'statement': lem.statement()[:2000], 'meta': lem.meta, 'coq_error': err[-600:], 'how_found': 'lemma failed (search limited to the first 8 failing lemmas)'}, False))
    cstats, cbad = res.get('corr', ({}, []))
    for b in cbad[:20]:
        viol.append((dict(b, kind='correspondence', theorem='model/implementation correspondence', how_found='differential run of the regenerated model (vm_compute, IEEE instance) against the crate built from the working tree'), False))
    for extra in res.get('extra_violations', []):
        viol.append(extra)
    # coverage against the recorded baseline: a function that used to be covered and no longer is, is an unproved obligation
    covered = sorted(set(res.get('covered_keys', [])))
    if covered:
        bp = '%s/coverage/%s.json' % (core.VERIF, pid)
        if os.environ.get('VERIF_RECORD_COVERAGE') == '1':
            os.makedirs(core.VERIF + '/coverage', exist_ok=True); json.dump({'property': pid, 'covered': covered, 'slow': res.get('slow_ids', [])}, open(bp, 'w'), indent=0)
        else:
            try: basec = set(json.load(open(bp))['covered'])
            except (OSError, ValueError, KeyError): basec = set()
            lost = sorted(basec - set(covered))
            for k in lost[:10]:
                viol.append(({'kind': 'unproved', 'theorem': 'coverage of %s' % k, 'function': k, 'how_found': 'the function is in the recorded coverage baseline of this property but is no longer covered (renamed, removed, or no longer translatable)'}, False))
            res.setdefault('notes', {})['lost_coverage'] = lost[:50]
    nviol = 0; nknown = 0
    for k in known:
        print('KNOWN-FINDING: property=%s %s' % (pid, k.get('what', '')))
    for obj, found in viol:
        if any(core_match(k, obj) for k in known):
            # a statement refuted by a listed finding is not an obligation of this run (it is reported above, with its witness)
            if obj.get('kind') == 'unproved' and obj.get('theorem', '').split('_')[0] not in ('coverage',): nknown += 1
            continue
        p = core.write_replay(pid, obj); nviol += 1
        print('VIOLATION property=%s replay=%s%s' % (pid, p, '' if found or obj.get('kind') == 'correspondence' and obj.get('input_words') else ' no-failing-input-found'))
    try: res.setdefault('assumptions', {}).update(core.lib_assumptions(pid))
    except Exception as e: res.setdefault('assumptions', {})['library theorems'] = 'FAILED TO CHECK: %r' % e
    seen, badax = core.check_assumptions(res.get('assumptions', {}))
    for b, ax in badax[:5]:
        p = core.write_replay(pid, {'kind': 'unproved', 'theorem': b, 'axiom': ax, 'how_found': 'Print Assumptions lists an axiom outside the allow-list'}); nviol += 1
        print('VIOLATION property=%s replay=%s no-failing-input-found' % (pid, p))
    hits = core.forbidden_scan()
    for h in hits[:5]:
        p = core.write_replay(pid, {'kind': 'unproved', 'theorem': h, 'how_found': 'forbidden construct in the development'}); nviol += 1
        print('VIOLATION property=%s replay=%s no-failing-input-found' % (pid, p))
    res.setdefault('notes', {})['statements_refuted_by_known_findings'] = nknown
    cov = {'obligations': res['obligations'] - nknown, 'discharged': res['discharged'], 'checker_cmd': 'coqc (Coq 8.16.1) on the regenerated model and lemma files; ./check %s %s' % (pid, tier),
           'trusted_base': res.get('trusted_base', []) + ['axioms reported by Print Assumptions in this run: ' + (', '.join(sorted(seen)) if seen else 'none (closed under the global context)')],
           'evaluations': cstats.get('calls', 0), 'distinct_nontrivial': cstats.get('distinct_inputs', 0), 'rule': res.get('rule', ''), 'samples': res.get('samples', []) + cstats.get('samples', []),
           'correspondence': {k: v for k, v in cstats.items() if k != 'samples'}, 'translator': res.get('translator', {}), 'notes': res.get('notes', {})}
    cov.update(res.get('coverage_extra', {}))
    core.write_evidence(pid, tier, seed, cov, res.get('assumptions_text', []), time.time() - t0, nviol)
    log('%s %s: %d/%d obligations, %d correspondence calls (%d disagree), %d violations, %.0fs' % (pid, tier, res['discharged'], res['obligations'] - nknown, cstats.get('calls', 0), cstats.get('disagree', 0), nviol, time.time() - t0))
    return 1 if nviol else 0

def core_match(k, obj):
    """does a known finding cover this violation? (by function key / theorem tag, never by property alone)"""
    tags = k.get('match', [])
    hay = json.dumps(obj.get('meta', {})) + ' ' + obj.get('theorem', '') + ' ' + obj.get('function', '')
    return bool(tags) and all(t in hay for t in tags)

def prepare():
    """translate /repo's working tree and compile the model (under the build lock); returns (index, info)"""
    with core.Lock():
        core.build_tools()
        info = core.translate()
        info.update(core.build_model())
    return core.Index(), info
