"""C20, first half (differential, not a proof): well-typed chains of precondition-carrying operations, fed with finite non-degenerate seeds and
with each operation's own outputs, executed step by step on the drivers built with and without glam-assert.  A step must not panic in the
glam-assert build (its inputs meet the documented preconditions by construction: every value of a `unit` kind was produced by an operation
whose result glam documents as normalised), and the two builds must return bit-identical words.

Values are kept as driver words.  Kinds: vec3 (any finite Vec3), uvec3 (unit Vec3), uquat (unit Quat), rmat3 (rotation Mat3), ang (finite f32
angle), t01 (f32 in [0,1])."""
import random, struct, math
from . import core

def f32w(x): return struct.unpack('<I', struct.pack('<f', x))[0]
def wf32(w): return struct.unpack('<f', struct.pack('<I', w & 0xffffffff))[0]

# (function key, [argument kinds], result kind or None).  Keys are the translator's keys (index.json).
OPS = [
    ('Vec3::normalize', ['vec3'], 'uvec3'),
    ('Vec3::any_orthonormal_vector', ['uvec3'], 'uvec3'),
    ('Vec3::cross', ['uvec3', 'uvec3'], 'vec3'),
    ('Quat::from_axis_angle', ['uvec3', 'ang'], 'uquat'),
    ('Quat::from_rotation_x', ['ang'], 'uquat'), ('Quat::from_rotation_y', ['ang'], 'uquat'), ('Quat::from_rotation_z', ['ang'], 'uquat'),
    ('Quat::from_euler', ['euler', 'ang', 'ang', 'ang'], 'uquat'),
    ('Quat::mul_quat', ['uquat', 'uquat'], 'uquat'),
    ('Quat::inverse', ['uquat'], 'uquat'), ('Quat::conjugate', ['uquat'], 'uquat'), ('Quat::normalize', ['uquat'], 'uquat'),
    ('Quat::slerp', ['uquat', 'uquat', 't01'], 'uquat'), ('Quat::lerp', ['uquat', 'uquat', 't01'], 'uquat'),
    ('Quat::rotate_towards', ['uquat', 'uquat', 'ang'], 'uquat'),
    ('Quat::from_rotation_arc', ['uvec3', 'uvec3'], 'uquat'),
    ('Quat::mul_vec3', ['uquat', 'vec3'], 'vec3'),
    ('Quat::to_euler', ['uquat', 'euler'], None),
    ('Quat::to_axis_angle', ['uquat'], None),
    ('Quat::angle_between', ['uquat', 'uquat'], 'ang'),
    ('Mat3::from_quat', ['uquat'], 'rmat3'), ('Mat3::from_axis_angle', ['uvec3', 'ang'], 'rmat3'),
    ('Quat::from_mat3', ['rmat3'], 'uquat'),
    ('Mat3::to_euler', ['rmat3', 'euler'], None),
    ('Vec3::project_onto_normalized', ['vec3', 'uvec3'], 'vec3'), ('Vec3::reject_from_normalized', ['vec3', 'uvec3'], 'vec3'),
    ('Vec3::reflect', ['vec3', 'uvec3'], 'vec3'),
    ('Vec3::rotate_towards', ['uvec3', 'uvec3', 'ang'], 'vec3'),      # C20 claims unit outputs for the quaternion forms only; vector slerp near opposite directions is held to epsilon / sin(angle) (C12), not to the is_normalized tolerance
    ('Vec3::slerp', ['uvec3', 'uvec3', 't01'], 'vec3'),
    ('Quat::look_to_rh', ['uvec3', 'uvec3'], 'uquat'), ('Quat::look_to_lh', ['uvec3', 'uvec3'], 'uquat'),
    ('Mat3::look_to_rh', ['uvec3', 'uvec3'], 'rmat3'),
]
WIDTH = {'vec3': 3, 'uvec3': 3, 'uquat': 4, 'rmat3': 9, 'ang': 1, 't01': 1, 'euler': 1}

def run(idx, seed, nchains, length, cfgs=('sse2', 'scalar'), prec='f32'):
    D = prec == 'f64'
    def enc(x): return struct.unpack('<Q', struct.pack('<d', x))[0] if D else f32w(x)
    def dec(w): return struct.unpack('<d', struct.pack('<Q', w))[0] if D else wf32(w)
    def key(kk): return ('D' + kk) if D else kk
    rr = random.Random(seed); stats = {'precision': prec, 'chains': nchains, 'length': length, 'steps': 0, 'configs': list(cfgs), 'ops': {}, 'panics_in_assert_build': 0, 'value_differences': 0, 'degenerate_skipped': 0}
    bad = []
    for cfg in cfgs:
        asrt = cfg + '+assert'
        fp = {f['key']: f for f in idx.fns(cfg)}; fa = {f['key']: f for f in idx.fns(asrt)}
        ops = [(key(o[0]), o[1], o[2]) for o in OPS if key(o[0]) in fp and key(o[0]) in fa and fp[key(o[0])]['did'] is not None and fa[key(o[0])]['did'] is not None]
        bp = core.build_driver(cfg); ba = core.build_driver(asrt)
        def seedval(kind):
            if kind == 'vec3':
                while True:
                    v = [rr.choice([1.0, -1.0]) * rr.choice([rr.uniform(0.05, 4.0), rr.uniform(1e-3, 1e3), rr.choice([0.0, 1.0, 2.0, 0.5])]) for _ in range(3)]
                    if sum(x * x for x in v) > 1e-6: return [enc(x) for x in v]
            if kind == 'ang': return [enc(rr.choice([rr.uniform(-6.3, 6.3), rr.uniform(-0.01, 0.01), math.pi * rr.choice([0.5, 1.0, -1.0, 2.0]), rr.uniform(0, 3.2)]))]
            if kind == 't01': return [enc(rr.choice([0.0, 1.0, 0.5, rr.random(), rr.random()]))]
            if kind == 'euler': return [rr.randrange(24)]
            return None
        pools = [{'vec3': [seedval('vec3') for _ in range(3)], 'ang': [], 't01': [], 'euler': [], 'uvec3': [], 'uquat': [], 'rmat3': []} for _ in range(nchains)]
        hist = [[] for _ in range(nchains)]; dead = [False] * nchains
        for step in range(length):
            calls = []
            for c in range(nchains):
                if dead[c]: continue
                pool = pools[c]
                def avail(k): return k in ('vec3', 'ang', 't01', 'euler') or bool(pool[k])
                cand = [o for o in ops if all(avail(k) for k in o[1])]
                if step < 2: cand = [o for o in cand if o[2] in ('uvec3', 'uquat')] or cand      # build up unit values first
                o = rr.choice(cand); words = []
                for attempt in range(8):
                    words = []; parts = []
                    for k in o[1]:
                        if k in ('ang', 't01', 'euler') or (k == 'vec3' and rr.random() < 0.3): w = seedval(k)
                        else: w = rr.choice(pool[k])
                        words += w; parts.append(w)
                    # view constructors need dir and up that are not (nearly) parallel, rotation arcs need non-opposite directions: stay inside the non-degenerate domain
                    if ('look_to' in o[0] or 'rotation_arc' in o[0]) and len(parts) == 2:
                        dp = sum(dec(x) * dec(y) for x, y in zip(parts[0], parts[1]))
                        if ('look_to' in o[0] and abs(dp) > 0.9) or ('rotation_arc' in o[0] and dp < -0.99): continue
                    break
                else:
                    o = next(x for x in ops if x[0].endswith('normalize') and x[1] == ['vec3']); words = seedval('vec3')
                calls.append((c, o, words))
            lp = ['%d %s' % (fp[o[0]]['did'], ' '.join('%x' % w for w in ws)) for _, o, ws in calls]
            la = ['%d %s' % (fa[o[0]]['did'], ' '.join('%x' % w for w in ws)) for _, o, ws in calls]
            op_ = core.run_driver(bp, lp); oa_ = core.run_driver(ba, la)
            for (c, o, ws), x, y in zip(calls, op_, oa_):
                stats['steps'] += 1; stats['ops'][o[0]] = stats['ops'].get(o[0], 0) + 1; hist[c].append((o[0], ['%x' % w for w in ws], x, y))
                if not x.startswith('OK'):      # the plain build itself panicked: a C18 matter, not a precondition question
                    bad.append(({'kind': 'counterexample', 'theorem': 'chain step must not panic without glam-assert', 'function': o[0], 'cfg': cfg, 'did': fp[o[0]]['did'], 'input_words': ['%x' % w for w in ws], 'plain_build': x, 'chain': hist[c][-6:], 'how_found': 'chain run'}, True)); dead[c] = True; continue
                outw = [int(t, 16) for t in x.split()[1:]]
                vals = [dec(w) for w in outw]
                degenerate = any(math.isnan(v) or math.isinf(v) for v in vals)
                if degenerate:      # e.g. from_rotation_arc of exactly opposite inputs is fine, but a NaN result means the step left the documented domain: drop the chain
                    stats['degenerate_skipped'] += 1; dead[c] = True; continue
                if not y.startswith('OK'):
                    stats['panics_in_assert_build'] += 1
                    bad.append(({'kind': 'counterexample', 'theorem': 'a valid chain must not trip a glam_assert', 'function': o[0], 'cfg': cfg, 'did': fp[o[0]]['did'], 'input_words': ['%x' % w for w in ws], 'plain_build': x, 'assert_build': y,
                                 'chain': hist[c][-6:], 'how_found': 'chain of %d precondition-carrying operations on outputs of glam itself, glam-assert build' % (step + 1)}, True)); dead[c] = True; continue
                if x != y:
                    stats['value_differences'] += 1
                    bad.append(({'kind': 'counterexample', 'theorem': 'glam-assert must not change a returned value', 'function': o[0], 'cfg': cfg, 'did': fp[o[0]]['did'], 'input_words': ['%x' % w for w in ws], 'plain_build': x, 'assert_build': y, 'how_found': 'chain run'}, True)); dead[c] = True; continue
                if o[2] and len(outw) == WIDTH[o[2]]:
                    pools[c][o[2]].append(outw)
                    if len(pools[c][o[2]]) > 6: pools[c][o[2]].pop(0)
    return stats, bad
