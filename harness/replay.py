"""./check Cxx --replay file : print the replay record and, when it carries driver input words, re-run that call on the crate built from the current tree."""
import json
from . import core
def main(pid, path):
    d = json.load(open(path)); print(json.dumps(d, indent=1)[:6000])
    cfg = d.get('cfg') or d.get('meta', {}).get('cfg'); did = d.get('did') or d.get('meta', {}).get('did'); words = d.get('input_words')
    if cfg and did and words:
        with core.Lock():
            core.build_tools(); core.translate()
        b = core.build_driver(cfg); out = core.run_driver(b, ['%d %s' % (did, ' '.join(words))])
        print('current tree (%s): %s' % (cfg, out))
    return 0
