"""./check Cxx --replay file : print the replay record and, when it carries driver input words, re-run that call on the crate built from the current tree."""
import json
from . import core
def main(pid, path):
    d = json.load(open(path)); print(json.dumps(d, indent=1)[:6000])
    cfg = d.get('cfg') or d.get('meta', {}).get('cfg'); did = d.get('did') or d.get('meta', {}).get('did'); words = d.get('input_words')
    if cfg and did and words:
        with core.Lock():
            core.build_tools(); core.translate()
        b = core.build_driver(cfg); out = core.run_driver(b, ['%d %s' % (did, ' '.join(words))])
        print('current tree (%s): %s' % (cfg, out))
        if 'assert_build' in d:      # C20: the same call on the build with glam-assert
            idx = core.Index(); key = d.get('function') or d.get('meta', {}).get('key')
            fa = next((f for f in idx.fns(cfg + '+assert') if f['key'] == key), None)
            if fa is not None and fa['did'] is not None:
                print('current tree (%s): %s' % (cfg + '+assert', core.run_driver(core.build_driver(cfg + '+assert'), ['%d %s' % (fa['did'], ' '.join(words))])))
    return 0
