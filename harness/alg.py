"""Algebraic (F2) lemmas: the translated code, run with both float kinds interpreted in an arbitrary field K, computes a
stated polynomial / rational function.  Statements are generated here from reference formulas (Leibniz determinant,
cofactors, Hamilton product, ...) that do not look at the code; proofs are `vm_compute` + `ring` / `field`."""
import itertools
from . import core
from .core import sym, tree_coq, tree_leaves, tree_fill, ty_shape, tname, SymErr

BOILER = r'''From Glam Require Import Base Spec Alg.
From Gen Require Import Table.
From Coq Require Import ZArith List String Bool Field.
Import ListNotations.
Section S.
Variable O0 : Ops.
Variable K : Type. Variables (k0 k1 : K) (kadd kmul ksub kdiv : K -> K -> K) (kopp kinv : K -> K).
Variable Kth : field_theory k0 k1 kadd kmul ksub kopp kdiv kinv (@eq K).
Add Field Kf : Kth.
Variable k_un : fop1 -> K -> K. Variable k_bin : fop2 -> K -> K -> K. Variable k_cmp : fcmp -> K -> K -> bool. Variable k_pred : fpred -> K -> bool.
Variables lit32 lit64 : Z -> K.
Hypothesis lit32_0 : lit32 0 = k0. Hypothesis lit32_1 : lit32 1065353216 = k1. Hypothesis lit32_m1 : lit32 3212836864 = kopp k1. Hypothesis lit32_2 : lit32 1073741824 = kadd k1 k1.
Hypothesis lit64_0 : lit64 0 = k0. Hypothesis lit64_1 : lit64 4607182418800017408 = k1. Hypothesis lit64_m1 : lit64 13830554455654793216 = kopp k1. Hypothesis lit64_2 : lit64 4611686018427387904 = kadd k1 k1.
Hypothesis lit32_half : kmul (kadd k1 k1) (lit32 1056964608) = k1. Hypothesis lit64_half : kmul (kadd k1 k1) (lit64 4602678819172646912) = k1.
(* sign-bit tricks of the SIMD backends: xor / and-not with the constant -0.0 *)
Hypothesis xor_sign_r : forall x, k_bin FXor x (lit32 2147483648) = kopp x. Hypothesis xor_sign_l : forall x, k_bin FXor (lit32 2147483648) x = kopp x.
Definition a1 (o : fop1) : K -> K := match o with FNeg => kopp | FRecipStd => kinv | o => k_un o end.
Definition a2 (o : fop2) : K -> K -> K := match o with FAdd => kadd | FSub => ksub | FMul => kmul | FDiv => kdiv | o => k_bin o end.
Definition OA : Ops := {|
  F32 := K; F64 := K;
  f32_1 := a1; f32_2 := a2; f32_3 := fun _ a b c => kadd (kmul a b) c; f32_cmp := k_cmp; f32_pred := k_pred; f32_of_bits := lit32; f32_to_bits := fun _ => 0%Z;
  f64_1 := a1; f64_2 := a2; f64_3 := fun _ a b c => kadd (kmul a b) c; f64_cmp := k_cmp; f64_pred := k_pred; f64_of_bits := lit64; f64_to_bits := fun _ => 0%Z;
  f32_cvtt_i32 := fun _ => 0%Z; f32_of_i32 := fun _ => k0; f32_to_int := fun _ _ => 0%Z; f64_to_int := fun _ _ => 0%Z; f32_of_int := fun _ _ => k0; f64_of_int := fun _ _ => k0;
  f32_to_f64 := fun x => x; f64_to_f32 := fun x => x;
  i_1 := i_1 O0; i_2 := i_2 O0; i_checked := i_checked O0; i_cmp := i_cmp O0; i_cast := i_cast O0; i_shl := i_shl O0; i_shr := i_shr O0;
  i_mixed := i_mixed O0; i_mixed_checked := i_mixed_checked O0; i_isneg := i_isneg O0; i_try := i_try O0 |}.
Declare Scope K_scope. Delimit Scope K_scope with K.
Infix "+" := kadd : K_scope. Infix "*" := kmul : K_scope. Infix "-" := ksub : K_scope. Infix "/" := kdiv : K_scope. Notation "- x" := (kopp x) : K_scope.
Ltac lits := rewrite ?lit32_0, ?lit32_1, ?lit32_m1, ?lit32_2, ?lit64_0, ?lit64_1, ?lit64_m1, ?lit64_2, ?xor_sign_r, ?xor_sign_l.
Ltac alg_ring := intros; vm_compute; lits; lanes_with ltac:(ring).
(* rational functions: the side conditions of [field] (the code's own denominators) follow from the hypothesis H : det <> k0 *)
Ltac side_nz := repeat split; let Hc := fresh "Hc" in (intro Hc; match goal with H : _ <> k0 |- _ => apply H end; rewrite <- Hc; ring).
Ltac alg_field := intros; vm_compute; lits; lanes_with ltac:(field; side_nz).
'''

class AlgLemma(core.Lemma):
    """forall (vars : K) [hyps], lhs = rhs   inside the section of BOILER"""
    def __init__(self, name, vars_, lhs, rhs, hyps=(), tactic='alg_ring', meta=None):
        super().__init__(name, vars_, lhs, rhs, tactic=tactic, meta=meta); self.hyps = list(hyps)
    def statement(self):
        fa = ('forall %s, ' % ' '.join('(%s : K)' % n for n, _ in self.vars)) if self.vars else ''
        return fa + ''.join('%s -> ' % h for h in self.hyps) + '%s = %s' % (self.lhs, self.rhs)
    def text(self):
        return 'Lemma %s : %s.\nProof. Timeout %d (%s). Qed.' % (self.name, self.statement(), core.LEMMA_TIMEOUT[0], self.tactic)

FOOTER = 'End S.\n'

# ---- reference formulas over leaf names (strings), all in scope K
def P(*xs): return '(' + ' * '.join(xs) + ')%K'
def S(xs):
    if not xs: return 'k0'
    return '(' + ' + '.join(xs) + ')%K'
def perm_sign(p):
    s = 1
    for i in range(len(p)):
        for j in range(i + 1, len(p)):
            if p[i] > p[j]: s = -s
    return s
def det(M):
    """Leibniz determinant of a square matrix of term strings; M[r][c]"""
    n = len(M); terms = []
    for p in itertools.permutations(range(n)):
        t = '(' + ' * '.join(M[r][p[r]] for r in range(n)) + ')'
        terms.append(t if perm_sign(p) > 0 else '(- %s)' % t)
    return '(' + ' + '.join(terms) + ')%K'
def minor(M, r, c): return [[M[i][j] for j in range(len(M)) if j != c] for i in range(len(M)) if i != r]
def cofactor(M, r, c):
    if len(M) == 1: return 'k1'
    d = det(minor(M, r, c)); return d if (r + c) % 2 == 0 else '(- %s)%%K' % d
