"""Algebraic (F2) lemmas: the translated code, run with both float kinds interpreted in an arbitrary field K, computes a
stated polynomial / rational function.  Statements are generated here from reference formulas (Leibniz determinant,
cofactors, Hamilton product, ...) that do not look at the code; proofs are `vm_compute` + `ring` / `field`."""
import itertools
from . import core
from .core import sym, tree_coq, tree_leaves, tree_fill, ty_shape, tname, SymErr

BOILER = r'''From Glam Require Import Base Spec Sem Alg.
From Gen Require Import Table.
From Coq Require Import ZArith List String Bool Field.
Import ListNotations.
Section S.
Variable O0 : Ops.
Variable K : Type. Variables (k0 k1 : K) (kadd kmul ksub kdiv : K -> K -> K) (kopp kinv : K -> K).
Variable Kth : field_theory k0 k1 kadd kmul ksub kopp kdiv kinv (@eq K).
Add Field Kf : Kth.
Variable k_un : fop1 -> K -> K. Variable k_bin : fop2 -> K -> K -> K. Variable k_cmp : fcmp -> K -> K -> bool. Variable k_pred : fpred -> K -> bool.
Variables lit32 lit64 : Z -> K.
Hypothesis lit32_0 : lit32 0 = k0. Hypothesis lit32_1 : lit32 1065353216 = k1. Hypothesis lit32_m1 : lit32 3212836864 = kopp k1. Hypothesis lit32_2 : lit32 1073741824 = kadd k1 k1.
Hypothesis lit64_0 : lit64 0 = k0. Hypothesis lit64_1 : lit64 4607182418800017408 = k1. Hypothesis lit64_m1 : lit64 13830554455654793216 = kopp k1. Hypothesis lit64_2 : lit64 4611686018427387904 = kadd k1 k1.
Hypothesis lit32_m2 : lit32 3221225472 = kopp (kadd k1 k1). Hypothesis lit64_m2 : lit64 13835058055282163712 = kopp (kadd k1 k1).
Hypothesis lit32_nz : lit32 2147483648 = k0. Hypothesis lit64_nz : lit64 9223372036854775808 = k0.      (* -0.0 is zero as a field element *)
Hypothesis lit32_half : kmul (kadd k1 k1) (lit32 1056964608) = k1. Hypothesis lit64_half : kmul (kadd k1 k1) (lit64 4602678819172646912) = k1.
(* the trigonometric oracles are odd / even (true of sin and cos over the reals) *)
Hypothesis sin_opp : forall x, k_un FSin (kopp x) = kopp (k_un FSin x). Hypothesis cos_opp : forall x, k_un FCos (kopp x) = k_un FCos x.
Hypothesis sin_opp_mul : forall x y, k_un FSin (kmul (kopp x) y) = kopp (k_un FSin (kmul x y)). Hypothesis cos_opp_mul : forall x y, k_un FCos (kmul (kopp x) y) = k_un FCos (kmul x y).
(* carrier: a field element, or a literal that has not been used arithmetically yet (so that the sign-bit tricks of the SIMD
   backends - xor / and / andnot with the constants -0.0, +0.0, 0x7fffffff - can be interpreted on the literal's bits; the
   real numbers cannot tell -0.0 from +0.0) *)
Inductive kv := KX (x : K) | KL32 (b : Z) | KL64 (b : Z).
Definition kval (v : kv) : K := match v with KX x => x | KL32 b => lit32 b | KL64 b => lit64 b end.
Definition is_negzero (v : kv) : bool := match v with KL32 b => Z.eqb b 2147483648 | KL64 b => Z.eqb b 9223372036854775808 | KX _ => false end.
Definition is_poszero (v : kv) : bool := match v with KL32 b | KL64 b => Z.eqb b 0 | KX _ => false end.
Definition a1 (o : fop1) (a : kv) : kv := KX (match o with FNeg => kopp (kval a) | FRecipStd => kinv (kval a) | o => k_un o (kval a) end).
Definition a2 (o : fop2) (a b : kv) : kv :=
  match o with
  | FAdd => KX (kadd (kval a) (kval b)) | FSub => KX (ksub (kval a) (kval b)) | FMul => KX (kmul (kval a) (kval b)) | FDiv => KX (kdiv (kval a) (kval b))
  | FXor => if is_negzero b then KX (kopp (kval a)) else if is_negzero a then KX (kopp (kval b)) else if is_poszero b then a else if is_poszero a then b else KX (k_bin o (kval a) (kval b))
  | o => KX (k_bin o (kval a) (kval b)) end.
Definition OA : Ops := {|
  F32 := kv; F64 := kv;
  f32_1 := a1; f32_2 := a2; f32_3 := fun _ a b c => KX (kadd (kmul (kval a) (kval b)) (kval c)); f32_cmp := fun c a b => k_cmp c (kval a) (kval b); f32_pred := fun p a => k_pred p (kval a); f32_of_bits := KL32; f32_to_bits := fun _ => 0%Z;
  f64_1 := a1; f64_2 := a2; f64_3 := fun _ a b c => KX (kadd (kmul (kval a) (kval b)) (kval c)); f64_cmp := fun c a b => k_cmp c (kval a) (kval b); f64_pred := fun p a => k_pred p (kval a); f64_of_bits := KL64; f64_to_bits := fun _ => 0%Z;
  f32_cvtt_i32 := fun _ => 0%Z; f32_of_i32 := fun _ => KX k0; f32_to_int := fun _ _ => 0%Z; f64_to_int := fun _ _ => 0%Z; f32_of_int := fun _ _ => KX k0; f64_of_int := fun _ _ => KX k0;
  f32_to_f64 := fun x => KX (kval x); f64_to_f32 := fun x => KX (kval x);
  i_1 := zi_1 false; i_2 := zi_2 false; i_checked := zi_checked; i_cmp := zi_cmp; i_cast := fun _ b z => wrap b z; i_shl := zi_shl false; i_shr := zi_shr false;
  i_mixed := zi_mixed; i_mixed_checked := zi_mixed_checked; i_isneg := fun _ z => Z.ltb z 0; i_try := fun _ b z => if inr b z then Some z else None |}.
(* results are compared after reading every remaining literal as a field element *)
Fixpoint normv (v : valO OA) : valO OA :=
  match v with
  | VF32 x => VF32 (KX (kval x)) | VF64 x => VF64 (KX (kval x))
  | VT l => VT ((fix go (l : list (valO OA)) : list (valO OA) := match l with [] => [] | x :: t => normv x :: go t end) l)
  | VOpt (Some x) => VOpt (Some (normv x)) | v => v end.
Definition rnorm (r : res (valO OA)) : res (valO OA) := match r with Ok v => Ok (normv v) | e => e end.
Declare Scope K_scope. Delimit Scope K_scope with K.
Infix "+" := kadd : K_scope. Infix "*" := kmul : K_scope. Infix "-" := ksub : K_scope. Infix "/" := kdiv : K_scope. Notation "- x" := (kopp x) : K_scope.
Ltac lits := rewrite ?lit32_m2, ?lit64_m2, ?lit32_nz, ?lit64_nz, ?lit32_0, ?lit32_1, ?lit32_m1, ?lit32_2, ?lit64_0, ?lit64_1, ?lit64_m1, ?lit64_2, ?sin_opp, ?cos_opp, ?sin_opp_mul, ?cos_opp_mul.
Ltac lanes_k tac :=
  repeat match goal with
  | |- Ok _ = Ok _ => f_equal | |- VT _ = VT _ => f_equal | |- VOpt _ = VOpt _ => f_equal | |- Some _ = Some _ => f_equal | |- _ :: _ = _ :: _ => f_equal
  | |- VF32 _ = VF32 _ => f_equal | |- VF64 _ = VF64 _ => f_equal | |- KX _ = KX _ => f_equal; tac
  | |- [] = [] => reflexivity | |- VUnit = VUnit => reflexivity end.
Ltac alg_ring := intros; vm_compute; lits; lanes_k ltac:(ring).
(* rational functions: the side conditions of [field] (the code's own denominators) follow from the hypotheses H : d <> k0 *)
Ltac side_nz := repeat split; let Hc := fresh "Hc" in (intro Hc; match goal with H : _ <> k0 |- _ => apply H; rewrite <- Hc; ring | H : _ <> k0 |- _ => apply H; exact Hc end).
(* uninterpreted functions (sqrt) of arguments that agree as polynomials *)
(* arguments of uninterpreted functions (sqrt, sin, ...) that agree as polynomials are made syntactically equal and abstracted to variables, innermost
   first, one function application at a time (nested normalisations: sqrt of an expression that itself contains 1 / sqrt ...); division is x * /y *)
Ltac no_un a := lazymatch a with context[k_un _ _] => fail | _ => idtac end.
Ltac layer1 := match goal with |- context[k_un ?o ?a] => no_un a; repeat (match goal with |- context[k_un o ?b] => no_un b; (lazymatch a with b => fail | _ => replace b with a by (rewrite ?(Fdiv_def Kth); ring) end) end); (let r := fresh "r" in set (r := k_un o a) in * ) end.
Ltac norm_layers := repeat layer1.
Ltac ring_div := norm_layers; rewrite ?(Fdiv_def Kth); ring.
Ltac congr_ring := first [ring | ring_div | (progress f_equal; congr_ring)].      (* progress: an unprovable leaf must fail, not loop *)
Ltac congr_ring_p := congr_ring.
Ltac alg_congr := intros; vm_compute; lits; lanes_k ltac:(congr_ring).
Ltac alg_field := intros; vm_compute; lits; lanes_k ltac:(field; side_nz).
'''

class AlgLemma(core.Lemma):
    """forall (vars : K) [hyps], lhs = rhs   inside the section of BOILER"""
    def __init__(self, name, vars_, lhs, rhs, hyps=(), tactic='alg_ring', meta=None):
        super().__init__(name, vars_, lhs, rhs, tactic=tactic, meta=meta); self.hyps = list(hyps)
    def statement(self):
        fa = ('forall %s, ' % ' '.join('(%s : K)' % n for n, _ in self.vars)) if self.vars else ''
        return fa + ''.join('%s -> ' % h for h in self.hyps) + '%s = %s' % (self.lhs, self.rhs)
    def text(self):
        return 'Lemma %s : %s.\nProof. Timeout %d (%s). Qed.' % (self.name, self.statement(), core.LEMMA_TIMEOUT[0], self.tactic)

def cond_tac(fin='congr_ring_p'):
    """proof script for a lemma whose hypotheses fix the outcome of the comparisons / predicates the code branches on: each stuck test of
    the goal is identified (up to `ring` on its operands) with a hypothesis and rewritten, then evaluation continues"""
    return ("intros; vm_compute; lits; repeat (first ["
            "match goal with H : k_cmp ?c ?xs ?ys = ?b |- context[k_cmp ?c ?x ?y] => "
            "let E1 := fresh in let E2 := fresh in assert (E2 : y = ys) by (first [reflexivity | congr_ring_p]); assert (E1 : x = xs) by (first [reflexivity | congr_ring_p]); "
            "try (progress rewrite E1); try (progress rewrite E2); rewrite H; clear E1 E2 end | "
            "match goal with H : k_pred ?c ?xs = ?b |- context[k_pred ?c ?x] => "
            "let E1 := fresh in assert (E1 : x = xs) by (first [reflexivity | congr_ring_p]); try (progress rewrite E1); rewrite H; clear E1 end]; vm_compute; lits); lanes_k ltac:(%s)" % fin)
BOILER_MOD = BOILER.replace('Import Base Spec Sem Alg.', 'Import Base Spec Sem Alg Modular.')
def cmp_hyp(c, a, b, val): return 'k_cmp %s %s %s = %s' % (c, a, b, 'true' if val else 'false')
def pred_hyp(p, a, val): return 'k_pred %s %s = %s' % (p, a, 'true' if val else 'false')

FOOTER = 'End S.\n'

# ---- reference formulas over leaf names (strings), all in scope K
def P(*xs): return '(' + ' * '.join(xs) + ')%K'
def S(xs):
    if not xs: return 'k0'
    return '(' + ' + '.join(xs) + ')%K'
def perm_sign(p):
    s = 1
    for i in range(len(p)):
        for j in range(i + 1, len(p)):
            if p[i] > p[j]: s = -s
    return s
def det(M):
    """Leibniz determinant of a square matrix of term strings; M[r][c]"""
    n = len(M); terms = []
    for p in itertools.permutations(range(n)):
        t = '(' + ' * '.join(M[r][p[r]] for r in range(n)) + ')'
        terms.append(t if perm_sign(p) > 0 else '(- %s)' % t)
    return '(' + ' + '.join(terms) + ')%K'
def minor(M, r, c): return [[M[i][j] for j in range(len(M)) if j != c] for i in range(len(M)) if i != r]
def cofactor(M, r, c):
    if len(M) == 1: return 'k1'
    d = det(minor(M, r, c)); return d if (r + c) % 2 == 0 else '(- %s)%%K' % d

import re as _re
def kxargs(args):
    """argument terms: every float leaf `VF32 name` becomes `VF32 (KX name)` (variables range over the field)"""
    return [_re.sub(r'VF(32|64) ([A-Za-z_][A-Za-z_0-9]*)', r'VF\1 (KX \2)', a) for a in args]
def kxl(lanes): return ['(KX %s)' % l for l in lanes]

# ------------------------------------------------------------------ numeric search for a failed algebraic lemma
# The reference formula (right-hand side, hypotheses) is evaluated in double precision on small dyadic inputs and compared with what the
# crate built from the working tree returns for the same call; a lane that differs by more than the tolerance is a failing input.
import math as _math, struct as _struct, random as _random

class _P:
    """parser for the formula fragment used in the reference formulas: + - * / unary -, parentheses, %K, k0 k1, KX e, lit32 n, lit64 n,
    k_un OP e, k_bin OP e e"""
    def __init__(self, s): self.t = _re.findall(r'[A-Za-z_][A-Za-z_0-9\']*|\d+|[()+\-*/]|%K', s); self.i = 0
    def peek(self): return self.t[self.i] if self.i < len(self.t) else None
    def next(self): x = self.peek(); self.i += 1; return x
    def expr(self):
        v = self.term()
        while self.peek() in ('+', '-'):
            o = self.next(); w = self.term(); v = ('+', v, w) if o == '+' else ('-', v, w)
        return v
    def term(self):
        v = self.factor()
        while self.peek() in ('*', '/'):
            o = self.next(); w = self.factor(); v = (o, v, w)
        return v
    def factor(self):
        if self.peek() == '-': self.next(); return ('neg', self.factor())
        return self.atom()
    def atom(self):
        x = self.next()
        if x == '(':
            if self.peek() in ('k_un', 'k_bin', 'lit32', 'lit64', 'KX', 'kadd', 'kmul', 'ksub', 'kdiv', 'kopp', 'kinv'): v = self.app()
            else: v = self.expr()
            if self.next() != ')': raise ValueError('paren')
            if self.peek() == '%K': self.next()
            return v
        if x in ('k_un', 'k_bin', 'lit32', 'lit64', 'KX'): self.i -= 1; return self.app()
        if x == 'k0': return ('c', 0.0)
        if x == 'k1': return ('c', 1.0)
        if x is None: raise ValueError('eof')
        if x.isdigit(): return ('c', float(x))
        return ('v', x)
    def app(self):
        h = self.next()
        if h == 'KX': return self.atom()
        if h in ('lit32', 'lit64'): n = int(self.next()); return ('c', _struct.unpack('<f', _struct.pack('<I', n))[0] if h == 'lit32' else _struct.unpack('<d', _struct.pack('<Q', n))[0])
        if h == 'k_un': o = self.next(); return ('un', o, self.atom())
        if h == 'k_bin': o = self.next(); a = self.atom(); return ('bin', o, a, self.atom())
        if h in ('kadd', 'kmul', 'ksub', 'kdiv'): a = self.atom(); return ({'kadd': '+', 'kmul': '*', 'ksub': '-', 'kdiv': '/'}[h], a, self.atom())
        if h == 'kopp': return ('neg', self.atom())
        if h == 'kinv': return ('/', ('c', 1.0), self.atom())
        raise ValueError('app ' + str(h))

def _ev(e, env):
    k = e[0]
    if k == 'c': return e[1]
    if k == 'v': return env[e[1]]
    if k == 'neg': return -_ev(e[1], env)
    if k in '+-*/':
        a = _ev(e[1], env); b = _ev(e[2], env)
        return a + b if k == '+' else a - b if k == '-' else a * b if k == '*' else (a / b if b != 0 else _math.copysign(_math.inf, a) if a != 0 else _math.nan)
    if k == 'un':
        x = _ev(e[2], env); o = e[1]
        f = {'FSqrt': lambda x: _math.sqrt(x) if x >= 0 else _math.nan, 'FSin': _math.sin, 'FCos': _math.cos, 'FTan': _math.tan, 'FAbs': abs, 'FSignum': lambda x: _math.copysign(1.0, x),
             'FAcos': lambda x: _math.acos(max(-1.0, min(1.0, x))), 'FAsin': lambda x: _math.asin(max(-1.0, min(1.0, x))), 'FExp': _math.exp, 'FFloor': _math.floor, 'FCeil': _math.ceil, 'FTrunc': _math.trunc}.get(o)
        if f is None: raise ValueError('un ' + o)
        return f(x)
    if k == 'bin':
        a = _ev(e[2], env); b = _ev(e[3], env); o = e[1]
        if o == 'FAtan2': return _math.atan2(a, b)
        if o == 'FCopysign': return _math.copysign(a, b)
        if o in ('FMinStd', 'FMinSse'): return min(a, b)
        if o in ('FMaxStd', 'FMaxSse'): return max(a, b)
        raise ValueError('bin ' + o)
    raise ValueError(k)

_CMP = {'FLt': lambda a, b: a < b, 'FLe': lambda a, b: a <= b, 'FGt': lambda a, b: a > b, 'FGe': lambda a, b: a >= b, 'FEq': lambda a, b: a == b, 'FNe': lambda a, b: a != b}
def _hyp_ok(h, env):
    """hypotheses of the forms `E <> k0` and `k_cmp C E1 E2 = true|false`"""
    m = _re.fullmatch(r'\s*k_cmp (\w+) (.*) = (true|false)\s*', h)
    if m:
        p = _P(m.group(2)); a = p.atom(); b = p.atom(); return _CMP[m.group(1)](_ev(a, env), _ev(b, env)) == (m.group(3) == 'true')
    m = _re.fullmatch(r'\s*k_pred (\w+) (.*) = (true|false)\s*', h)
    if m:
        x = _ev(_P(m.group(2)).atom(), env); r = {'FIsFinite': _math.isfinite(x), 'FIsNan': _math.isnan(x), 'FSignBit': _math.copysign(1.0, x) < 0}[m.group(1)]
        return r == (m.group(3) == 'true')
    m = _re.fullmatch(r'\s*(.*) <> k0\s*', h)
    if m: return abs(_ev(_P(m.group(1)).expr(), env)) > 1e-3
    raise ValueError('hyp ' + h)

def _lanes_of_rhs(rhs):
    """the lane expressions of `Ok (...)`: every maximal `(KX ...)` group in order"""
    out = []; i = 0
    while True:
        j = rhs.find('(KX ', i)
        if j < 0: break
        d = 0; k = j
        while True:
            if rhs[k] == '(': d += 1
            elif rhs[k] == ')':
                d -= 1
                if d == 0: break
            k += 1
        out.append(rhs[j + 4:k]); i = k + 1
    return out

def numeric_search(lem, idx, seed, n=160):
    m = lem.meta; cfg = m.get('cfg'); errs = []
    if not cfg or not m.get('did') or m.get('fixed'): return None, ['no public entry point for the numeric search']
    f = next((x for x in idx.fns(cfg) if x['i'] == m['did']), None)
    if f is None or f['by_ref'] or f['generic']: return None, ['no public entry point for the numeric search']
    try: lanes = [_P(x).expr() for x in _lanes_of_rhs(lem.rhs)]
    except ValueError as e: return None, ['reference formula not evaluable: %r' % e]
    if not lanes: return None, ['no lanes in the reference formula']
    structs = idx.structs(cfg); enums = idx.enums(cfg)
    tys = ([f['self']] if f['has_self'] else []) + [p[1] for p in f['params']]
    ret = f['self'] if (f['self_mut'] and f['ret'] == 'unit') else f['ret']
    rr = _random.Random(seed); cands = []
    pool = [0.0, 1.0, -1.0, 2.0, -2.0, 3.0, 0.5, -0.5, 1.5, -3.0, 4.0, 0.25, 5.0, -1.5, 0.75, -0.25]
    for _ in range(n * 6):
        if len(cands) >= n: break
        env = {nm: rr.choice(pool) for nm, k in lem.vars}
        try:
            if not all(_hyp_ok(h, env) for h in lem.hyps): continue
            exp = [_ev(l, env) for l in lanes]
        except (ValueError, KeyError, ZeroDivisionError, OverflowError) as e: return None, ['reference formula not evaluable: %r' % e]
        if any(_math.isnan(x) or _math.isinf(x) for x in exp): continue
        cands.append((env, exp))
    if not cands: return None, ['no candidate input satisfies the hypotheses']
    lines = []
    for env, _ in cands:
        vals = iter([(core.f32b(env[nm]) if k == 'f32' else core.f64b(env[nm])) for nm, k in lem.vars])
        try: words = [w for t in tys for w in core.words_from_values(structs, enums, t, vals)]
        except SymErr as e: return None, ['argument words: %r' % e]
        lines.append('%d %s' % (m['did'], ' '.join('%x' % (w & core.M64) for w in words)))
    out = core.run_driver(core.build_driver(cfg), lines)
    vs = []
    try: kinds = [l[1] for l in tree_leaves(sym(structs, ret, 'q', vs))]
    except SymErr: return None, ['result type']
    for (env, exp), line, call in zip(cands, out, lines):
        c = core.canon_driver(structs, enums, ret, line)
        if isinstance(c, str):
            if c == 'PANIC': continue
            continue
        if len(c) != len(exp) or len(kinds) != len(c): continue
        for j, (w, e, kd) in enumerate(zip(c, exp, kinds)):
            got = _math.nan if w == 'nan' else (_struct.unpack('<f', _struct.pack('<I', w & 0xffffffff))[0] if kd == 'f32' else _struct.unpack('<d', _struct.pack('<Q', w))[0] if kd == 'f64' else None)
            if got is None: continue
            tol = (2e-3 if kd == 'f32' else 1e-6) * max(1.0, abs(e), max(abs(v) for v in env.values()) ** 2)
            if _math.isnan(got) or abs(got - e) > tol:
                return {'input_words': call.split()[1:], 'function': m['key'], 'cfg': cfg, 'did': m['did'], 'assignment': {k: v for k, v in env.items()}, 'lane': j, 'crate_value': got, 'reference_value': e,
                        'crate_output': line, 'confirmed_on_crate': True, 'how_found': 'reference formula of the lemma evaluated in double precision on %d small dyadic inputs satisfying the hypotheses, against the crate built from the working tree' % len(cands)}, errs
    return None, errs + ['%d dyadic inputs: the crate agrees with the reference formula within tolerance' % len(cands)]

AlgLemma.search = lambda self, idx, seed: numeric_search(self, idx, seed)
