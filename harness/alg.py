"""Algebraic (F2) lemmas: the translated code, run with both float kinds interpreted in an arbitrary field K, computes a
stated polynomial / rational function.  Statements are generated here from reference formulas (Leibniz determinant,
cofactors, Hamilton product, ...) that do not look at the code; proofs are `vm_compute` + `ring` / `field`."""
import itertools
from . import core
from .core import sym, tree_coq, tree_leaves, tree_fill, ty_shape, tname, SymErr

BOILER = r'''From Glam Require Import Base Spec Sem Alg.
From Gen Require Import Table.
From Coq Require Import ZArith List String Bool Field.
Import ListNotations.
Section S.
Variable O0 : Ops.
Variable K : Type. Variables (k0 k1 : K) (kadd kmul ksub kdiv : K -> K -> K) (kopp kinv : K -> K).
Variable Kth : field_theory k0 k1 kadd kmul ksub kopp kdiv kinv (@eq K).
Add Field Kf : Kth.
Variable k_un : fop1 -> K -> K. Variable k_bin : fop2 -> K -> K -> K. Variable k_cmp : fcmp -> K -> K -> bool. Variable k_pred : fpred -> K -> bool.
Variables lit32 lit64 : Z -> K.
Hypothesis lit32_0 : lit32 0 = k0. Hypothesis lit32_1 : lit32 1065353216 = k1. Hypothesis lit32_m1 : lit32 3212836864 = kopp k1. Hypothesis lit32_2 : lit32 1073741824 = kadd k1 k1.
Hypothesis lit64_0 : lit64 0 = k0. Hypothesis lit64_1 : lit64 4607182418800017408 = k1. Hypothesis lit64_m1 : lit64 13830554455654793216 = kopp k1. Hypothesis lit64_2 : lit64 4611686018427387904 = kadd k1 k1.
Hypothesis lit32_m2 : lit32 3221225472 = kopp (kadd k1 k1). Hypothesis lit64_m2 : lit64 13835058055282163712 = kopp (kadd k1 k1).
Hypothesis lit32_nz : lit32 2147483648 = k0. Hypothesis lit64_nz : lit64 9223372036854775808 = k0.      (* -0.0 is zero as a field element *)
Hypothesis lit32_half : kmul (kadd k1 k1) (lit32 1056964608) = k1. Hypothesis lit64_half : kmul (kadd k1 k1) (lit64 4602678819172646912) = k1.
(* the trigonometric oracles are odd / even (true of sin and cos over the reals) *)
Hypothesis sin_opp : forall x, k_un FSin (kopp x) = kopp (k_un FSin x). Hypothesis cos_opp : forall x, k_un FCos (kopp x) = k_un FCos x.
Hypothesis sin_opp_mul : forall x y, k_un FSin (kmul (kopp x) y) = kopp (k_un FSin (kmul x y)). Hypothesis cos_opp_mul : forall x y, k_un FCos (kmul (kopp x) y) = k_un FCos (kmul x y).
(* carrier: a field element, or a literal that has not been used arithmetically yet (so that the sign-bit tricks of the SIMD
   backends - xor / and / andnot with the constants -0.0, +0.0, 0x7fffffff - can be interpreted on the literal's bits; the
   real numbers cannot tell -0.0 from +0.0) *)
Inductive kv := KX (x : K) | KL32 (b : Z) | KL64 (b : Z).
Definition kval (v : kv) : K := match v with KX x => x | KL32 b => lit32 b | KL64 b => lit64 b end.
Definition is_negzero (v : kv) : bool := match v with KL32 b => Z.eqb b 2147483648 | KL64 b => Z.eqb b 9223372036854775808 | KX _ => false end.
Definition is_poszero (v : kv) : bool := match v with KL32 b | KL64 b => Z.eqb b 0 | KX _ => false end.
Definition a1 (o : fop1) (a : kv) : kv := KX (match o with FNeg => kopp (kval a) | FRecipStd => kinv (kval a) | o => k_un o (kval a) end).
Definition a2 (o : fop2) (a b : kv) : kv :=
  match o with
  | FAdd => KX (kadd (kval a) (kval b)) | FSub => KX (ksub (kval a) (kval b)) | FMul => KX (kmul (kval a) (kval b)) | FDiv => KX (kdiv (kval a) (kval b))
  | FXor => if is_negzero b then KX (kopp (kval a)) else if is_negzero a then KX (kopp (kval b)) else if is_poszero b then a else if is_poszero a then b else KX (k_bin o (kval a) (kval b))
  | o => KX (k_bin o (kval a) (kval b)) end.
Definition OA : Ops := {|
  F32 := kv; F64 := kv;
  f32_1 := a1; f32_2 := a2; f32_3 := fun _ a b c => KX (kadd (kmul (kval a) (kval b)) (kval c)); f32_cmp := fun c a b => k_cmp c (kval a) (kval b); f32_pred := fun p a => k_pred p (kval a); f32_of_bits := KL32; f32_to_bits := fun _ => 0%Z;
  f64_1 := a1; f64_2 := a2; f64_3 := fun _ a b c => KX (kadd (kmul (kval a) (kval b)) (kval c)); f64_cmp := fun c a b => k_cmp c (kval a) (kval b); f64_pred := fun p a => k_pred p (kval a); f64_of_bits := KL64; f64_to_bits := fun _ => 0%Z;
  f32_cvtt_i32 := fun _ => 0%Z; f32_of_i32 := fun _ => KX k0; f32_to_int := fun _ _ => 0%Z; f64_to_int := fun _ _ => 0%Z; f32_of_int := fun _ _ => KX k0; f64_of_int := fun _ _ => KX k0;
  f32_to_f64 := fun x => KX (kval x); f64_to_f32 := fun x => KX (kval x);
  i_1 := zi_1 false; i_2 := zi_2 false; i_checked := zi_checked; i_cmp := zi_cmp; i_cast := fun _ b z => wrap b z; i_shl := zi_shl false; i_shr := zi_shr false;
  i_mixed := zi_mixed; i_mixed_checked := zi_mixed_checked; i_isneg := fun _ z => Z.ltb z 0; i_try := fun _ b z => if inr b z then Some z else None |}.
(* results are compared after reading every remaining literal as a field element *)
Fixpoint normv (v : valO OA) : valO OA :=
  match v with
  | VF32 x => VF32 (KX (kval x)) | VF64 x => VF64 (KX (kval x))
  | VT l => VT ((fix go (l : list (valO OA)) : list (valO OA) := match l with [] => [] | x :: t => normv x :: go t end) l)
  | VOpt (Some x) => VOpt (Some (normv x)) | v => v end.
Definition rnorm (r : res (valO OA)) : res (valO OA) := match r with Ok v => Ok (normv v) | e => e end.
Declare Scope K_scope. Delimit Scope K_scope with K.
Infix "+" := kadd : K_scope. Infix "*" := kmul : K_scope. Infix "-" := ksub : K_scope. Infix "/" := kdiv : K_scope. Notation "- x" := (kopp x) : K_scope.
Ltac lits := rewrite ?lit32_m2, ?lit64_m2, ?lit32_nz, ?lit64_nz, ?lit32_0, ?lit32_1, ?lit32_m1, ?lit32_2, ?lit64_0, ?lit64_1, ?lit64_m1, ?lit64_2, ?sin_opp, ?cos_opp, ?sin_opp_mul, ?cos_opp_mul.
Ltac lanes_k tac :=
  repeat match goal with
  | |- Ok _ = Ok _ => f_equal | |- VT _ = VT _ => f_equal | |- VOpt _ = VOpt _ => f_equal | |- Some _ = Some _ => f_equal | |- _ :: _ = _ :: _ => f_equal
  | |- VF32 _ = VF32 _ => f_equal | |- VF64 _ = VF64 _ => f_equal | |- KX _ = KX _ => f_equal; tac
  | |- [] = [] => reflexivity | |- VUnit = VUnit => reflexivity end.
Ltac alg_ring := intros; vm_compute; lits; lanes_k ltac:(ring).
(* rational functions: the side conditions of [field] (the code's own denominators) follow from the hypotheses H : d <> k0 *)
Ltac side_nz := repeat split; let Hc := fresh "Hc" in (intro Hc; match goal with H : _ <> k0 |- _ => apply H; rewrite <- Hc; ring | H : _ <> k0 |- _ => apply H; exact Hc end).
(* uninterpreted functions (sqrt) of arguments that agree as polynomials *)
Ltac congr_ring := first [ring | (f_equal; congr_ring)].
Ltac alg_congr := intros; vm_compute; lits; lanes_k ltac:(congr_ring).
Ltac alg_field := intros; vm_compute; lits; lanes_k ltac:(field; side_nz).
'''

class AlgLemma(core.Lemma):
    """forall (vars : K) [hyps], lhs = rhs   inside the section of BOILER"""
    def __init__(self, name, vars_, lhs, rhs, hyps=(), tactic='alg_ring', meta=None):
        super().__init__(name, vars_, lhs, rhs, tactic=tactic, meta=meta); self.hyps = list(hyps)
    def statement(self):
        fa = ('forall %s, ' % ' '.join('(%s : K)' % n for n, _ in self.vars)) if self.vars else ''
        return fa + ''.join('%s -> ' % h for h in self.hyps) + '%s = %s' % (self.lhs, self.rhs)
    def text(self):
        return 'Lemma %s : %s.\nProof. Timeout %d (%s). Qed.' % (self.name, self.statement(), core.LEMMA_TIMEOUT[0], self.tactic)

FOOTER = 'End S.\n'

# ---- reference formulas over leaf names (strings), all in scope K
def P(*xs): return '(' + ' * '.join(xs) + ')%K'
def S(xs):
    if not xs: return 'k0'
    return '(' + ' + '.join(xs) + ')%K'
def perm_sign(p):
    s = 1
    for i in range(len(p)):
        for j in range(i + 1, len(p)):
            if p[i] > p[j]: s = -s
    return s
def det(M):
    """Leibniz determinant of a square matrix of term strings; M[r][c]"""
    n = len(M); terms = []
    for p in itertools.permutations(range(n)):
        t = '(' + ' * '.join(M[r][p[r]] for r in range(n)) + ')'
        terms.append(t if perm_sign(p) > 0 else '(- %s)' % t)
    return '(' + ' + '.join(terms) + ')%K'
def minor(M, r, c): return [[M[i][j] for j in range(len(M)) if j != c] for i in range(len(M)) if i != r]
def cofactor(M, r, c):
    if len(M) == 1: return 'k1'
    d = det(minor(M, r, c)); return d if (r + c) % 2 == 0 else '(- %s)%%K' % d

import re as _re
def kxargs(args):
    """argument terms: every float leaf `VF32 name` becomes `VF32 (KX name)` (variables range over the field)"""
    return [_re.sub(r'VF(32|64) ([A-Za-z_][A-Za-z_0-9]*)', r'VF\1 (KX \2)', a) for a in args]
def kxl(lanes): return ['(KX %s)' % l for l in lanes]
