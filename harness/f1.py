"""Generic driver for families of generated structural lemmas (one per function, for all Ops)."""
import time, json, os
from . import core, flow
from .core import Lemma, sym, tree_coq, tree_leaves, tree_shape, has_hidden, tshow, tname, SymErr

FLOAT_TYPES = ['Vec2', 'Vec3', 'Vec3A', 'Vec4', 'DVec2', 'DVec3', 'DVec4', 'Quat', 'DQuat', 'Mat2', 'Mat3', 'Mat3A', 'Mat4', 'DMat2', 'DMat3', 'DMat4', 'Affine2', 'Affine3A', 'DAffine2', 'DAffine3']
MASK_TYPES = ['BVec2', 'BVec3', 'BVec4', 'BVec3A', 'BVec4A']

class B:
    """sequence of primitive applications (each may panic), then a result"""
    def __init__(self): self.binds = []; self.n = 0
    def o(self, term):
        v = 'z%d' % self.n; self.n += 1; self.binds.append((term, v)); return v
    def done(self, result):
        t = result
        for term, v in reversed(self.binds): t = 'pb (%s) (fun %s => %s)' % (term, v, t)
        return t

def sym_args(structs, f, prefixes='abcdefghijklmnopqrstuvw'):
    """symbolic arguments of a function: (vars, [trees])"""
    vs = []; trees = []; k = 0
    if f['has_self']: trees.append(sym(structs, f['self'], prefixes[k], vs)); k += 1
    for p in f['params']: trees.append(sym(structs, p[1], prefixes[k], vs)); k += 1
    return vs, trees

def result_type(f):
    """what the model function returns: &mut self methods return the updated self"""
    return f['self'] if (f['self_mut'] and f['ret'] == 'unit') else f['ret']

def baseline(pid):
    try: return set(json.load(open('%s/coverage/%s.json' % (core.VERIF, pid)))['covered'])
    except (OSError, ValueError, KeyError): return set()

def build(idx, cfgs, prefix, spec_fn, per_file=100, select=None, pid=None):
    """spec_fn(cfg, structs, f) -> None (not in this family) | dict(vars, lhs, rhs, spec[, tactic]).
    Lemmas are de-duplicated by (lhs, rhs) text: a function whose translated closure is identical in several
    configurations / types is one definition of the model and is proved once."""
    files = {}; seen = {}; notes = {'untranslated': [], 'spec_errors': []}; n = 0; cover = []; order = []; base = baseline(pid) if pid else set()
    for cfg in cfgs:
        structs = idx.structs(cfg)
        for f in idx.fns(cfg):
            if f['generic'] or (select and not select(cfg, f)): continue
            if (f['fid'] is None or f.get('status') == 'missing-callee') and ('%s:%s' % (cfg, f['key'])) in base:
                # covered in the recorded baseline but no longer translatable: keep the obligation (it will fail) instead of silently dropping it
                f = dict(f, fid=1, status='ok', lost=True)
            try: sp = spec_fn(cfg, structs, f)
            except SymErr as e:
                notes['spec_errors'].append('%s %s: %s' % (cfg, f['key'], e)); continue
            if sp is None: continue
            if sp == 'untranslated' or f['fid'] is None or f.get('status') == 'missing-callee':
                notes['untranslated'].append('%s %s: %s' % (cfg, f['key'], (f.get('err') or f.get('status') or '?')[:60])); continue
            cover.append((cfg, f))
            for sp in (sp if isinstance(sp, list) else [sp]):
                key = (sp['lhs'], sp['rhs'], sp.get('tactic'))
                if key in seen: seen[key].meta['covers'].append('%s:%s' % (cfg, f['key'])); continue
                n += 1
                lem = Lemma('%s_%d' % (prefix, n), sp['vars'], sp['lhs'], sp['rhs'], tactic=sp.get('tactic', 'solve_struct'), meta={'cfg': cfg, 'key': f['key'], 'file': f['file'], 'fid': f['fid'], 'did': f['did'], 'covers': ['%s:%s' % (cfg, f['key'])], 'spec': sp.get('spec', ''), 'fixed': sp.get('fixed', {})})
                lem.ty = sp.get('ty', 'res (valO O)'); lem.ops = sp.get('ops', 'O'); lem.intstd = sp.get('intstd', False); lem.mode = sp.get('mode'); lem.pre = sp.get('pre')
                seen[key] = lem; order.append(lem)
    nfiles = max(1, (len(order) + per_file - 1) // per_file)   # round-robin so that slow lemmas of one type spread over all workers
    for k, lem in enumerate(order): files.setdefault('%s_%03d' % (prefix.capitalize(), k % nfiles), []).append(lem)
    notes['covered_functions'] = len(cover); notes['distinct_statements'] = n; notes['untranslated_count'] = len(notes['untranslated']); notes['untranslated'] = notes['untranslated'][:40]
    notes['spec_errors_count'] = len(notes['spec_errors']); notes['spec_errors'] = notes['spec_errors'][:20]
    return files, notes, cover

def corr_targets(cover, tier, key=None):
    seen = set(); targets = []
    for cfg, f in cover:
        k = key(cfg, f) if key else (f['fid'], tshow(f['self']) if f['self'] else '', cfg)
        if k in seen: continue
        seen.add(k); targets.append((cfg, f))
    return targets

def run(pid, tier, seed, idx, info, t0, files, notes, cover, hdr, per_fn, rule, trusted, assumptions, extra=None, targets=None, fuel=400, footer=''):
    core.LEMMA_TIMEOUT[0] = 20 if tier == 'quick' else 300
    # lemmas recorded as slow (they exceeded the quick per-lemma limit when the baseline was recorded) are not attempted in the quick tier
    def lid(l): return '%s:%s:%s:%s' % (l.meta.get('cfg'), l.meta.get('key'), json.dumps(l.meta.get('fixed', {}), sort_keys=True), l.meta.get('spec', ''))
    try: slow = set(json.load(open('%s/coverage/%s.json' % (core.VERIF, pid))).get('slow', []))
    except (OSError, ValueError): slow = set()
    skipped = []
    if tier == 'quick' and slow and os.environ.get('VERIF_RECORD_COVERAGE') != '1':
        for b in list(files):
            keep = [l for l in files[b] if lid(l) not in slow]; skipped += [l for l in files[b] if lid(l) in slow]; files[b] = keep
            if not keep: del files[b]
    nob, nd, failures, assum = core.prove_files(core.BUILD + '/props/' + pid, files, hdr=hdr, footer=footer)
    notes['deferred_count'] = len(core.DEFERRED) + len(skipped); notes['deferred'] = ['%s (%s)' % (l.meta['key'], why) for l, why in core.DEFERRED][:60]
    notes['deferred_known_slow'] = len(skipped)
    extra = dict(extra or {}); extra['slow_ids'] = sorted(set(lid(l) for l, _ in core.DEFERRED) | (slow if (tier == 'quick' and os.environ.get('VERIF_RECORD_COVERAGE') != '1') else set()))
    corr = core.correspondence(idx, targets if targets is not None else corr_targets(cover, tier), seed, per_fn, pid, fuel=fuel, max_calls=3000 if tier == 'quick' else 60000)
    samples = []
    for ls in list(files.values())[:2]:
        for l in ls[:1]: samples.append({'lemma': l.name, 'statement': l.statement()[:400], 'covers': l.meta['covers'][:3]})
    res = {'idx': idx, 'obligations': nob, 'discharged': nd, 'failures': failures, 'assumptions': assum, 'corr': corr, 'notes': notes, 'translator': info, 'rule': rule, 'samples': samples,
           'trusted_base': ['Coq 8.16.1 kernel + vm_compute', 'translator rs2v (syn 2), its cfg evaluation and idiom recognisers', 'evaluator and primitive semantics coq/theories/Base.v, Sem.v'] + trusted,
           'assumptions_text': ['model = translation of /repo/src by tools/rs2v, re-run on every check; validated by the differential run recorded under coverage.correspondence'] + assumptions,
           'covered_keys': ['%s:%s' % (c, f['key']) for c, f in cover]}
    if extra: res.update(extra)
    return flow.report(pid, tier, seed, t0, res)
