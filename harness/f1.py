"""Generic driver for families of generated structural lemmas (one per function, for all Ops)."""
import time, json, os
from . import core, flow
from .core import Lemma, sym, tree_coq, tree_leaves, tree_shape, has_hidden, tshow, tname, SymErr

FLOAT_TYPES = ['Vec2', 'Vec3', 'Vec3A', 'Vec4', 'DVec2', 'DVec3', 'DVec4', 'Quat', 'DQuat', 'Mat2', 'Mat3', 'Mat3A', 'Mat4', 'DMat2', 'DMat3', 'DMat4', 'Affine2', 'Affine3A', 'DAffine2', 'DAffine3']
MASK_TYPES = ['BVec2', 'BVec3', 'BVec4', 'BVec3A', 'BVec4A']

class B:
    """sequence of primitive applications (each may panic), then a result"""
    def __init__(self): self.binds = []; self.n = 0
    def o(self, term):
        v = 'z%d' % self.n; self.n += 1; self.binds.append((term, v)); return v
    def done(self, result):
        t = result
        for term, v in reversed(self.binds): t = 'pb (%s) (fun %s => %s)' % (term, v, t)
        return t

def sym_args(structs, f, prefixes='abcdefghijklmnopqrstuvw'):
    """symbolic arguments of a function: (vars, [trees])"""
    vs = []; trees = []; k = 0
    if f['has_self']: trees.append(sym(structs, f['self'], prefixes[k], vs)); k += 1
    for p in f['params']: trees.append(sym(structs, p[1], prefixes[k], vs)); k += 1
    return vs, trees

def result_type(f):
    """what the model function returns: &mut self methods return the updated self"""
    return f['self'] if (f['self_mut'] and f['ret'] == 'unit') else f['ret']

def baseline(pid):
    try: return set(json.load(open('%s/coverage/%s.json' % (core.VERIF, pid)))['covered'])
    except (OSError, ValueError, KeyError): return set()

def build(idx, cfgs, prefix, spec_fn, per_file=100, select=None, pid=None):
    """spec_fn(cfg, structs, f) -> None (not in this family) | dict(vars, lhs, rhs, spec[, tactic]).
    Lemmas are de-duplicated by (lhs, rhs) text: a function whose translated closure is identical in several
    configurations / types is one definition of the model and is proved once."""
    files = {}; seen = {}; notes = {'untranslated': [], 'spec_errors': []}; n = 0; cover = []; order = []; base = baseline(pid) if pid else set()
    for cfg in cfgs:
        structs = idx.structs(cfg)
        for f in idx.fns(cfg):
            if f['generic'] or (select and not select(cfg, f)): continue
            if (f['fid'] is None or f.get('status') == 'missing-callee') and ('%s:%s' % (cfg, f['key'])) in base:
                # covered in the recorded baseline but no longer translatable: keep the obligation (it will fail) instead of silently dropping it
                f = dict(f, fid=1, status='ok', lost=True)
            try: sp = spec_fn(cfg, structs, f)
            except SymErr as e:
                notes['spec_errors'].append('%s %s: %s' % (cfg, f['key'], e)); continue
            if sp is None: continue
            if sp == 'untranslated' or f['fid'] is None or f.get('status') == 'missing-callee':
                notes['untranslated'].append('%s %s: %s' % (cfg, f['key'], (f.get('err') or f.get('status') or '?')[:60])); continue
            cover.append((cfg, f))
            for sp in (sp if isinstance(sp, list) else [sp]):
                key = (sp['lhs'], sp['rhs'], sp.get('tactic'))
                if key in seen: seen[key].meta['covers'].append('%s:%s' % (cfg, f['key'])); continue
                n += 1
                lem = Lemma('%s_%d' % (prefix, n), sp['vars'], sp['lhs'], sp['rhs'], tactic=sp.get('tactic', 'solve_struct'), meta={'cfg': cfg, 'key': f['key'], 'file': f['file'], 'fid': f['fid'], 'did': f['did'], 'covers': ['%s:%s' % (cfg, f['key'])], 'spec': sp.get('spec', ''), 'fixed': sp.get('fixed', {})})
                lem.ty = sp.get('ty', 'res (valO O)'); lem.ops = sp.get('ops', 'O'); lem.intstd = sp.get('intstd', False); lem.mode = sp.get('mode'); lem.pre = sp.get('pre')
                seen[key] = lem; order.append(lem)
    nfiles = max(1, (len(order) + per_file - 1) // per_file)   # round-robin so that slow lemmas of one type spread over all workers
    for k, lem in enumerate(order): files.setdefault('%s_%03d' % (prefix.capitalize(), k % nfiles), []).append(lem)
    notes['covered_functions'] = len(cover); notes['distinct_statements'] = n; notes['untranslated_count'] = len(notes['untranslated']); notes['untranslated'] = notes['untranslated'][:40]
    notes['spec_errors_count'] = len(notes['spec_errors']); notes['spec_errors'] = notes['spec_errors'][:20]
    return files, notes, cover

def corr_targets(cover, tier, key=None):
    seen = set(); targets = []
    for cfg, f in cover:
        k = key(cfg, f) if key else (f['fid'], tshow(f['self']) if f['self'] else '', cfg)
        if k in seen: continue
        seen.add(k); targets.append((cfg, f))
    return targets

def changed_ids(changed, lid):
    return set(lid(l) for ls in changed.values() for l in ls)

def lemma_hash(l, idx, lib):
    """content hash of a generated lemma: its text with every function id replaced by the content hash of that definition's transitive closure
    (index.json `chash`), plus the hash of the library files it is checked against.  Equal hash = the same statement about the same definitions."""
    import re, hashlib
    ch = idx.d.get('chash', [])
    def rep(m):
        n = int(m.group(1)); return ('#' + ch[n - 2]) if 2 <= n < len(ch) + 2 else m.group(0)
    t = re.sub(r'(\d+)%positive', rep, re.sub(r'Timeout \d+', 'Timeout T', re.sub(r'^Lemma \S+', 'Lemma L', l.text())))
    return hashlib.sha256((t + '|' + lib).encode()).hexdigest()[:24]

def run(pid, tier, seed, idx, info, t0, files, notes, cover, hdr, per_fn, rule, trusted, assumptions, extra=None, targets=None, fuel=400, footer=''):
    """Proves the generated lemma files.  Lemmas that exceeded the quick per-lemma limit when the baseline was recorded are listed in
    coverage/<pid>.json with the content hash of (statement, definitions, library) and the outcome of a long-limit attempt made then.
    Quick tier: such a lemma is skipped only while its hash is unchanged (the recorded outcome is about exactly this statement and these
    definitions); when anything it depends on has changed it is attempted again with the long limit."""
    quick_limit, long_limit = 20, 300
    core.LEMMA_TIMEOUT[0] = quick_limit if tier == 'quick' else long_limit
    record = os.environ.get('VERIF_RECORD_COVERAGE') == '1'
    def lid(l): return '%s:%s:%s:%s' % (l.meta.get('cfg'), l.meta.get('key'), json.dumps(l.meta.get('fixed', {}), sort_keys=True), l.meta.get('spec', ''))
    try: slow = json.load(open('%s/coverage/%s.json' % (core.VERIF, pid))).get('slow', {})
    except (OSError, ValueError): slow = {}
    if isinstance(slow, list): slow = {k: {'h': '', 'st': 'deferred'} for k in slow}      # old format: no hash, always re-attempted
    lib = core.lib_hash(core.theory_closure(hdr + footer))
    H = {}
    def h(l):
        k = id(l)
        if k not in H: H[k] = lemma_hash(l, idx, lib)
        return H[k]
    skipped = []; changed = {}
    if tier == 'quick' and slow and not record:
        for b in list(files):
            keep = []
            for l in files[b]:
                r = slow.get(lid(l))
                if r is None: keep.append(l)
                elif r.get('h') == h(l): skipped.append((l, r.get('st', 'deferred')))
                else: changed.setdefault(b, []).append(l)
            files[b] = keep
            if not keep: del files[b]
    propdir = core.BUILD + '/props/' + pid
    nob, nd, failures, assum = core.prove_files(propdir, files, hdr=hdr, footer=footer)
    undecided = []      # (lemma, why): lemmas that this run could not decide although the baseline had decided them (or never saw them)
    def long_pass(lems, sub):
        """attempt the given lemmas with the long per-lemma limit; returns the set of ids still deferred"""
        nonlocal nob, nd, failures
        before = len(core.DEFERRED); core.LEMMA_TIMEOUT[0] = long_limit
        per = max(1, (len(lems) + 31) // 32); groups = {}
        for k, l in enumerate(lems): groups.setdefault('%s_%03d' % (sub, k // per), []).append(l)
        nob2, nd2, f2, a2 = core.prove_files(propdir + '_' + sub.lower(), groups, hdr=hdr, footer=footer)
        nob += nob2; nd += nd2; failures += f2; assum.update(a2); core.LEMMA_TIMEOUT[0] = quick_limit if tier == 'quick' else long_limit
        still = core.DEFERRED[before:]; del core.DEFERRED[before:]
        return still
    if changed:      # a slow lemma whose statement or definitions changed since the baseline: decide it now, with the long limit
        for l, why in long_pass([l for ls in changed.values() for l in ls], 'Chg'):
            if slow.get(lid(l), {}).get('st') == 'proved': undecided.append((l, 'proved with the long limit when the baseline was recorded; its definitions changed and it is not decided within %d s now (%s)' % (long_limit, why)))
            else: core.DEFERRED.append((l, why))
    if not record:
        # a lemma outside the recorded slow list that hit the limit: timing noise or a change that made it undecidable for the tactic.  Retry
        # with the long limit; if it is still undecided the property is no longer shown for it -> reported (never silently dropped)
        D = list(core.DEFERRED); del core.DEFERRED[:]
        retry = [l for l, _ in D if tier == 'quick' and lid(l) not in changed_ids(changed, lid)]
        keep = [(l, w) for l, w in D if not (tier == 'quick' and lid(l) not in changed_ids(changed, lid))]
        still = long_pass(retry, 'Retry') if retry else []
        for l, why in still + (keep if tier != 'quick' else []):
            r = slow.get(lid(l))
            if r is not None and r.get('st') != 'proved': core.DEFERRED.append((l, why))      # never decided, recorded as such
            else: undecided.append((l, 'decided when the baseline was recorded (or new), not decided within %d s now (%s)' % (long_limit, why)))
        if tier == 'quick': core.DEFERRED.extend(keep)
    for l, why in undecided: failures.append((l, 'Error: ' + why))
    slow_out = None
    if record and tier == 'quick':
        # second pass over the lemmas deferred by the quick limit, with the long limit; the outcome is recorded with the content hash
        D = [l for l, _ in core.DEFERRED]; del core.DEFERRED[:]
        slow_out = {}
        if D:
            nf0 = len(failures); still = long_pass(D, 'Slow'); core.DEFERRED.extend(still)
            stillid = set(id(l) for l, _ in still); failed = set(id(l) for l, _ in failures[nf0:])
            for l in D: slow_out[lid(l)] = {'h': h(l), 'st': 'deferred' if id(l) in stillid else 'failed' if id(l) in failed else 'proved'}
    # lemmas that stay undecided (recorded as never decided, or skipped as such): no proof - but where the lemma carries a reference formula, the
    # crate is at least compared with it numerically (differential fallback; a disagreement is reported with the failing input)
    spot = 0; spot_bad = 0
    for l in [x for x, _ in core.DEFERRED] + [x for x, st in skipped if st != 'proved']:
        if not hasattr(l, 'search') or getattr(l, 'raw_stmt', False): continue
        try: cx, _ = l.search(idx, seed)
        except Exception: continue
        spot += 1
        if cx:
            spot_bad += 1; l.spot_cx = cx
            failures.append((l, 'Error: the lemma is not decided by the proof search, and the crate disagrees with its reference formula on a concrete input'))
    notes['undecided_lemmas_spot_checked_numerically'] = {'checked': spot, 'disagree': spot_bad}
    npc = sum(1 for _, st in skipped if st == 'proved')
    notes['deferred_count'] = len(core.DEFERRED) + len(skipped) - npc; notes['deferred'] = ['%s (%s)' % (l.meta['key'], why) for l, why in core.DEFERRED][:60]
    notes['slow_lemmas_unchanged_since_baseline'] = {'proved_with_long_limit_when_recorded': npc, 'not_decided_when_recorded': len(skipped) - npc}
    notes['slow_lemmas_reattempted_because_changed'] = sum(len(v) for v in changed.values())
    extra = dict(extra or {})
    extra['slow_ids'] = slow_out if slow_out is not None else slow
    corr = core.correspondence(idx, targets if targets is not None else corr_targets(cover, tier), seed, per_fn, pid, fuel=fuel, max_calls=3000 if tier == 'quick' else 60000)
    samples = []
    for ls in list(files.values())[:2]:
        for l in ls[:1]: samples.append({'lemma': l.name, 'statement': l.statement()[:400], 'covers': l.meta['covers'][:3]})
    res = {'idx': idx, 'obligations': nob, 'discharged': nd, 'failures': failures, 'assumptions': assum, 'corr': corr, 'notes': notes, 'translator': info, 'rule': rule, 'samples': samples,
           'trusted_base': ['Coq 8.16.1 kernel + vm_compute', 'translator rs2v (syn 2), its cfg evaluation and idiom recognisers', 'evaluator and primitive semantics coq/theories/Base.v, Sem.v'] + trusted,
           'assumptions_text': ['model = translation of /repo/src by tools/rs2v, re-run on every check; validated by the differential run recorded under coverage.correspondence'] + assumptions,
           'covered_keys': ['%s:%s' % (c, f['key']) for c, f in cover]}
    if extra: res.update(extra)
    return flow.report(pid, tier, seed, t0, res)
