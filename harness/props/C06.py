"""C06 - column-vector, column-major conventions hold across every accessor and product.

Abstract view of a matrix type with C columns and R rows: entry (r, c) is the (c*R + r)-th visible scalar of the value
(columns in order, each column top to bottom); an affine type is its linear part followed by the translation column.
One lemma per (configuration, type, function), for all Ops with Rust integer semantics and all entry values:
  to_cols_array / to_cols_array_2d / AsRef     list the entries column 0 first
  from_cols / from_cols_array(_2d) / from_diagonal   build exactly those entries (zeros elsewhere for from_diagonal)
  col(c), row(r)                                for every valid literal index: the c-th column / the r-th entries of all columns
  transpose                                     entry (r, c) of the result is entry (c, r)
  from_mat*_minor(m, i, j)                      drops exactly column i and row j (all literal i, j)
  mul_vec* / Mul<VecN>                          lane r = ((m[r,0]*v0 + m[r,1]*v1) + ...) : the sum of v[c]*col(c), left to right
  affine transform_point / transform_vector     linear*p + translation, and linear*v without the translation
Everything except the products is pure data movement, hence bit-for-bit."""
import re, time, itertools
from .. import core, flow, f1
from ..core import sym, tree_coq, tree_leaves, tree_fill, tshow, tname, SymErr, ty_shape

CFGS = ['sse2', 'scalar', 'coresimd']
MATS = {'Mat2': (2, 'f32'), 'Mat3': (3, 'f32'), 'Mat3A': (3, 'f32'), 'Mat4': (4, 'f32'), 'DMat2': (2, 'f64'), 'DMat3': (3, 'f64'), 'DMat4': (4, 'f64')}
AFFS = {'Affine2': (2, 'f32'), 'Affine3A': (3, 'f32'), 'DAffine2': (2, 'f64'), 'DAffine3': (3, 'f64')}
def K(k): return 'K32' if k == 'f32' else 'K64'
def VF(k, t): return ('VF32 %s' if k == 'f32' else 'VF64 %s') % t
def zero(k): return '(f32_of_bits O 0)' if k == 'f32' else '(f64_of_bits O 0)'
def add(k, a, b): return '(%s_2 O FAdd %s %s)' % (k, a, b)
def mul(k, a, b): return '(%s_2 O FMul %s %s)' % (k, a, b)

def spec(cfg, structs, f):
    st = f['self']; n = tname(st) if st is not None else None
    if n not in MATS and n not in AFFS: return None
    if f['generic'] or f['by_ref']: return None
    name = f['name']; tr = f['trait'][0] if f['trait'] else None
    if n in MATS: C, k = MATS[n]; R = C; ncols = C
    else: R, k = AFFS[n]; ncols = R + 1
    def mk(vs, args, rhs, sname, ret_t=None, intstd=True):
        if f['fid'] is None: return 'untranslated'
        run = 'run O tbl 200 %d%%positive [%s]' % (f['fid'], '; '.join(args)); sh = ty_shape(structs, ret_t) if ret_t is not None else 'SL'
        return {'vars': vs, 'lhs': ('rerase O (%s) (%s)' % (sh, run)) if core.shape_has_hidden(sh) else run, 'rhs': rhs, 'spec': sname, 'intstd': intstd}
    def M(pre, vs):
        t = sym(structs, st, pre, vs); L = [l[2] for l in tree_leaves(t)]
        return t, [[L[c * R + r] for r in range(R)] for c in range(ncols)]     # cols[c][r]
    ret = f['ret']
    # ---------- readers
    if f['has_self'] and not f['params'] and (name == 'to_cols_array' or tr == 'AsRef'):
        vs = []; t, cols = M('m', vs); return mk(vs, [tree_coq(t)], 'Ok (VT [%s])' % '; '.join(VF(k, x) for c in cols for x in c), 'column-major array')
    if f['has_self'] and not f['params'] and name == 'to_cols_array_2d':
        vs = []; t, cols = M('m', vs); return mk(vs, [tree_coq(t)], 'Ok (VT [%s])' % '; '.join('VT [%s]' % '; '.join(VF(k, x) for x in c) for c in cols), 'column-major 2d array')
    if f['has_self'] and name in ('col', 'row') and len(f['params']) == 1 and f['params'][0][1] == 'usize' and n in MATS:
        out = []
        for i in range(C):
            vs = []; t, cols = M('m', vs); rt = sym(structs, ret, 'r', [])
            want = cols[i] if name == 'col' else [cols[c][i] for c in range(C)]
            out.append(mk(vs, [tree_coq(t), 'VI USize %d' % i], 'Ok (%s)' % tree_fill(rt, iter(want)), '%s(%d)' % (name, i), ret))
        return out
    if f['has_self'] and not f['params'] and name == 'transpose' and n in MATS:
        vs = []; t, cols = M('m', vs); want = [cols[r][c] for c in range(C) for r in range(R)]
        return mk(vs, [tree_coq(t)], 'Ok (%s)' % tree_fill(t, iter(want)), 'transpose swaps (r,c)', st)
    if tr == 'Deref' and name == 'deref' and n in MATS:
        vs = []; t, cols = M('m', vs); rt = []
        # x_axis.. fields: each column as the column vector type
        return None
    # ---------- constructors
    if not f['has_self'] and name == 'from_cols' and len(f['params']) == ncols:
        vs = []; ps = [sym(structs, p[1], 'c%d' % i, vs) for i, p in enumerate(f['params'])]; rt = sym(structs, st, 'r', [])
        return mk(vs, [tree_coq(p) for p in ps], 'Ok (%s)' % tree_fill(rt, iter([l[2] for p in ps for l in tree_leaves(p)])), 'from_cols', st)
    if not f['has_self'] and name in ('from_cols_array', 'from_cols_array_2d') and len(f['params']) == 1:
        vs = []; p = sym(structs, f['params'][0][1], 'a', vs); rt = sym(structs, st, 'r', [])
        if len(tree_leaves(p)) != len(tree_leaves(rt)): return None
        return mk(vs, [tree_coq(p)], 'Ok (%s)' % tree_fill(rt, iter([l[2] for l in tree_leaves(p)])), name, st)
    if not f['has_self'] and name == 'from_diagonal' and len(f['params']) == 1 and n in MATS:
        vs = []; p = sym(structs, f['params'][0][1], 'd', vs); dl = [l[2] for l in tree_leaves(p)]; rt = sym(structs, st, 'r', [])
        if len(dl) != C: return None
        want = [dl[c] if r == c else zero(k) for c in range(C) for r in range(R)]
        return mk(vs, [tree_coq(p)], 'Ok (%s)' % tree_fill(rt, iter(want)), 'from_diagonal', st)
    m = re.fullmatch(r'from_mat(\d)a?_minor', name)
    if m and not f['has_self'] and len(f['params']) == 3 and n in MATS:
        src_t = f['params'][0][1]; SN = int(m.group(1)); out = []
        if SN != C + 1: return None
        for i, j in itertools.product(range(SN), range(SN)):
            vs = []; sv = sym(structs, src_t, 'm', vs); SL = [l[2] for l in tree_leaves(sv)]
            if len(SL) != SN * SN: return None
            scols = [[SL[c * SN + r] for r in range(SN)] for c in range(SN)]
            want = [scols[c][r] for c in range(SN) if c != i for r in range(SN) if r != j]
            rt = sym(structs, st, 'r', [])
            out.append(mk(vs, [tree_coq(sv), 'VI USize %d' % i, 'VI USize %d' % j], 'Ok (%s)' % tree_fill(rt, iter(want)), '%s drops column %d and row %d' % (name, i, j), st))
        return out
    # ---------- products with a column vector
    def lin(cols, v, nc):
        lanes = []
        for r in range(R):
            acc = mul(k, cols[0][r], v[0])
            for c in range(1, nc): acc = add(k, acc, mul(k, cols[c][r], v[c]))
            lanes.append(acc)
        return lanes
    if n in MATS and f['has_self'] and len(f['params']) == 1 and (re.fullmatch(r'mul_vec\da?', name) or (tr == 'Mul' and name == 'mul')):
        vs = []; t, cols = M('m', vs)
        try: p = sym(structs, f['params'][0][1], 'v', vs)
        except SymErr: return None
        v = [l[2] for l in tree_leaves(p)]
        if p[0] != 'T' or len(v) != C or tname(f['params'][0][1]) in MATS or tname(f['params'][0][1]) in AFFS: return None
        rt = sym(structs, ret, 'r', [])
        if len(tree_leaves(rt)) != R: return None
        return mk(vs, [tree_coq(t), tree_coq(p)], 'Ok (%s)' % tree_fill(rt, iter(lin(cols, v, C))), 'M*v = sum of v[c]*col(c), left to right', ret, intstd=False)
    if n in AFFS and f['has_self'] and len(f['params']) == 1 and re.fullmatch(r'transform_(point|vector)\da?', name):
        vs = []; t, cols = M('m', vs); p = sym(structs, f['params'][0][1], 'v', vs); v = [l[2] for l in tree_leaves(p)]
        if len(v) != R: return None
        lanes = lin(cols, v, R)
        if 'point' in name: lanes = [add(k, lanes[r], cols[R][r]) for r in range(R)]
        rt = sym(structs, ret, 'r', [])
        return mk(vs, [tree_coq(t), tree_coq(p)], 'Ok (%s)' % tree_fill(rt, iter(lanes)), 'affine %s' % name, ret, intstd=False)
    return None

HDR = core.HDR.replace('Import Base Spec.', 'Import Base Spec Sem.')

def run(tier, seed):
    t0 = time.time(); idx, info = flow.prepare()
    files, notes, cover = f1.build(idx, CFGS, 'col', spec, per_file=40, pid='C06')
    per_fn = 4 if tier == 'quick' else 40
    return f1.run('C06', tier, seed, idx, info, t0, files, notes, cover, HDR, per_fn,
        'one lemma per accessor / constructor / product-with-vector of the 7 matrix and 4 affine types (x literal indices for col, row and the minor constructors) in the sse2, scalar-math and core-simd configurations, against the column-major entry view, for all Ops; correspondence: %d random calls per function (entries with NaN payloads, -0)' % per_fn,
        ['the column-major entry view and the left-to-right product shape in harness/props/C06.py'], ['(A*B)*v = A*(B*v) is an algebraic identity over the reals, proved with C03; here the product shape is stated per call'])
