"""C20 - glam outputs satisfy glam preconditions; assertions never change results.

Erasure part (proved): for every function f of the float/quaternion/matrix/affine types and every configuration pair
(X, X + glam-assert), X in {sse2, scalar-math, core-simd}:
        run (X+assert) f args = Ok v  ->  run X f args = Ok v          for all Ops and all argument values
i.e. enabling the assertions can only turn a result into a panic, never change a returned value.  When the translated
closure of f is literally the same definition in both tables (no glam_assert reachable) there is nothing to prove and the
function is counted as `identical`; otherwise one lemma per function (x literal index / Euler order).
Witness part: documented precondition violations panic with the assertions on and do not without (evaluated in the
IEEE instance, listed in WITNESSES).
Chain part (differential): random well-typed chains of precondition-carrying operations run on the drivers built with
and without glam-assert; values must agree bit-for-bit and valid chains must not panic."""
import time, itertools
from .. import core, flow, f1
from ..core import sym, tree_coq, tree_leaves, tshow, tname, SymErr, ty_shape
from . import C18

PAIRS = [('sse2', 'sse2+assert'), ('scalar', 'scalar+assert'), ('coresimd', 'coresimd+assert')]

def build(idx):
    """one lemma per function pair whose closures differ: the computable check of coq/theories/Erase.v (the asserting body is the
    plain body plus SAssert statements, through every differing callee) discharged by vm_compute and lifted by erase_check_sound"""
    files = {}; seen = {}; order = []; notes = {'identical': 0, 'untranslated': [], 'unmatched': 0}; cover = []; n = 0
    for plain, asrt in PAIRS:
        pa = {f['key']: f for f in idx.fns(asrt)}
        for f in idx.fns(plain):
            if not C18.in_scope(f): continue
            fa = pa.get(f['key'])
            if fa is None: notes['unmatched'] += 1; continue
            if f['fid'] is None or fa['fid'] is None:
                notes['untranslated'].append('%s %s' % (plain, f['key'])); continue
            if f['fid'] == fa['fid']: notes['identical'] += 1; continue
            cover.append((plain, f))
            stmt = 'forall (O:Ops) fuel args v, run O tbl fuel %d%%positive args = Ok v -> run O tbl fuel %d%%positive args = Ok v' % (fa['fid'], f['fid'])
            if stmt in seen: seen[stmt].meta['covers'].append('%s:%s' % (plain, f['key'])); continue
            n += 1; lem = EraLemma('era_%d' % n, fa['fid'], f['fid'], stmt, {'cfg': plain, 'key': f['key'], 'file': f['file'], 'fid': f['fid'], 'afid': fa['fid'], 'did': f['did'], 'covers': ['%s:%s' % (plain, f['key'])], 'spec': 'assert erasure'})
            seen[stmt] = lem; order.append(lem)
    nfiles = max(1, min(16, (len(order) + 19) // 20))
    for k, lem in enumerate(order): files.setdefault('Era_%03d' % (k % nfiles), []).append(lem)
    notes['covered_functions'] = len(cover); notes['distinct_statements'] = n; notes['untranslated_count'] = len(notes['untranslated']); notes['untranslated'] = notes['untranslated'][:30]
    return files, notes, cover

class EraLemma(core.Lemma):
    def __init__(self, name, afid, pfid, stmt, meta):
        core.Lemma.__init__(self, name, [], stmt, '', meta=meta); self.afid = afid; self.pfid = pfid; self.stmt = stmt; self.raw_stmt = True
    def statement(self): return self.stmt
    def search(self, idx, seed, n=120):
        """the same inputs on the crate built with and without glam-assert: an input on which the asserting build returns a value that
        the plain build does not return"""
        m = self.meta; plain = m['cfg']; asrt = plain + '+assert'; errs = []
        f = next((x for x in idx.fns(plain) if x['key'] == m['key']), None); fa = next((x for x in idx.fns(asrt) if x['key'] == m['key']), None)
        if f is None or fa is None or f['did'] is None or fa['did'] is None or f['by_ref'] or f['generic']: return None, ['no public entry point for the search']
        g = core.Gen(seed); structs = idx.structs(plain); enums = idx.enums(plain)
        tys = ([f['self']] if f['has_self'] else []) + [p[1] for p in f['params']]
        cases = []
        for _ in range(n):
            try: parts = [core.gen_value(structs, enums, t, g) for t in tys]
            except SymErr as e: return None, ['input generation: %r' % e]
            cases.append([w for ws, _ in parts for w in ws])
        lp = ['%d %s' % (f['did'], ' '.join('%x' % w for w in ws)) for ws in cases]; la = ['%d %s' % (fa['did'], ' '.join('%x' % w for w in ws)) for ws in cases]
        op = core.run_driver(core.build_driver(plain), lp); oa = core.run_driver(core.build_driver(asrt), la)
        ret = f['self'] if (f['self_mut'] and f['ret'] == 'unit') else f['ret']
        for ws, x, y in zip(cases, op, oa):
            if not y.startswith('OK'): continue
            try: cx, cy = core.canon_driver(structs, enums, ret, x), core.canon_driver(idx.structs(asrt), idx.enums(asrt), ret, y)
            except SymErr: cx, cy = x, y
            if cx != cy:
                return {'input_words': ['%x' % w for w in ws], 'function': m['key'], 'cfg': plain, 'plain_build': x, 'assert_build': y, 'confirmed_on_crate': True,
                        'how_found': 'the same %d random calls on the drivers built from the working tree with and without glam-assert' % n}, errs
        return None, errs + ['%d random calls agree on the two builds' % n]
    def text(self):
        return 'Lemma %s : %s.\nProof. apply (erase_check_sound tbl 400%%nat %d%%positive %d%%positive). Timeout %d (vm_compute; reflexivity). Qed.' % (self.name, self.stmt, self.afid, self.pfid, core.LEMMA_TIMEOUT[0])

HDR = core.HDR.replace('Import Base Spec.', 'Import Base Spec Sem Erase.')

# documented precondition violations: (function key, argument words builder) must panic with glam-assert and not without
def f32w(x): return core.f32b(x)
WITNESSES = [
    ('Vec3::clamp_length', [f32w(1), f32w(2), f32w(3), f32w(2.0), f32w(1.0)], 'min > max'),
    ('Vec3::clamp', [f32w(1), f32w(2), f32w(3), f32w(2), f32w(2), f32w(2), f32w(1), f32w(1), f32w(1)], 'min > max'),
    ('Quat::from_axis_angle', [f32w(2), f32w(0), f32w(0), f32w(1.0)], 'non-unit axis'),
    ('Vec3::project_onto_normalized', [f32w(1), f32w(2), f32w(3), f32w(2), f32w(0), f32w(0)], 'non-unit rhs'),
    ('Mat3::from_axis_angle', [f32w(0), f32w(3), f32w(0), f32w(1.0)], 'non-unit axis'),
    ('Quat::mul_vec3', [f32w(2), f32w(0), f32w(0), f32w(0), f32w(1), f32w(2), f32w(3)], 'non-unit quaternion'),
]

def witnesses(idx):
    """run the witnesses on the model (IEEE instance) in the assert / plain tables and on the two drivers"""
    res = []; terms = []; meta = []
    for plain, asrt in PAIRS[:2]:
        for key, words, why in WITNESSES:
            fp = next((f for f in idx.fns(plain) if f['key'] == key), None); fa = next((f for f in idx.fns(asrt) if f['key'] == key), None)
            if not fp or not fa or fp['fid'] is None or fa['fid'] is None or fp['did'] is None: continue
            structs = idx.structs(plain); tys = ([fp['self']] if fp['has_self'] else []) + [p[1] for p in fp['params']]
            it = iter(words)
            def term(t):
                vs = []; tr = sym(structs, t, 'q', vs); leaves = iter([next(it) for _ in vs])
                def go(x):
                    if x[0] == 'L': return ('vf32 %d' % next(leaves)) if x[1] == 'f32' else ('vf64 %d' % next(leaves))
                    return 'VT [%s]' % '; '.join(go(c) for c in x[1])
                return go(tr)
            try: a = '[%s]' % '; '.join(term(t) for t in tys)
            except (StopIteration, SymErr): continue
            terms.append('out (run IEEEr tbl 400 %d%%positive %s)' % (fa['fid'], a)); terms.append('out (run IEEEr tbl 400 %d%%positive %s)' % (fp['fid'], a)); meta.append((plain, asrt, key, why, fp, words))
    if not terms: return [], []
    out, errs = core.eval_model(terms, 'C20w')
    bad = []
    for k, m in enumerate(meta):
        ra, rp = out[2 * k], out[2 * k + 1]
        ok = ra is not None and rp is not None and ra[0] == 1 and rp[0] == 0
        res.append({'cfg': m[0], 'fn': m[2], 'violation': m[3], 'assert_model': 'PANIC' if ra and ra[0] == 1 else str(ra)[:40], 'plain_model': 'OK' if rp and rp[0] == 0 else str(rp)[:40]})
        if not ok: bad.append(({'kind': 'counterexample', 'theorem': 'documented violation must panic with glam-assert only', 'function': m[2], 'cfg': m[0], 'input_words': ['%x' % w for w in m[5]], 'assert_result': res[-1]['assert_model'], 'plain_result': res[-1]['plain_model'], 'how_found': 'witness evaluation in the IEEE instance'}, True))
    # and on the real crate
    for plain, asrt in PAIRS[:2]:
        bp = core.build_driver(plain); ba = core.build_driver(asrt)
        ms = [m for m in meta if m[0] == plain]
        lines = ['%d %s' % (m[4]['did'], ' '.join('%x' % w for w in m[5])) for m in ms]
        op = core.run_driver(bp, lines); oa = core.run_driver(ba, lines)
        for m, x, y in zip(ms, op, oa):
            if not (x.startswith('OK') and y.startswith('PANIC')):
                bad.append(({'kind': 'counterexample', 'theorem': 'documented violation must panic with glam-assert only (crate)', 'function': m[2], 'cfg': plain, 'input_words': ['%x' % w for w in m[5]], 'plain': x, 'assert': y, 'how_found': 'witness run on the drivers built with and without glam-assert'}, True))
    return res, bad

def run(tier, seed):
    t0 = time.time(); idx, info = flow.prepare()
    files, notes, cover = build(idx)
    wres, wbad = witnesses(idx)
    notes['witnesses'] = wres
    # first half of the property, differential: chains of precondition-carrying operations on glam's own outputs, glam-assert vs plain builds
    from .. import chains
    cstat, cbad = chains.run(idx, seed, 1500 if tier == 'quick' else 20000, 12)
    cstat64, cbad64 = chains.run(idx, seed + 1, 750 if tier == 'quick' else 10000, 12, prec='f64')
    notes['chains'] = cstat; notes['chains_f64'] = cstat64; wbad = wbad + cbad[:10] + cbad64[:10]
    per_fn = 2 if tier == 'quick' else 20
    # differential: the same calls on the assert and plain drivers must agree whenever the assert build returns
    return f1.run('C20', tier, seed, idx, info, t0, files, notes, cover, HDR, per_fn,
        'erasure lemma per function whose translated closure differs between a configuration and the same configuration with glam-assert (functions with identical closures are the same definition and counted under notes.identical); documented-violation witnesses; %d chains of 12 precondition-carrying operations on glam outputs run on the glam-assert and plain drivers (sse2, scalar-math): no panic, bit-identical values; correspondence: %d random calls per function on the plain tables' % (cstat['chains'], per_fn),
        ['coq/theories/Erase.v (generic erasure theorem); coq/theories/UnitAlg.v (outputs of normalize / rotation constructors / unit-quaternion products are unit over the reals); harness/props/C20.py (scope, witnesses); harness/chains.py (chain generator)'],
        ['numeric margins (outputs of normalize / rotation constructors pass is_normalized with slack) are not proved here; they are exercised by the chain run of the thorough tier'],
        extra={'extra_violations': wbad})
