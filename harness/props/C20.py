"""C20 - glam outputs satisfy glam preconditions; assertions never change results.

Erasure part (proved): for every function f of the float/quaternion/matrix/affine types and every configuration pair
(X, X + glam-assert), X in {sse2, scalar-math, core-simd}:
        run (X+assert) f args = Ok v  ->  run X f args = Ok v          for all Ops and all argument values
i.e. enabling the assertions can only turn a result into a panic, never change a returned value.  When the translated
closure of f is literally the same definition in both tables (no glam_assert reachable) there is nothing to prove and the
function is counted as `identical`; otherwise one lemma per function (x literal index / Euler order).
Witness part: documented precondition violations panic with the assertions on and do not without (evaluated in the
IEEE instance, listed in WITNESSES).
Chain part (differential): random well-typed chains of precondition-carrying operations run on the drivers built with
and without glam-assert; values must agree bit-for-bit and valid chains must not panic."""
import time, itertools
from .. import core, flow, f1
from ..core import sym, tree_coq, tree_leaves, tshow, tname, SymErr, ty_shape
from . import C18

PAIRS = [('sse2', 'sse2+assert'), ('scalar', 'scalar+assert'), ('coresimd', 'coresimd+assert')]

def build(idx):
    files = {}; seen = {}; order = []; notes = {'identical': 0, 'untranslated': [], 'unmatched': 0}; cover = []; n = 0
    for plain, asrt in PAIRS:
        structs = idx.structs(plain); pa = {f['key']: f for f in idx.fns(asrt)}
        for f in idx.fns(plain):
            if not C18.in_scope(f): continue
            fa = pa.get(f['key'])
            if fa is None: notes['unmatched'] += 1; continue
            if f['fid'] is None or fa['fid'] is None:
                notes['untranslated'].append('%s %s' % (plain, f['key'])); continue
            if f['fid'] == fa['fid']: notes['identical'] += 1; continue
            if f['trait'] and f['trait'][0] in ('Display', 'Debug', 'Hash', 'Sum', 'Product', 'Deref', 'DerefMut', 'AsRef', 'AsMut', 'IndexMut'): continue
            if f['self_mut'] and f['ret'] != 'unit': continue
            # argument trees; usize / enum parameters as literals; slices skipped (C18 covers their panics)
            vs = []; argsets = [[]]; ok = True
            allp = ([f['self']] if f['has_self'] else []) + [p[1] for p in f['params']]
            for k, t in enumerate(allp):
                pre = 'abcdefghijkl'[k]
                if t == 'usize': argsets = [a + ['VI USize %d' % v] for a in argsets for v in range(5)]
                elif isinstance(t, dict) and t.get('n') == 'EulerRot': argsets = [a + ['VI U32 %d' % v] for a in argsets for v in range(24)]
                else:
                    try: tr = sym(structs, t, pre, vs)
                    except SymErr: ok = False; break
                    argsets = [a + [tree_coq(tr)] for a in argsets]
            if not ok: continue
            cover.append((plain, f))
            for args in argsets:
                a = '[%s]' % '; '.join(args)
                stmt = 'match run O tbl 200 %d%%positive %s with Ok v => run O tbl 200 %d%%positive %s = Ok v | _ => True end' % (fa['fid'], a, f['fid'], a)
                key = stmt
                if key in seen: seen[key].meta['covers'].append('%s:%s' % (plain, f['key'])); continue
                n += 1; lem = core.Lemma('era_%d' % n, vs, stmt, '', meta={'cfg': plain, 'key': f['key'], 'file': f['file'], 'fid': f['fid'], 'did': f['did'], 'covers': ['%s:%s' % (plain, f['key'])], 'spec': 'assert erasure'})
                lem.intstd = 'concrete' if any('VI U32' in x for x in args) else True; lem.raw_stmt = True
                seen[key] = lem; order.append(lem)
    nfiles = max(1, (len(order) + 39) // 40)
    for k, lem in enumerate(order): files.setdefault('Era_%03d' % (k % nfiles), []).append(lem)
    notes['covered_functions'] = len(cover); notes['distinct_statements'] = n; notes['untranslated_count'] = len(notes['untranslated']); notes['untranslated'] = notes['untranslated'][:30]
    return files, notes, cover

HDR = core.HDR.replace('Import Base Spec.', 'Import Base Spec Sem.')

# documented precondition violations: (function key, argument words builder) must panic with glam-assert and not without
def f32w(x): return core.f32b(x)
WITNESSES = [
    ('Vec3::clamp_length', [f32w(1), f32w(2), f32w(3), f32w(2.0), f32w(1.0)], 'min > max'),
    ('Vec3::clamp', [f32w(1), f32w(2), f32w(3), f32w(2), f32w(2), f32w(2), f32w(1), f32w(1), f32w(1)], 'min > max'),
    ('Quat::from_axis_angle', [f32w(2), f32w(0), f32w(0), f32w(1.0)], 'non-unit axis'),
    ('Vec3::project_onto_normalized', [f32w(1), f32w(2), f32w(3), f32w(2), f32w(0), f32w(0)], 'non-unit rhs'),
    ('Mat3::from_axis_angle', [f32w(0), f32w(3), f32w(0), f32w(1.0)], 'non-unit axis'),
    ('Quat::mul_vec3', [f32w(2), f32w(0), f32w(0), f32w(0), f32w(1), f32w(2), f32w(3)], 'non-unit quaternion'),
]

def witnesses(idx):
    """run the witnesses on the model (IEEE instance) in the assert / plain tables and on the two drivers"""
    res = []; terms = []; meta = []
    for plain, asrt in PAIRS[:2]:
        for key, words, why in WITNESSES:
            fp = next((f for f in idx.fns(plain) if f['key'] == key), None); fa = next((f for f in idx.fns(asrt) if f['key'] == key), None)
            if not fp or not fa or fp['fid'] is None or fa['fid'] is None or fp['did'] is None: continue
            structs = idx.structs(plain); tys = ([fp['self']] if fp['has_self'] else []) + [p[1] for p in fp['params']]
            it = iter(words)
            def term(t):
                vs = []; tr = sym(structs, t, 'q', vs); leaves = iter([next(it) for _ in vs])
                def go(x):
                    if x[0] == 'L': return ('vf32 %d' % next(leaves)) if x[1] == 'f32' else ('vf64 %d' % next(leaves))
                    return 'VT [%s]' % '; '.join(go(c) for c in x[1])
                return go(tr)
            try: a = '[%s]' % '; '.join(term(t) for t in tys)
            except (StopIteration, SymErr): continue
            terms.append('out (run IEEEr tbl 400 %d%%positive %s)' % (fa['fid'], a)); terms.append('out (run IEEEr tbl 400 %d%%positive %s)' % (fp['fid'], a)); meta.append((plain, asrt, key, why, fp, words))
    if not terms: return [], []
    out, errs = core.eval_model(terms, 'C20w')
    bad = []
    for k, m in enumerate(meta):
        ra, rp = out[2 * k], out[2 * k + 1]
        ok = ra is not None and rp is not None and ra[0] == 1 and rp[0] == 0
        res.append({'cfg': m[0], 'fn': m[2], 'violation': m[3], 'assert_model': 'PANIC' if ra and ra[0] == 1 else str(ra)[:40], 'plain_model': 'OK' if rp and rp[0] == 0 else str(rp)[:40]})
        if not ok: bad.append(({'kind': 'counterexample', 'theorem': 'documented violation must panic with glam-assert only', 'function': m[2], 'cfg': m[0], 'input_words': ['%x' % w for w in m[5]], 'assert_result': res[-1]['assert_model'], 'plain_result': res[-1]['plain_model'], 'how_found': 'witness evaluation in the IEEE instance'}, True))
    # and on the real crate
    for plain, asrt in PAIRS[:2]:
        bp = core.build_driver(plain); ba = core.build_driver(asrt)
        ms = [m for m in meta if m[0] == plain]
        lines = ['%d %s' % (m[4]['did'], ' '.join('%x' % w for w in m[5])) for m in ms]
        op = core.run_driver(bp, lines); oa = core.run_driver(ba, lines)
        for m, x, y in zip(ms, op, oa):
            if not (x.startswith('OK') and y.startswith('PANIC')):
                bad.append(({'kind': 'counterexample', 'theorem': 'documented violation must panic with glam-assert only (crate)', 'function': m[2], 'cfg': plain, 'input_words': ['%x' % w for w in m[5]], 'plain': x, 'assert': y, 'how_found': 'witness run on the drivers built with and without glam-assert'}, True))
    return res, bad

def run(tier, seed):
    t0 = time.time(); idx, info = flow.prepare()
    files, notes, cover = build(idx)
    wres, wbad = witnesses(idx)
    notes['witnesses'] = wres
    per_fn = 2 if tier == 'quick' else 20
    # differential: the same calls on the assert and plain drivers must agree whenever the assert build returns
    return f1.run('C20', tier, seed, idx, info, t0, files, notes, cover, HDR, per_fn,
        'erasure lemma per function whose translated closure differs between a configuration and the same configuration with glam-assert (functions with identical closures are the same definition and counted under notes.identical); documented-violation witnesses; correspondence: %d random calls per function on the plain tables' % per_fn,
        ['Spec.v tactics; harness/props/C20.py (scope, witnesses)'],
        ['numeric margins (outputs of normalize / rotation constructors pass is_normalized with slack) are not proved here; they are exercised by the chain run of the thorough tier'],
        extra={'extra_violations': wbad})
