"""C09 - rotation constructors and all 24 Euler orders follow the documented conventions.

Algebraic part (proved over an arbitrary field, sin and cos being uninterpreted functions that are odd / even):
  Quat::from_axis_angle(a, t)      = (a sin(t/2), cos(t/2))                     for Quat and DQuat, every backend
  Mat3/Mat3A/Mat4/DMat*::from_axis_angle(a, t) = cos t I + sin t [a]x + (1 - cos t) a a^T      (Rodrigues), likewise the affine forms
  from_rotation_x / y / z          = the elementary counter-clockwise rotations (matrix forms) / (sin(t/2) e_i, cos(t/2)) (quaternions)
  from_euler(order, a, b, c)       = R_L0(a) R_L1(b) R_L2(c) for an order spelled L0 L1 L2, and R_L2(c) R_L1(b) R_L0(a) for the Ex
                                     variants - for all 24 orders, as 3x3 matrix products (Mat3, Mat3A, Mat4, DMat3, DMat4) and as
                                     Hamilton products of the three single-axis quaternions (Quat, DQuat)
coq/theories/RotAlg.v relates the two families: the matrix of the quaternion (a s, c) is the Rodrigues matrix for sin t = 2 s c,
cos t = c^2 - s^2 when |a| = 1 and s^2 + c^2 = 1, and the Rodrigues matrix is orthonormal with determinant 1.
The extraction direction (to_euler, to_axis_angle) and float-level error growth are covered differentially only."""
import time
from .. import core, flow, f1, alg
from ..core import sym, tree_coq, tree_leaves, tree_fill, tname, SymErr, ty_shape

CFGS = ['sse2', 'scalar', 'coresimd']
MAT = {'Mat3': (3, 'f32'), 'Mat3A': (3, 'f32'), 'Mat4': (4, 'f32'), 'DMat3': (3, 'f64'), 'DMat4': (4, 'f64')}
QUAT = {'Quat': 'f32', 'DQuat': 'f64'}
def half(k): return '(lit32 1056964608)' if k == 'f32' else '(lit64 4602678819172646912)'
def S(x): return '(k_un FSin %s)' % x
def C(x): return '(k_un FCos %s)' % x
def mmul(A, B): return [[alg.S([alg.P(A[r][j], B[j][c]) for j in range(3)]) for c in range(3)] for r in range(3)]
def elem(axis, t):
    s, c = S(t), C(t); ns = '(- %s)%%K' % s
    return {'X': [['k1', 'k0', 'k0'], ['k0', c, ns], ['k0', s, c]], 'Y': [[c, 'k0', s], ['k0', 'k1', 'k0'], [ns, 'k0', c]], 'Z': [[c, ns, 'k0'], [s, c, 'k0'], ['k0', 'k0', 'k1']]}[axis]
def qelem(axis, t, k):
    h = '(%s * %s)%%K' % (t, half(k)); s, c = S(h), C(h)
    return {'X': [s, 'k0', 'k0', c], 'Y': ['k0', s, 'k0', c], 'Z': ['k0', 'k0', s, c]}[axis]
def hprod(q, p):
    from .C04 import hamilton; return hamilton(q, p)
def embed(M3, n):
    """3x3 rotation as column-major entry list of an n x n matrix"""
    if n == 3: return [M3[r][c] for c in range(3) for r in range(3)]
    out = []
    for c in range(4):
        for r in range(4): out.append(M3[r][c] if r < 3 and c < 3 else ('k1' if r == c else 'k0'))
    return out

def lemmas(idx):
    order = []; seen = {}; cover = []; notes = {'untranslated': []}; n = 0
    def add(cfg, f, vs, args, ret_t, lanes, sname):
        nonlocal n
        args = alg.kxargs(args); lanes = alg.kxl(lanes)
        if f['fid'] is None or f.get('status') == 'missing-callee': notes['untranslated'].append('%s %s' % (cfg, f['key'])); return
        structs = idx.structs(cfg); run = 'rnorm (run OA tbl 400 %d%%positive [%s])' % (f['fid'], '; '.join(args))
        rt = sym(structs, ret_t, 'r', []); rhs = 'Ok (%s)' % tree_fill(rt, iter(lanes)); sh = ty_shape(structs, ret_t)
        lhs = ('rerase OA (%s) (%s)' % (sh, run)) if core.shape_has_hidden(sh) else run
        cover.append((cfg, f)); key = (lhs, rhs)
        if key in seen: seen[key].meta['covers'].append('%s:%s' % (cfg, f['key'])); return
        n += 1; lem = alg.AlgLemma('rot_%d' % n, vs, lhs, rhs, meta={'cfg': cfg, 'key': f['key'], 'file': f['file'], 'fid': f['fid'], 'did': f['did'], 'covers': ['%s:%s' % (cfg, f['key'])], 'spec': sname})
        seen[key] = lem; order.append(lem)
    for cfg in CFGS:
        structs = idx.structs(cfg); enums = idx.enums(cfg); orders = enums.get('EulerRot', [])
        for f in idx.fns(cfg):
            st = f['self']; tn = tname(st) if st is not None else None
            if f['generic'] or f['by_ref'] or f['has_self'] or not f['pub']: continue
            name = f['name']
            try:
                if tn in QUAT:
                    k = QUAT[tn]
                    if name == 'from_axis_angle' and len(f['params']) == 2:
                        vs = []; a = sym(structs, f['params'][0][1], 'a', vs); t = sym(structs, k, 't', vs); ax = [l[2] for l in tree_leaves(a)]
                        h = '(%s * %s)%%K' % (t[2], half(k))
                        add(cfg, f, vs, [tree_coq(a), tree_coq(t)], st, ['(%s * %s)%%K' % (x, S(h)) for x in ax] + [C(h)], 'axis-angle quaternion')
                    elif name in ('from_rotation_x', 'from_rotation_y', 'from_rotation_z') and len(f['params']) == 1:
                        vs = []; t = sym(structs, k, 't', vs); add(cfg, f, vs, [tree_coq(t)], st, qelem(name[-1].upper(), t[2], k), name)
                    elif name == 'from_euler' and len(f['params']) == 4:
                        for oi, on in enumerate(orders):
                            vs = []; ang = [sym(structs, k, x, vs) for x in 'abc']; ex = on.endswith('Ex'); L = on[:3]
                            qs = [qelem(L[i], ang[i][2], k) for i in range(3)]
                            q = hprod(hprod(qs[0], qs[1]), qs[2]) if not ex else hprod(hprod(qs[2], qs[1]), qs[0])
                            add(cfg, f, vs, ['VI U32 %d' % oi] + [tree_coq(x) for x in ang], st, q, 'from_euler %s = product of single-axis quaternions' % on)
                elif tn in MAT:
                    d, k = MAT[tn]
                    if name == 'from_axis_angle' and len(f['params']) == 2:
                        vs = []; a = sym(structs, f['params'][0][1], 'a', vs); t = sym(structs, k, 't', vs); x, y, z = [l[2] for l in tree_leaves(a)]; s, c = S(t[2]), C(t[2])
                        omc = '(k1 - %s)' % c
                        R = [['(%s*%s*%s + %s)%%K' % (x, x, omc, c), '(%s*%s*%s - %s*%s)%%K' % (x, y, omc, z, s), '(%s*%s*%s + %s*%s)%%K' % (x, z, omc, y, s)],
                             ['(%s*%s*%s + %s*%s)%%K' % (x, y, omc, z, s), '(%s*%s*%s + %s)%%K' % (y, y, omc, c), '(%s*%s*%s - %s*%s)%%K' % (y, z, omc, x, s)],
                             ['(%s*%s*%s - %s*%s)%%K' % (x, z, omc, y, s), '(%s*%s*%s + %s*%s)%%K' % (y, z, omc, x, s), '(%s*%s*%s + %s)%%K' % (z, z, omc, c)]]
                        add(cfg, f, vs, [tree_coq(a), tree_coq(t)], st, embed(R, d), 'Rodrigues formula')
                    elif name in ('from_rotation_x', 'from_rotation_y', 'from_rotation_z') and len(f['params']) == 1:
                        vs = []; t = sym(structs, k, 't', vs); add(cfg, f, vs, [tree_coq(t)], st, embed(elem(name[-1].upper(), t[2]), d), name)
                    elif name == 'from_euler' and len(f['params']) == 4:
                        for oi, on in enumerate(orders):
                            vs = []; ang = [sym(structs, k, x, vs) for x in 'abc']; ex = on.endswith('Ex'); L = on[:3]
                            Rs = [elem(L[i], ang[i][2]) for i in range(3)]
                            R = mmul(mmul(Rs[0], Rs[1]), Rs[2]) if not ex else mmul(mmul(Rs[2], Rs[1]), Rs[0])
                            add(cfg, f, vs, ['VI U32 %d' % oi] + [tree_coq(x) for x in ang], st, embed(R, d), 'from_euler %s = product of elementary rotations' % on)
            except SymErr: continue
    # ---- extraction: to_euler of the 3x3 matrix types, both branches (regular / gimbal) of each of the 24 orders.  The parameters of each order follow
    # Shoemake's convention and are derived here from the NAME of the variant, not from the table in src/euler.rs: for `ABC` (static frame) the initial
    # axis is A, the parity is even iff B is the cyclic successor of A, the first axis is repeated iff A = C; the `Ex` variants use the relative frame
    # with the roles of the first and last letter exchanged.  atan2 is the uninterpreted binary primitive.
    AX = {'X': 0, 'Y': 1, 'Z': 2}
    def shoemake(on):
        ex = on.endswith('Ex'); L = on[:3]; first, mid, last = (L[2], L[1], L[0]) if ex else (L[0], L[1], L[2])
        i = AX[first]; even = (AX[mid] == (i + 1) % 3); rep = (first == last)
        j = (i + 1) % 3 if even else (i + 2) % 3; kx = (i + 2) % 3 if even else (i + 1) % 3
        return i, j, kx, even, rep, not ex
    def at2(y, x): return '(k_bin FAtan2 %s %s)' % (y, x)
    for cfg in CFGS:
        structs = idx.structs(cfg); enums = idx.enums(cfg); orders = enums.get('EulerRot', [])
        for f in idx.fns(cfg):
            st = f['self']; tn = tname(st) if st is not None else None
            if tn not in ('Mat3', 'Mat3A', 'DMat3') or f['name'] != 'to_euler' or f['generic'] or f['by_ref'] or not f['pub'] or not f['has_self'] or len(f['params']) != 1 or f['fid'] is None: continue
            k = 'f32' if tn != 'DMat3' else 'f64'; VFk = 'VF32' if k == 'f32' else 'VF64'
            sixteen_eps = '(lit32 1098907648 * lit32 872415232)%K' if k == 'f32' else '(lit64 4625196817309499392 * lit64 4372995238176751616)%K'
            try:
                for oi, on in enumerate(orders):
                    vs = []; m = sym(structs, st, 'm', vs); L = [l[2] for l in tree_leaves(m)]
                    def col(c, r): return L[c * 3 + r]
                    i, j, kx, even, rep, static = shoemake(on)
                    if rep:
                        rad = '(k_un FSqrt (%s * %s + %s * %s)%%K)' % (col(i, j), col(i, j), col(i, kx), col(i, kx))
                        reg = [at2(col(i, j), col(i, kx)), at2(rad, col(i, i)), at2(col(j, i), '(- %s)%%K' % col(kx, i))]
                        gim = [at2('(- %s)%%K' % col(j, kx), col(j, j)), at2(rad, col(i, i)), 'k0']
                    else:
                        rad = '(k_un FSqrt (%s * %s + %s * %s)%%K)' % (col(i, i), col(i, i), col(j, i), col(j, i))
                        reg = [at2(col(kx, j), col(kx, kx)), at2('(- %s)%%K' % col(kx, i), rad), at2(col(j, i), col(i, i))]
                        gim = [at2('(- %s)%%K' % col(j, kx), col(j, j)), at2('(- %s)%%K' % col(kx, i), rad), 'k0']
                    for nm, ea, val in (('regular', reg, True), ('gimbal', gim, False)):
                        e2 = ['(- %s)%%K' % x for x in ea] if even else list(ea)
                        if not static: e2 = [e2[2], e2[1], e2[0]]
                        args = alg.kxargs([tree_coq(m)]) + ['VI U32 %d' % oi]
                        lhs = 'rnorm (run OA tbl 400 %d%%positive [%s])' % (f['fid'], '; '.join(args))
                        rhs = 'Ok (VT [%s])' % '; '.join('%s (KX %s)' % (VFk, x) for x in e2); hy = (alg.cmp_hyp('FGt', rad, sixteen_eps, val),)
                        if (cfg, f) not in cover: cover.append((cfg, f))
                        key = (lhs, rhs, hy)
                        if key in seen: seen[key].meta['covers'].append('%s:%s' % (cfg, f['key'])); continue
                        n += 1; lem = alg.AlgLemma('rot_%d' % n, vs, lhs, rhs, hyps=list(hy), tactic=alg.cond_tac(), meta={'cfg': cfg, 'key': f['key'], 'file': f['file'], 'fid': f['fid'], 'did': f['did'], 'covers': ['%s:%s' % (cfg, f['key'])], 'fixed': {'order': on}, 'spec': 'to_euler %s, %s branch (Shoemake extraction)' % (on, nm)})
                        seen[key] = lem; order.append(lem)
            except (SymErr, KeyError): continue
    # ---- extraction: to_axis_angle of the quaternion types, both paths: |v| >= 1e-8 -> (v / |v|, 2 atan2(|v|, w)), else (X, 0)
    for cfg in CFGS:
        structs = idx.structs(cfg)
        for f in idx.fns(cfg):
            st = f['self']; tn = tname(st) if st is not None else None
            if tn not in QUAT or f['name'] != 'to_axis_angle' or f['generic'] or f['by_ref'] or not f['pub'] or not f['has_self'] or f['params'] or f['fid'] is None: continue
            k = 'f32' if tn == 'Quat' else 'f64'
            eps = ('(lit32 841731191)' if k == 'f32' else '(lit64 4487126258331716666)'); two = '(lit32 1073741824)' if k == 'f32' else '(lit64 4611686018427387904)'
            try:
                vs = []; q = sym(structs, st, 'q', vs); x, y, z, w = [l[2] for l in tree_leaves(q)]
                ln = '(k_un FSqrt (%s * %s + %s * %s + %s * %s)%%K)' % (x, x, y, y, z, z)
                reg = ['(%s / %s)%%K' % (c, ln) for c in (x, y, z)] + ['(%s * %s)%%K' % (two, at2(ln, w))]
                for nm, lanes, val in (('|v| >= 1e-8 -> (v / |v|, 2 atan2(|v|, w))', reg, True), ('|v| < 1e-8 -> (X, 0)', ['k1', 'k0', 'k0', 'k0'], False)):
                    lhs = 'rnorm (run OA tbl 400 %d%%positive [%s])' % (f['fid'], '; '.join(alg.kxargs([tree_coq(q)])))
                    rt = sym(structs, f['ret'], 'r', []); rhs = 'Ok (%s)' % tree_fill(rt, iter(alg.kxl(lanes))); hy = (alg.cmp_hyp('FGe', ln, eps, val),)
                    if (cfg, f) not in cover: cover.append((cfg, f))
                    key = (lhs, rhs, hy)
                    if key in seen: seen[key].meta['covers'].append('%s:%s' % (cfg, f['key'])); continue
                    n += 1; lem = alg.AlgLemma('rot_%d' % n, vs, lhs, rhs, hyps=list(hy), tactic=alg.cond_tac(), meta={'cfg': cfg, 'key': f['key'], 'file': f['file'], 'fid': f['fid'], 'did': f['did'], 'covers': ['%s:%s' % (cfg, f['key'])], 'spec': 'to_axis_angle: ' + nm})
                    seen[key] = lem; order.append(lem)
            except (SymErr, KeyError): continue
    files = {}; nfiles = max(1, (len(order) + 7) // 8)
    for i, lem in enumerate(order): files.setdefault('Rot_%03d' % (i % nfiles), []).append(lem)
    notes['covered_functions'] = len(cover); notes['distinct_statements'] = n; notes['untranslated_count'] = len(notes['untranslated'])
    return files, notes, cover

def run(tier, seed):
    t0 = time.time(); idx, info = flow.prepare()
    files, notes, cover = lemmas(idx)
    per_fn = 6 if tier == 'quick' else 60
    # extraction direction: round trips through the crate (differential; the identity from_euler o to_euler = id is the oracle)
    from .. import euler_rt
    rstat, rbad = euler_rt.run(idx, seed, 12 if tier == 'quick' else 120)
    notes['euler_round_trips'] = rstat
    return f1.run('C09', tier, seed, idx, info, t0, files, notes, cover, alg.BOILER, per_fn,
        'one algebraic lemma per rotation constructor (axis-angle, single-axis, all 24 Euler orders) of Quat/DQuat/Mat3/Mat3A/Mat4/DMat3/DMat4 in the three backends, over an arbitrary field with sin/cos uninterpreted (odd/even); correspondence: %d random calls per constructor (the libm results are not modelled: functions that reach sin/cos are compared only through the model of the surrounding arithmetic)' % per_fn,
        ['reference formulas (elementary rotations, Rodrigues, Hamilton product) in harness/props/C09.py and coq/theories/RotAlg.v', 'sin(-x) = -sin x, cos(-x) = cos x as section hypotheses'],
        ['to_euler / to_axis_angle / to_scaled_axis round trips and float-level error near singularities are not proved'], footer=alg.FOOTER, extra={'extra_violations': rbad[:10]})
