"""C05 - Quat, Mat3/Mat3A, Mat4 and Affine types are interchangeable views of a transform.

Proved (over an arbitrary field for the arithmetic ones; pure moves otherwise), for the sse2, scalar-math and core-simd tables:
  from_quat (Mat3, Mat3A, DMat3, Mat4, DMat4, Affine3A, DAffine3)   = the same quaternion rotation matrix R(q), embedded
  Mat3 <-> Mat3A, Mat3/Mat3A -> Mat4, Mat2 <- Mat3/Mat3A block, Affine3A <-> Mat4, Affine2 <-> Mat3/Mat3A: the same entries
                                                                     (linear part, translation column, homogeneous row 0..0 1)
  affine * affine                = (A1 A2, A1 t2 + t1);   affine inverse = (A^-1, -(A^-1 t)) with A^-1 = adj/det (det <> 0)
  as_d* / as_* casts between f32 and f64 forms: entry-wise casts
Together with C06 (M*v, transform_point = linear*p + translation, for every representation over the same entries), C03 (Mat4 product
and inverse) and C04 (q*v = R(q) v, coq/theories/QuatAlg.v: R(q p) v = R(q) (R(p) v)) this gives: the converted object acts on every
point and direction like the original, and conversion commutes with composition, inversion and identity.
Matrix -> quaternion (from_mat3 / from_rotation_axes, four branches) is covered by the correspondence run only in this round."""
import time
from .. import core, flow, f1, alg
from ..core import sym, tree_coq, tree_leaves, tree_fill, tname, SymErr, ty_shape
from .C10 import qmat, compose, ident

CFGS = ['sse2', 'scalar', 'coresimd']
SHAPE = {'Mat2': (2, 2), 'DMat2': (2, 2), 'Mat3': (3, 3), 'DMat3': (3, 3), 'Mat3A': (3, 3), 'Mat4': (4, 4), 'DMat4': (4, 4), 'Affine3A': (3, 4), 'DAffine3': (3, 4), 'Affine2': (2, 3), 'DAffine2': (2, 3)}   # rows, cols

AFFINE = ('Affine3A', 'DAffine3', 'Affine2', 'DAffine2')
def entries(structs, t, pre, vs):
    tr = sym(structs, t, pre, vs); L = [l[2] for l in tree_leaves(tr)]; rows, cols = SHAPE[tname(t)]
    return tr, [[L[c * rows + r] for c in range(cols)] for r in range(rows)]
def homog(M, rows, cols):
    """entry function of the homogeneous square matrix denoted by an affine (rows x cols, cols = rows + 1) or square matrix"""
    def e(r, c):
        if r < rows and c < cols: return M[r][c]
        return 'k1' if r == c else 'k0'
    return e
def colmajor(e, rows, cols): return [e(r, c) for c in range(cols) for r in range(rows)]

def lemmas(idx):
    order = []; seen = {}; cover = []; notes = {'untranslated': []}; n = 0
    def add(cfg, f, vs, args, ret_t, lanes, sname, hyps=(), tactic='alg_ring'):
        nonlocal n
        args = alg.kxargs(args); lanes = alg.kxl(lanes)
        if f['fid'] is None or f.get('status') == 'missing-callee': notes['untranslated'].append('%s %s' % (cfg, f['key'])); return
        structs = idx.structs(cfg); run = 'rnorm (run OA tbl 400 %d%%positive [%s])' % (f['fid'], '; '.join(args))
        rt = sym(structs, ret_t, 'r', [])
        if len(tree_leaves(rt)) != len(lanes): return
        rhs = 'Ok (%s)' % tree_fill(rt, iter(lanes)); sh = ty_shape(structs, ret_t)
        lhs = ('rerase OA (%s) (%s)' % (sh, run)) if core.shape_has_hidden(sh) else run
        cover.append((cfg, f)); key = (lhs, rhs, tuple(hyps))
        if key in seen: seen[key].meta['covers'].append('%s:%s' % (cfg, f['key'])); return
        n += 1; lem = alg.AlgLemma('rep_%d' % n, vs, lhs, rhs, hyps=hyps, tactic=tactic, meta={'cfg': cfg, 'key': f['key'], 'file': f['file'], 'fid': f['fid'], 'did': f['did'], 'covers': ['%s:%s' % (cfg, f['key'])], 'spec': sname})
        seen[key] = lem; order.append(lem)
    for cfg in CFGS:
        structs = idx.structs(cfg)
        for f in idx.fns(cfg):
            if f['generic'] or f['by_ref'] or not f['pub']: continue
            st = f['self']; tn = tname(st) if st is not None else None; name = f['name']; tr = f['trait'][0] if f['trait'] else None; ps = f['params']
            try:
                if tn in SHAPE and not f['has_self'] and len(ps) == 1:
                    src = ps[0][1]; sn = tname(src); rows, cols = SHAPE[tn]
                    if name == 'from_quat' and sn in ('Quat', 'DQuat') and tn in ('Mat3', 'Mat3A', 'DMat3'):
                        vs = []; q = sym(structs, src, 'q', vs); add(cfg, f, vs, [tree_coq(q)], st, colmajor(homog(qmat([l[2] for l in tree_leaves(q)]), 3, 3), 3, 3), 'R(q)')
                    elif sn in SHAPE and (name in ('from_mat3', 'from_mat3a', 'from_mat4', 'from_affine3', 'from') or tr == 'From'):
                        vs = []; m, M = entries(structs, src, 'm', vs); srows, scols = SHAPE[sn]
                        e = homog(M, srows, scols)
                        # same entries: larger targets embed homogeneously, smaller targets take the leading block (and, for affine targets, the translation column)
                        if tn in ('Affine3A', 'DAffine3', 'Affine2', 'DAffine2') and sn not in ('Affine3A', 'DAffine3', 'Affine2', 'DAffine2'):
                            d = rows; lanes = [e(r, c) for c in range(d) for r in range(d)] + ([e(r, d) for r in range(d)] if scols > d else ['k0'] * d)
                        else: lanes = colmajor(e, rows, cols)
                        add(cfg, f, vs, [tree_coq(m)], st, lanes, 'same entries (%s from %s)' % (tn, sn))
                elif tn in ('Quat', 'DQuat') and not f['has_self'] and len(ps) == 1 and name in ('from_mat3', 'from_mat3a', 'from_mat4') and tname(ps[0][1]) in SHAPE:
                    # matrix -> quaternion: the four branches of the trace-free construction (DirectXMath XMQuaternionRotationMatrix), m[r][c] = entry (row r, column c)
                    vs = []; m, M = entries(structs, ps[0][1], 'm', vs); kf = 'f32' if tn == 'Quat' else 'f64'; hf = '(lit32 1056964608)' if kf == 'f32' else '(lit64 4602678819172646912)'
                    # glam names m01 = x_axis.y (column 0, row 1): c[i][j] = M[j][i]
                    c = [[M[j][i] for j in range(3)] for i in range(3)]
                    m00, m01, m02 = c[0]; m10, m11, m12 = c[1]; m20, m21, m22 = c[2]
                    dif = '(%s - %s)%%K' % (m11, m00); sm = '(%s + %s)%%K' % (m11, m00)
                    def q4(t, comps): i = '(%s / k_un FSqrt %s)%%K' % (hf, t); return [('(%s * %s)%%K' % (t, i)) if x is None else ('(%s * %s)%%K' % (x, i)) for x in comps]
                    tx = '((k1 - %s) - %s)%%K' % (m22, dif); ty = '((k1 - %s) + %s)%%K' % (m22, dif); tz = '((k1 + %s) - %s)%%K' % (m22, sm); tw = '((k1 + %s) + %s)%%K' % (m22, sm)
                    P = lambda a_, b_: '(%s + %s)%%K' % (a_, b_); Mn = lambda a_, b_: '(%s - %s)%%K' % (a_, b_)
                    br = [('x^2 largest', [alg.cmp_hyp('FLe', m22, 'k0', True), alg.cmp_hyp('FLe', dif, 'k0', True)], q4(tx, [None, P(m01, m10), P(m02, m20), Mn(m12, m21)])),
                          ('y^2 largest', [alg.cmp_hyp('FLe', m22, 'k0', True), alg.cmp_hyp('FLe', dif, 'k0', False)], q4(ty, [P(m01, m10), None, P(m12, m21), Mn(m20, m02)])),
                          ('z^2 largest', [alg.cmp_hyp('FLe', m22, 'k0', False), alg.cmp_hyp('FLe', sm, 'k0', True)], q4(tz, [P(m02, m20), P(m12, m21), None, Mn(m01, m10)])),
                          ('w^2 largest', [alg.cmp_hyp('FLe', m22, 'k0', False), alg.cmp_hyp('FLe', sm, 'k0', False)], q4(tw, [Mn(m12, m21), Mn(m20, m02), Mn(m01, m10), None]))]
                    for nm, hy, lanes in br: add(cfg, f, vs, [tree_coq(m)], st, lanes, 'matrix -> quaternion, branch %s' % nm, hyps=hy, tactic=alg.cond_tac())
                elif tn in SHAPE and f['has_self'] and tr == 'Mul' and name == 'mul' and len(ps) == 1 and tname(ps[0][1]) in SHAPE and tname(ps[0][1]) != tn and tname(f['ret']) in SHAPE and ((tn in AFFINE) != (tname(ps[0][1]) in AFFINE)):
                    # mixed products (Mat4 * Affine3A, Affine3A * Mat4, Mat3 * Affine2, ...): the product of the homogeneous matrices, in this order
                    on = tname(ps[0][1]); vs = []; a, A = entries(structs, st, 'a', vs); b, B = entries(structs, ps[0][1], 'b', vs)
                    ra, ca = SHAPE[tn]; rb, cb = SHAPE[on]; dim = max(ca, cb); ea = homog(A, ra, ca); eb = homog(B, rb, cb)
                    rr, rc = SHAPE[tname(f['ret'])]
                    def e(r, c): return alg.S([alg.P(ea(r, j), eb(j, c)) for j in range(dim)])
                    add(cfg, f, vs, [tree_coq(a), tree_coq(b)], f['ret'], colmajor(e, rr, rc), 'mixed product %s * %s = product of the homogeneous matrices (left operand first)' % (tn, on))
                elif tn in ('Affine3A', 'DAffine3', 'Affine2', 'DAffine2') and f['has_self']:
                    rows, cols = SHAPE[tn]; d = rows
                    if tr == 'Mul' and name == 'mul' and len(ps) == 1 and tname(ps[0][1]) == tn:
                        vs = []; a, A = entries(structs, st, 'a', vs); b, B = entries(structs, st, 'b', vs)
                        def e(r, c):
                            if c < d: return alg.S([alg.P(A[r][j], B[j][c]) for j in range(d)])
                            return alg.S([alg.P(A[r][j], B[j][d]) for j in range(d)] + [A[r][d]])
                        add(cfg, f, vs, [tree_coq(a), tree_coq(b)], st, colmajor(e, rows, cols), 'affine product (A1 A2, A1 t2 + t1)')
                    elif name == 'inverse' and not ps:
                        vs = []; a, A = entries(structs, st, 'a', vs); L = [[A[r][c] for c in range(d)] for r in range(d)]; dt = alg.det(L)
                        inv = [['(%s / %s)%%K' % (alg.cofactor(L, c, r), dt) for c in range(d)] for r in range(d)]
                        def e(r, c):
                            if c < d: return inv[r][c]
                            return '(- %s)%%K' % alg.S([alg.P(inv[r][j], A[j][d]) for j in range(d)])
                        add(cfg, f, vs, [tree_coq(a)], st, colmajor(e, rows, cols), 'affine inverse (A^-1, -(A^-1 t))', hyps=['%s <> k0' % dt], tactic='alg_field')
                elif tn in SHAPE and f['has_self'] and not ps and name.startswith('as_') and tname(f['ret']) in SHAPE:
                    vs = []; m, M = entries(structs, st, 'm', vs); rows, cols = SHAPE[tn]
                    add(cfg, f, vs, [tree_coq(m)], f['ret'], colmajor(lambda r, c: M[r][c], rows, cols), 'cast entry-wise')
            except (SymErr, KeyError, IndexError): continue
    files = {}; nfiles = max(1, (len(order) + 5) // 6)
    for i, lem in enumerate(order): files.setdefault('Rep_%03d' % (i % nfiles), []).append(lem)
    notes['covered_functions'] = len(cover); notes['distinct_statements'] = n; notes['untranslated_count'] = len(notes['untranslated'])
    return files, notes, cover

def run(tier, seed):
    t0 = time.time(); idx, info = flow.prepare()
    files, notes, cover = lemmas(idx)
    per_fn = 6 if tier == 'quick' else 60
    return f1.run('C05', tier, seed, idx, info, t0, files, notes, cover, alg.BOILER_MOD, per_fn,
        'one lemma per conversion between transform representations (from_quat, Mat3<->Mat3A, embeddings into Mat4, Affine<->matrix, f32<->f64), per affine product and affine inverse, three backends, against common entry formulas over an arbitrary field; correspondence: %d random calls per function' % per_fn,
        ['entry formulas in harness/props/C05.py (shared with C10)', 'the action of each representation on points/vectors is the one proved in C06/C11/C04'],
        ['matrix -> quaternion conversions (from_mat3, from_rotation_axes) and float-level agreement bounds of conversion chains are differential only'], footer=alg.FOOTER)
