"""C15 - comparison masks, select and the mask algebra behave as lane-wise booleans.

(a) cmpeq/ne/lt/le/gt/ge on every vector type (all Ops): mask lane i is the primitive comparison of lane i, in the
    representation of the mask type of that configuration (bool field, u32 field 0/all-ones, all-ones/zero f32 register lane,
    core::simd mask lane).  That the float comparison primitives are false on NaN except `ne` is a property of the IEEE
    instance (coq/theories/FloatFacts.v).
(b) select(mask, a, b) (all Ops): lane i is a's lane if the mask lane is true else b's - literally for bool/u32/core-simd
    masks; for SSE2 register masks the lane is (b & !m) | (a & m), and FloatFacts.v proves that for m in {0, all-ones}
    this is bit-for-bit a or b.
(c) mask types: every value reachable through the public API has all lanes (the hidden lane of BVec3A included) in
    {false, true} resp. {0, all-ones}; on such values - quantified as N (+1) booleans - &, |, ^, !, any, all, bitmask, test,
    set, ==, and the conversions to [bool; N] / [u32; N] are the lane-wise boolean functions.  For scalar and core-simd
    masks this is proved for all Ops; for SSE2 register masks in the IEEE instance by exhaustive case analysis over the
    2^N (2^2N for binary operators) values - a finite domain, so the enumeration is a proof.  BVec3A/BVec4A therefore behave
    exactly like BVec3/BVec4 on the abstraction."""
import re, time, itertools
from .. import core, flow, f1
from ..core import sym, tree_coq, tree_leaves, tree_fill, tshow, tname, SymErr, ty_shape, ikc, INTS, mask_kind
from .C17 import is_vec

CFGS = ['sse2', 'scalar', 'coresimd']
CMP = {'cmpeq': 'Eq', 'cmpne': 'Ne', 'cmplt': 'Lt', 'cmple': 'Le', 'cmpgt': 'Gt', 'cmpge': 'Ge'}
ALL1 = 4294967295

def mask_lane(kind, cond, ops='O'):
    """Coq value of one mask lane holding boolean term `cond`"""
    if kind in ('bool', 'simd'): return 'VB %s' % cond
    if kind == 'u32': return 'VI U32 (if %s then %d else 0)' % (cond, ALL1)
    if kind == 'm128': return 'VF32 (f32_of_bits %s (if %s then %d else 0))' % (ops, cond, ALL1)
    raise SymErr('mask kind')

def mask_value(structs, n, conds, ops='O', hidden='VUnit'):
    """value of mask type n whose visible lanes hold the boolean terms conds; hidden lane (if any) = `hidden`"""
    kind = mask_kind(structs, n); lanes = [mask_lane(kind, c, ops) for c in conds]
    if kind in ('m128', 'simd'):
        if len(conds) == 3: lanes.append(hidden)
        return 'VT [VT [%s]]' % '; '.join(lanes)
    return 'VT [%s]' % '; '.join(lanes)

def dim_of(n): return int(re.search(r'(\d)', n).group(1))

def spec(cfg, structs, f):
    name = f['name']; tr = f['trait'][0] if f['trait'] else None; st = f['self']
    if f['generic'] or f['by_ref']: return None
    sn = tname(st) if st is not None else None
    def mk(vs, args, rhs, sname, ret_t, mode=None, ops='O'):
        if f['fid'] is None: return 'untranslated'
        run = 'run %s tbl 200 %d%%positive [%s]' % (ops, f['fid'], '; '.join(args)); sh = ty_shape(structs, ret_t)
        d = {'vars': vs, 'lhs': ('rerase %s (%s) (%s)' % (ops, sh, run)) if core.shape_has_hidden(sh) else run, 'rhs': rhs, 'spec': sname}
        if mode == 'intstd': d['intstd'] = True
        if mode == 'ieee': d['mode'] = 'ieee'; d['ty'] = 'res (valO IEEEr)'
        return d
    # ---------- (a) comparisons
    if tr is None and name in CMP and st is not None and is_vec(st) and f['has_self'] and len(f['params']) == 1 and tname(f['ret']) in f1.MASK_TYPES:
        vs = []; a = sym(structs, st, 'a', vs); b = sym(structs, f['params'][0][1], 'b', vs); la = tree_leaves(a); lb = tree_leaves(b)
        if len(la) != len(lb): return None
        k = la[0][1]; mn = tname(f['ret'])
        def c(x, y): return ('(i_cmp O I%s %s %s)' % (CMP[name], x, y)) if k in INTS else '(%s_cmp O F%s %s %s)' % (k, CMP[name], x, y)
        kind = mask_kind(structs, mn)
        return mk(vs, [tree_coq(a), tree_coq(b)], 'Ok (%s)' % mask_value(structs, mn, [c(x[2], y[2]) for x, y in zip(la, lb)]), 'lane-wise comparison', f['ret'], mode='intstd' if kind == 'u32' else None)
    # ---------- (b) select
    if tr is None and name == 'select' and st is not None and is_vec(st) and not f['has_self'] and len(f['params']) == 3 and tname(f['params'][0][1]) in f1.MASK_TYPES:
        mn = tname(f['params'][0][1]); kind = mask_kind(structs, mn); vs = []
        m = sym(structs, f['params'][0][1], 'm', vs); a = sym(structs, f['params'][1][1], 'a', vs); b = sym(structs, f['params'][2][1], 'b', vs)
        lm = tree_leaves(m, visible_only=False); la = tree_leaves(a, False); lb = tree_leaves(b, False); rt = sym(structs, st, 'r', [])
        k = la[0][1]
        if kind in ('bool', 'simd'):
            lanes = ['(if %s then %s else %s)' % (mm[2], x[2], y[2]) for mm, x, y in zip(lm, la, lb)]
            rl = tree_leaves(rt, False)
            return mk(vs, [tree_coq(m), tree_coq(a), tree_coq(b)], 'Ok (%s)' % core.tree_fill(rt, iter(lanes[:len(tree_leaves(rt))])), 'select = lane-wise choice', st)
        if kind == 'u32':
            # scalar-math SIMD-named masks: lane test is (m & 1) != 0 in the source; quantify over boolean lanes
            vs2 = [v for v in vs if not v[0].startswith('m')]; bs = [('m%d' % i, 'bool') for i in range(len(lm))]
            margs = 'VT [%s]' % '; '.join(mask_lane('u32', b_[0]) for b_ in bs)
            lanes = ['(if %s then %s else %s)' % (b_[0], x[2], y[2]) for b_, x, y in zip(bs, la, lb)]
            return mk(bs + vs2, [margs, tree_coq(a), tree_coq(b)], 'Ok (%s)' % core.tree_fill(rt, iter(lanes)), 'select = lane-wise choice (u32 mask lanes 0 / all-ones)', st, mode='intstd')
        if kind == 'm128':
            lanes = ['(f32_2 O FOr (f32_2 O FAndNot %s %s) (f32_2 O FAnd %s %s))' % (mm[2], y[2], x[2], mm[2]) for mm, x, y in zip(lm, la, lb)]
            nvis = len(tree_leaves(rt))
            return mk(vs, [tree_coq(m), tree_coq(a), tree_coq(b)], 'Ok (%s)' % core.tree_fill(rt, iter(lanes[:nvis])), 'select = (b & !m) | (a & m) per lane (FloatFacts.select_bits)', st)
        return None
    # ---------- (c) mask types
    if sn in f1.MASK_TYPES:
        kind = mask_kind(structs, sn); N = dim_of(sn); hid = (kind in ('m128', 'simd') and N == 3)
        ieee = kind == 'm128'; ops = 'IEEEr' if ieee else 'O'; mode = 'ieee' if ieee else 'intstd'
        def mval(pre, vs):
            bs = ['%s%d' % (pre, i) for i in range(N + (1 if hid else 0))]
            for b_ in bs: vs.append((b_, 'bool'))
            return mask_value(structs, sn, bs[:N], ops, hidden=mask_lane(kind, bs[N], ops) if hid else 'VUnit'), bs[:N]
        def res_mask(conds): return 'Ok (%s)' % mask_value(structs, sn, conds, ops)
        binop = {'BitAnd': 'andb', 'BitOr': 'orb', 'BitXor': 'xorb'}
        if tr in binop and name in ('bitand', 'bitor', 'bitxor') and len(f['params']) == 1 and tname(f['params'][0][1]) == sn:
            vs = []; a, ab = mval('a', vs); b, bb = mval('b', vs)
            return mk(vs, [a, b], res_mask(['(%s %s %s)' % (binop[tr], x, y) for x, y in zip(ab, bb)]), tr, st, mode, ops)
        if tr == 'Not' and name == 'not':
            vs = []; a, ab = mval('a', vs); return mk(vs, [a], res_mask(['(negb %s)' % x for x in ab]), 'Not', st, mode, ops)
        if tr is None and f['has_self'] and not f['params']:
            vs = []; a, ab = mval('a', vs)
            if name == 'any': return mk(vs, [a], 'Ok (VB (%s))' % ' || '.join(ab), 'any', 'bool', mode, ops)
            if name == 'all': return mk(vs, [a], 'Ok (VB (%s))' % ' && '.join(ab), 'all', 'bool', mode, ops)
            if name == 'bitmask': return mk(vs, [a], 'Ok (VI U32 (%s))' % ' + '.join('(if %s then %d else 0)' % (x, 1 << i) for i, x in enumerate(ab)), 'bitmask', 'u32', mode, ops)
        if tr is None and name == 'test' and f['has_self'] and len(f['params']) == 1:
            out = []
            for i in range(N):
                vs = []; a, ab = mval('a', vs); out.append(mk(vs, [a, 'VI USize %d' % i], 'Ok (VB %s)' % ab[i], 'test %d' % i, 'bool', mode, ops))
            for i in (N, N + 1, 18446744073709551615):     # documented panic: index out of range (never the hidden lane of the three-lane register masks)
                vs = []; a, ab = mval('a', vs); out.append(mk(vs, [a, 'VI USize %d' % i], 'Panic', 'test %d panics' % i, 'bool', mode, ops))
            return out
        if tr is None and name == 'set' and f['has_self'] and len(f['params']) == 2:
            out = []
            for i in range(N):
                vs = []; a, ab = mval('a', vs); vs.append(('v', 'bool')); new = list(ab); new[i] = 'v'
                out.append(mk(vs, [a, 'VI USize %d' % i, 'VB v'], res_mask(new), 'set %d' % i, st, mode, ops))
            for i in (N, N + 1, 18446744073709551615):
                vs = []; a, ab = mval('a', vs); vs.append(('v', 'bool')); out.append(mk(vs, [a, 'VI USize %d' % i, 'VB v'], 'Panic', 'set %d panics' % i, st, mode, ops))
            return out
        if tr == 'PartialEq' and name == 'eq' and len(f['params']) == 1:
            vs = []; a, ab = mval('a', vs); b, bb = mval('b', vs)
            return mk(vs, [a, b], 'Ok (VB (%s))' % ' && '.join('(Bool.eqb %s %s)' % (x, y) for x, y in zip(ab, bb)), 'eq', 'bool', mode, ops)
        if tr is None and not f['has_self'] and name == 'new' and len(f['params']) == N:
            vs = [('p%d' % i, 'bool') for i in range(N)]
            return mk(vs, ['VB p%d' % i for i in range(N)], res_mask(['p%d' % i for i in range(N)]), 'new', st, mode, ops)
        if tr is None and not f['has_self'] and name == 'splat' and len(f['params']) == 1:
            return mk([('p', 'bool')], ['VB p'], res_mask(['p'] * N), 'splat', st, mode, ops)
        if tr is None and not f['has_self'] and name == 'from_array' and len(f['params']) == 1:
            vs = [('p%d' % i, 'bool') for i in range(N)]
            return mk(vs, ['VT [%s]' % '; '.join('VB p%d' % i for i in range(N))], res_mask(['p%d' % i for i in range(N)]), 'from_array', st, mode, ops)
        return None
    # conversions of masks to arrays: impl From<BVecN> for [bool; N] / [u32; N]
    if tr == 'From' and not f['has_self'] and len(f['params']) == 1 and tname(f['params'][0][1]) in f1.MASK_TYPES and isinstance(st, dict) and 'a' in st:
        mn = tname(f['params'][0][1]); kind = mask_kind(structs, mn); N = dim_of(mn); hid = (kind in ('m128', 'simd') and N == 3)
        ieee = kind == 'm128'; ops = 'IEEEr' if ieee else 'O'; mode = 'ieee' if ieee else 'intstd'
        bs = ['a%d' % i for i in range(N + (1 if hid else 0))]; vs = [(b_, 'bool') for b_ in bs]
        a = mask_value(structs, mn, bs[:N], ops, hidden=mask_lane(kind, bs[N], ops) if hid else 'VUnit')
        if st['a'] == 'bool': rhs = 'Ok (VT [%s])' % '; '.join('VB %s' % b_ for b_ in bs[:N])
        elif st['a'] == 'u32': rhs = 'Ok (VT [%s])' % '; '.join('VI U32 (if %s then %d else 0)' % (b_, ALL1) for b_ in bs[:N])
        else: return None
        return mk(vs, [a], rhs, 'into array', st, mode, ops)
    return None

HDR = core.HDR.replace('Import Base Spec.', 'Import Base Spec Sem.')

def run(tier, seed):
    t0 = time.time(); idx, info = flow.prepare()
    files, notes, cover = f1.build(idx, CFGS, 'msk', spec, per_file=60, pid='C15')
    per_fn = 4 if tier == 'quick' else 40
    return f1.run('C15', tier, seed, idx, info, t0, files, notes, cover, HDR, per_fn,
        'one lemma per cmp*/select of every vector type and per operation of the five mask types (x literal index), sse2 + scalar-math + core-simd; SSE2 register masks: exhaustive case analysis over all 2^N (2^2N) mask values in the IEEE instance; correspondence: %d random calls per function with NaN / +-0 / inf lanes' % per_fn,
        ['mask representation table (bool / u32 / register lane / core::simd lane) in harness/props/C15.py', 'coq/theories/FloatFacts.v (NaN comparisons, select_bits) for the IEEE instance'],
        ['Hash and Debug/Display of mask types are not in the model yet'])
