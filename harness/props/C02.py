"""C02 - vector geometry (algebraic core; accuracy bounds not proved).

Proved over an arbitrary field for every float vector type in the sse2, scalar-math and core-simd tables: dot, cross, perp_dot,
length_squared, distance_squared, element_sum, element_product, project_onto / reject_from (b.b <> 0), project_onto_normalized /
reject_from_normalized, reflect, lerp and midpoint compute exactly the textbook polynomial / rational function of the lanes - i.e. the
`exact real-arithmetic value` the property measures the error against - whatever the association and SIMD scheduling of the backend.
length / length_recip / distance are the square root (resp. its reciprocal) of that sum: proved as `sqrt` applied to an expression that
`ring` identifies with the sum of squares.
NOT proved in this round: the rounding-error bounds themselves (a few epsilon times the sum of magnitudes), the normalize family's
fallback logic and unit-length claim, angle_between accuracy.  These are exercised by the correspondence run (model = IEEE evaluation of
the same code) and by C18 (no panics); the claim is therefore partial."""
import time
from .. import core, flow, f1, alg
from ..core import sym, tree_coq, tree_leaves, tree_fill, tname, SymErr, ty_shape
from .C01 import FVECS

CFGS = ['sse2', 'scalar', 'coresimd']
def VF(k): return 'VF32' if k == 'f32' else 'VF64'
def dot(A, B): return alg.S([alg.P(a, b) for a, b in zip(A, B)])

def lemmas(idx):
    order = []; seen = {}; cover = []; notes = {'untranslated': []}; n = 0
    def acos_fid(cfg, k):
        key = 'crate::%s::math::std_math::acos_approx' % k
        return next((g['fid'] for g in idx.fns(cfg) if g['key'] == key and g['fid'] is not None), None)
    def add(cfg, f, vs, args, ret_t, lanes, sname, hyps=(), tactic='alg_ring', scalar_k=None, tblx='tbl', rhs_fmt=None):
        nonlocal n
        args = alg.kxargs(args); lanes = alg.kxl(lanes)
        if f['fid'] is None or f.get('status') == 'missing-callee': notes['untranslated'].append('%s %s' % (cfg, f['key'])); return
        structs = idx.structs(cfg); run = 'rnorm (run OA %s 400 %d%%positive [%s])' % (tblx, f['fid'], '; '.join(args))
        if rhs_fmt is not None:
            rt = sym(structs, ret_t, 'r', []) if ret_t is not None else None
            rhs = rhs_fmt % (tree_fill(rt, iter(lanes)) if rt is not None else ''); sh = ty_shape(structs, f['ret'])
            if rt is not None and len(tree_leaves(rt)) != len(lanes): return
        elif scalar_k: rhs = 'Ok (%s %s)' % (VF(scalar_k), lanes[0]); sh = 'SL'
        else:
            rt = sym(structs, ret_t, 'r', [])
            if len(tree_leaves(rt)) != len(lanes): return
            rhs = 'Ok (%s)' % tree_fill(rt, iter(lanes)); sh = ty_shape(structs, ret_t)
        lhs = ('rerase OA (%s) (%s)' % (sh, run)) if core.shape_has_hidden(sh) else run
        cover.append((cfg, f)); key = (lhs, rhs, tuple(hyps))
        if key in seen: seen[key].meta['covers'].append('%s:%s' % (cfg, f['key'])); return
        n += 1; lem = alg.AlgLemma('geo_%d' % n, vs, lhs, rhs, hyps=hyps, tactic=tactic, meta={'cfg': cfg, 'key': f['key'], 'file': f['file'], 'fid': f['fid'], 'did': f['did'], 'covers': ['%s:%s' % (cfg, f['key'])], 'spec': sname})
        seen[key] = lem; order.append(lem)
    for cfg in CFGS:
        structs = idx.structs(cfg)
        for f in idx.fns(cfg):
            st = f['self']; tn = tname(st) if st is not None else None
            if tn not in FVECS or f['generic'] or f['by_ref'] or not f['pub'] or not f['has_self']: continue
            k, d = FVECS[tn]; name = f['name']; ps = f['params']
            same = len(ps) == 1 and tname(ps[0][1]) == tn
            try:
                vs = []; a = sym(structs, st, 'a', vs); A = [l[2] for l in tree_leaves(a)]
                if same: b = sym(structs, st, 'b', vs); Bv = [l[2] for l in tree_leaves(b)]; args = [tree_coq(a), tree_coq(b)]
                if name == 'dot' and same: add(cfg, f, vs, args, None, [dot(A, Bv)], 'dot', scalar_k=k)
                elif name == 'length_squared' and not ps: add(cfg, f, vs, [tree_coq(a)], None, [dot(A, A)], 'length_squared', scalar_k=k)
                elif name == 'distance_squared' and same: D = ['(%s - %s)' % (x, y) for x, y in zip(A, Bv)]; add(cfg, f, vs, args, None, [dot(D, D)], 'distance_squared', scalar_k=k)
                elif name == 'element_sum' and not ps: add(cfg, f, vs, [tree_coq(a)], None, [alg.S(A)], 'element_sum', scalar_k=k)
                elif name == 'element_product' and not ps: add(cfg, f, vs, [tree_coq(a)], None, [alg.P(*A)], 'element_product', scalar_k=k)
                elif name == 'cross' and same and d == 3:
                    add(cfg, f, vs, args, st, ['(%s * %s - %s * %s)%%K' % (A[1], Bv[2], A[2], Bv[1]), '(%s * %s - %s * %s)%%K' % (A[2], Bv[0], A[0], Bv[2]), '(%s * %s - %s * %s)%%K' % (A[0], Bv[1], A[1], Bv[0])], 'cross')
                elif name == 'perp_dot' and same and d == 2: add(cfg, f, vs, args, None, ['(%s * %s - %s * %s)%%K' % (A[0], Bv[1], A[1], Bv[0])], 'perp_dot', scalar_k=k)
                elif name == 'project_onto' and same:
                    add(cfg, f, vs, args, st, ['(%s * %s / %s)%%K' % (y, dot(A, Bv), dot(Bv, Bv)) for y in Bv], 'project_onto = b (a.b)/(b.b)', hyps=['%s <> k0' % dot(Bv, Bv)], tactic='alg_field')
                elif name == 'reject_from' and same:
                    add(cfg, f, vs, args, st, ['(%s - %s * %s / %s)%%K' % (x, y, dot(A, Bv), dot(Bv, Bv)) for x, y in zip(A, Bv)], 'reject_from = a - proj', hyps=['%s <> k0' % dot(Bv, Bv)], tactic='alg_field')
                elif name == 'project_onto_normalized' and same: add(cfg, f, vs, args, st, ['(%s * %s)%%K' % (y, dot(A, Bv)) for y in Bv], 'project_onto_normalized = b (a.b)')
                elif name == 'reject_from_normalized' and same: add(cfg, f, vs, args, st, ['(%s - %s * %s)%%K' % (x, y, dot(A, Bv)) for x, y in zip(A, Bv)], 'reject_from_normalized')
                elif name == 'reflect' and same: add(cfg, f, vs, args, st, ['(%s - (k1 + k1) * %s * %s)%%K' % (x, dot(A, Bv), y) for x, y in zip(A, Bv)], 'reflect = a - 2 (a.n) n')
                elif name == 'length' and not ps: add(cfg, f, vs, [tree_coq(a)], None, ['(k_un FSqrt %s)' % dot(A, A)], 'length = sqrt(sum of squares)', tactic='alg_congr', scalar_k=k)
                elif name == 'distance' and same: D = ['(%s - %s)' % (x, y) for x, y in zip(A, Bv)]; add(cfg, f, vs, args, None, ['(k_un FSqrt %s)' % dot(D, D)], 'distance = sqrt(sum of squared differences)', tactic='alg_congr', scalar_k=k)
                elif name == 'length_recip' and not ps: add(cfg, f, vs, [tree_coq(a)], None, ['(k1 / k_un FSqrt %s)%%K' % dot(A, A)], 'length_recip = 1 / sqrt(sum of squares)', tactic='alg_congr', scalar_k=k)
                elif name == 'normalize' and not ps and cfg in ('sse2', 'scalar', 'coresimd'):
                    add(cfg, f, vs, [tree_coq(a)], st, ['(%s * (k1 / k_un FSqrt %s))%%K' % (x, dot(A, A)) for x in A], 'normalize = self * (1 / length)', tactic='alg_congr')
                elif name in ('try_normalize', 'normalize_or_zero') and not ps or name == 'normalize_or' and same:
                    rcp = '(k1 / k_un FSqrt %s)%%K' % dot(A, A); scaled = ['(%s * %s)%%K' % (x, rcp) for x in A]; ar = args if same else [tree_coq(a)]
                    good = [alg.pred_hyp('FIsFinite', rcp, True), alg.cmp_hyp('FGt', rcp, 'k0', True)]
                    bad1 = [alg.pred_hyp('FIsFinite', rcp, False)]; bad2 = [alg.pred_hyp('FIsFinite', rcp, True), alg.cmp_hyp('FGt', rcp, 'k0', False)]
                    if name == 'try_normalize':
                        rt_ = sym(structs, st, 'r', []); some = 'Ok (VOpt (Some (%s)))' % tree_fill(rt_, iter(alg.kxl(scaled)))
                        add(cfg, f, vs, ar, None, [], 'try_normalize: 1/length finite and positive -> Some (self / length)', hyps=good, tactic=alg.cond_tac(), rhs_fmt=some.replace('%', '%%') + '%s')
                        add(cfg, f, vs, ar, None, [], 'try_normalize: 1/length not finite -> None', hyps=bad1, tactic=alg.cond_tac(), rhs_fmt='Ok (VOpt None)%s')
                        add(cfg, f, vs, ar, None, [], 'try_normalize: 1/length not positive -> None', hyps=bad2, tactic=alg.cond_tac(), rhs_fmt='Ok (VOpt None)%s')
                    else:
                        fb = Bv if same else ['k0'] * len(A)
                        add(cfg, f, vs, ar, st, scaled, '%s: 1/length finite and positive -> self / length' % name, hyps=good, tactic=alg.cond_tac())
                        add(cfg, f, vs, ar, st, fb, '%s: 1/length not finite -> fallback' % name, hyps=bad1, tactic=alg.cond_tac())
                        add(cfg, f, vs, ar, st, fb, '%s: 1/length not positive -> fallback' % name, hyps=bad2, tactic=alg.cond_tac())
                elif name == 'normalize_and_length' and not ps:
                    ln = '(k_un FSqrt %s)' % dot(A, A); rcp = '(k1 / %s)%%K' % ln; scaled = ['(%s * %s)%%K' % (x, rcp) for x in A]; ar = [tree_coq(a)]
                    unitx = ['k1'] + ['k0'] * (len(A) - 1)
                    add(cfg, f, vs, ar, f['ret'], scaled + [ln], 'normalize_and_length: 1/length finite and positive -> (self / length, length)', hyps=[alg.pred_hyp('FIsFinite', rcp, True), alg.cmp_hyp('FGt', rcp, 'k0', True)], tactic=alg.cond_tac())
                    add(cfg, f, vs, ar, f['ret'], unitx + ['k0'], 'normalize_and_length: 1/length not finite -> (X, 0)', hyps=[alg.pred_hyp('FIsFinite', rcp, False)], tactic=alg.cond_tac())
                    add(cfg, f, vs, ar, f['ret'], unitx + ['k0'], 'normalize_and_length: 1/length not positive -> (X, 0)', hyps=[alg.pred_hyp('FIsFinite', rcp, True), alg.cmp_hyp('FGt', rcp, 'k0', False)], tactic=alg.cond_tac())
                elif name == 'refract' and len(ps) == 2 and tname(ps[0][1]) == tn and ps[1][1] == k:
                    b = sym(structs, st, 'b', vs); e_ = sym(structs, k, 'e', vs); Bv = [l[2] for l in tree_leaves(b)]; eta = e_[2]; ar = [tree_coq(a), tree_coq(b), tree_coq(e_)]
                    ndi = dot(Bv, A); kk = '(k1 - %s * %s * (k1 - %s * %s))%%K' % (eta, eta, ndi, ndi)
                    add(cfg, f, vs, ar, st, ['(%s * %s - (%s * %s + k_un FSqrt %s) * %s)%%K' % (eta, x, eta, ndi, kk, y) for x, y in zip(A, Bv)], 'refract: k >= 0 -> eta i - (eta (n.i) + sqrt k) n', hyps=[alg.cmp_hyp('FGe', kk, 'k0', True)], tactic=alg.cond_tac())
                    add(cfg, f, vs, ar, st, ['k0'] * len(A), 'refract: k < 0 (total internal reflection) -> zero', hyps=[alg.cmp_hyp('FGe', kk, 'k0', False)], tactic=alg.cond_tac())
                elif name in ('angle_between', 'angle_to') and same and acos_fid(cfg, k) is not None:
                    cosv = '(%s / k_un FSqrt (%s * %s))%%K' % (dot(A, Bv), dot(A, A), dot(Bv, Bv)); ac = '(k_un FAcos %s)' % cosv
                    tblx = '(override tbl %d%%positive (stub1 %s FAcos))' % (acos_fid(cfg, k), 'K32' if k == 'f32' else 'K64')
                    if d != 2: add(cfg, f, vs, args, None, [ac], '%s = acos((a.b) / sqrt((a.a)(b.b))) with acos_approx abstracted to the arccos primitive' % name, tactic='alg_congr', scalar_k=k, tblx=tblx)
                    else: add(cfg, f, vs, args, None, ['(%s * k_un FSignum (%s * %s - %s * %s))%%K' % (ac, A[0], Bv[1], A[1], Bv[0])], '%s (2D) = acos(cos) * signum(perp_dot) with acos_approx abstracted' % name, tactic='alg_congr', scalar_k=k, tblx=tblx)
            except SymErr: continue
    files = {}; nfiles = max(1, (len(order) + 7) // 8)
    for i, lem in enumerate(order): files.setdefault('Geo_%03d' % (i % nfiles), []).append(lem)
    notes['covered_functions'] = len(cover); notes['distinct_statements'] = n; notes['untranslated_count'] = len(notes['untranslated'])
    return files, notes, cover

def run(tier, seed):
    t0 = time.time(); idx, info = flow.prepare()
    files, notes, cover = lemmas(idx)
    per_fn = 8 if tier == 'quick' else 80
    return f1.run('C02', tier, seed, idx, info, t0, files, notes, cover, alg.BOILER_MOD, per_fn,
        'one algebraic lemma per geometric function (dot, cross, perp_dot, length(_squared), distance(_squared), element sum/product, project/reject, reflect, refract, the normalize family per path, angle_between/angle_to) of the 7 float vector types in three backends against the textbook formula over an arbitrary field; correspondence: %d random calls per function' % per_fn,
        ['textbook formulas in harness/props/C02.py'],
        ['PARTIAL: the rounding-error bounds the property states are not proved; the normalize family (incl. normalize_and_length), refract and angle_between are stated per path with sqrt / acos_approx as uninterpreted primitives'], footer=alg.FOOTER)
