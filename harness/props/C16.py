"""C16 - swizzle getters and with_ setters permute exactly the lanes their names spell.

Spec (derived from the method *name* only): for a getter named l1..lk on a source with visible lanes s,
result lane i = s[idx(li)] and the result type is the k-vector of the source's family (Vec3A for three letters of Vec3A);
for with_l1..lk(self, v): result = self with lane idx(li) := v[i], all other lanes unchanged.
One lemma per (configuration, type, method), stated for all Ops (all lane values / bit patterns)."""
import re
from .. import core
from ..core import Lemma, sym, tree_leaves, tree_fill, tree_shape, tree_coq, has_hidden, tshow, tname, SymErr

CFGS = ['sse2', 'scalar', 'coresimd']
FAMILY = {'f32': 'Vec', 'f64': 'DVec', 'i8': 'I8Vec', 'u8': 'U8Vec', 'i16': 'I16Vec', 'u16': 'U16Vec', 'i32': 'IVec', 'u32': 'UVec', 'i64': 'I64Vec', 'u64': 'U64Vec', 'usize': 'USizeVec'}
LET = 'xyzw'

def result_type(self_name, scalar, k):
    if self_name == 'Vec3A' and k == 3: return 'Vec3A'
    return '%s%d' % (FAMILY[scalar], k)

def spec(cfg, structs, f):
    tr = f['trait']; name = f['name']; sname = tname(f['self'])
    if f['by_ref']: return None
    if not tr and f['has_self'] and re.fullmatch('with_[xyzw]', name) and len(f['params']) == 1 and sname and re.fullmatch(r'(D|I|U|I8|U8|I16|U16|I64|U64|USize)?Vec[234]A?', sname) and f['params'][0][1] in ('f32', 'f64') + tuple(core.INTS):
        # the single-lane setters with_x .. with_w are inherent methods, not part of the Swizzles traits; same statement: that lane := v, every other lane unchanged
        if f['fid'] is None or f.get('status') == 'missing-callee': return 'untranslated'
        vs = []; st = sym(structs, f['self'], 'a', vs); sl = tree_leaves(st)
        try: li = LET.index(name[5]); ptree = sym(structs, f['params'][0][1], 'b', vs); new = [l[2] for l in sl]; new[li] = ptree[2]
        except (IndexError, ValueError) as e: raise SymErr(str(e))
        hid = has_hidden(st); run = 'run O tbl 40 %d%%positive [%s; %s]' % (f['fid'], tree_coq(st), tree_coq(ptree))
        return {'vars': vs, 'lhs': 'rerase O (%s) (%s)' % (tree_shape(st), run) if hid else run, 'rhs': 'Ok (%s)' % tree_fill(st, iter(new)), 'spec': 'setter %s' % name}
    if not tr or not tr[0].endswith('Swizzles'): return None
    getter = re.fullmatch('[xyzw]{2,4}', name) and not f['params']; setter = re.fullmatch('with_[xyzw]{2,4}', name) and len(f['params']) == 1
    if not (getter or setter): return None
    if f['fid'] is None or f.get('status') == 'missing-callee': return 'untranslated'
    vs = []; st = sym(structs, f['self'], 'a', vs); sl = tree_leaves(st); scalar = sl[0][1]
    letters = name[5:] if setter else name
    try:
        if getter:
            rt = result_type(sname, scalar, len(letters))
            if tshow(f['ret']) != rt: TYPE_MISMATCH.append('%s %s returns %s, documented %s' % (cfg, f['key'], tshow(f['ret']), rt))
            rtree = sym(structs, {'n': rt}, 'r', []); want = [sl[LET.index(c)][2] for c in letters]
            rhs = 'Ok (%s)' % tree_fill(rtree, iter(want)); shape = tree_shape(rtree); args = '[%s]' % tree_coq(st); hid = has_hidden(rtree)
        else:
            pt = f['params'][0][1]; rt = result_type(sname, scalar, len(letters))
            if tshow(pt) != rt: TYPE_MISMATCH.append('%s %s takes %s, documented %s' % (cfg, f['key'], tshow(pt), rt))
            ptree = sym(structs, pt, 'b', vs); pv = tree_leaves(ptree); new = [l[2] for l in sl]
            for i, c in enumerate(letters): new[LET.index(c)] = pv[i][2]
            rhs = 'Ok (%s)' % tree_fill(st, iter(new)); shape = tree_shape(st); hid = has_hidden(st); args = '[%s; %s]' % (tree_coq(st), tree_coq(ptree))
    except (IndexError, ValueError) as e: raise SymErr(str(e))
    run = 'run O tbl 40 %d%%positive %s' % (f['fid'], args)
    return {'vars': vs, 'lhs': 'rerase O (%s) (%s)' % (shape, run) if hid else run, 'rhs': rhs, 'spec': 'swizzle %s' % name}

TYPE_MISMATCH = []
def lemmas(idx):
    from .. import f1
    del TYPE_MISMATCH[:]
    files, notes, cover = f1.build(idx, CFGS, 'swz', spec, per_file=400, pid='C16')
    notes['type_mismatch'] = list(TYPE_MISMATCH); notes['covered_methods'] = len(cover)
    return files, notes, cover

def run(tier, seed):
    import time; from .. import flow
    t0 = time.time(); idx, info = flow.prepare()
    files, notes, cover = lemmas(idx)
    nob, nd, failures, assum = core.prove_files(core.BUILD + '/props/C16', files)
    per_fn = 2 if tier == 'quick' else 12
    # correspondence: every distinct (cfg, function body) swizzle once per tier budget
    seen = set(); targets = []
    for cfg, f in cover:
        k = (f['fid'], tshow(f['self']), cfg if tname(f['self']) in ('Vec3A', 'Vec4') else '')
        if tier == 'quick' and k in seen: continue
        seen.add(k); targets.append((cfg, f))
    corr = core.correspondence(idx, targets, seed, per_fn, 'C16')
    extra = []
    for m in notes['type_mismatch'][:5]:
        extra.append(({'kind': 'counterexample', 'theorem': 'swizzle result type', 'detail': m, 'how_found': 'declared type differs from the documented family type'}, True))
    res = {'idx': idx, 'obligations': nob + len(notes['type_mismatch']), 'discharged': nd, 'failures': failures, 'assumptions': assum, 'corr': corr, 'notes': notes, 'translator': info, 'extra_violations': extra,
           'rule': 'one lemma per distinct (function body, typed statement) of every swizzle getter/setter of the sse2, scalar-math and core-simd configurations, for all Ops; correspondence: %d random calls per distinct swizzle (lattice/raw-bit lanes incl. NaN payloads, hidden lane an input), distinct = distinct (function, input words)' % per_fn,
           'samples': [{'lemma': l.name, 'statement': l.statement()[:300], 'covers': l.meta['covers'][:4]} for l in list(files.values())[0][:2]] if files else [],
           'trusted_base': ['Coq 8.16.1 kernel + vm_compute', 'translator rs2v (syn 2) and its cfg evaluation', 'evaluator coq/theories/Base.v', 'method-name spec in harness/props/C16.py', 'correspondence harness (differential, not a proof)'],
           'covered_keys': ['%s:%s' % (c_, f_['key']) for c_, f_ in cover],
           'assumptions_text': ['the model is the translation of /repo/src by tools/rs2v, validated by the differential run recorded under coverage.correspondence', 'core-simd functions the translator cannot lower yet are listed under notes.untranslated and are not covered']}
    return flow.report('C16', tier, seed, t0, res)
