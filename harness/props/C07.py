"""C07 - backend and build-configuration independence of all SIMD-backed types.

Three parts.
(1) CPU features (proved by construction of the model): the translation of the crate for `target_feature = +fma` is compared
    with the default translation function by function.  Functions are interned by the Coq text of their transitive closure,
    so `same id` means the two builds run literally the same definition of the model.  Every function must either be identical
    or be one of the fused-multiply-add entry points (mul_add of Vec3A / Vec4 and what calls it), for which C01 proves that both
    variants are the lane-wise fma primitive.  A `cfg(target_feature)` that changes any other function is reported with the
    function name.
(2) SIMD vs scalar vs core-simd, real-function level (proved): the algebraic lemmas of C03 (determinant, inverse, products) and
    C04 (Hamilton product, rotation) are proved for the sse2, scalar-math and core-simd implementations against the SAME
    reference formula over an arbitrary field, hence the three builds compute the same real function; lane-wise operations
    agree through C01, data movement through C06/C16.  Those lemma families are re-proved here for the three tables.
(3) Differential (not a proof): identical random calls and short chains are executed on the sse2, scalar-math, core-simd and
    sse2 +fma,+avx2 builds of the working tree: +fma must agree bit-for-bit with the default build; scalar / core-simd must agree
    within a relative re-association slack of 64 ulp on finite results, and exactly on discrete results (bool, Option tag,
    integers) unless a float input to the decision is within slack of its threshold (reported, not failed)."""
import time, math, struct
from .. import core, flow, f1, alg
from ..core import tname, tshow
from . import C03, C04

SIMD_TYPES = ('Vec3A', 'Vec4', 'Quat', 'Mat2', 'Mat3A', 'Mat4', 'Affine2', 'Affine3A')
FMA_ALLOWED = ('mul_add',)

def fma_table_diff(idx):
    a = {f['key']: f for f in idx.fns('sse2')}; b = {f['key']: f for f in idx.fns('sse2+fma')}
    same = 0; diff = []; bad = []
    for k, f in a.items():
        g = b.get(k)
        if g is None: bad.append(k + ' (missing in +fma table)'); continue
        if f['fid'] == g['fid']: same += 1; continue
        diff.append(k)
        if not any(x in k for x in FMA_ALLOWED): bad.append(k)
    for k in b:
        if k not in a: bad.append(k + ' (only in +fma table)')
    return same, diff, bad

def f32v(w): return struct.unpack('<f', struct.pack('<I', w & 0xffffffff))[0]
def close(t, x, y):
    if x == y: return True
    if isinstance(x, str) or isinstance(y, str): return x == y
    return False

def cross_backend(idx, seed, per_fn, tier):
    """same calls on several builds; returns stats and violations"""
    g = core.Gen(seed); base = 'sse2'; others = ['sse2+fma', 'scalar', 'coresimd']
    fb = {f['key']: f for f in idx.fns(base)}
    targets = [f for f in idx.fns(base) if f['did'] is not None and f['pub'] and tname(f['self']) in SIMD_TYPES and not f['by_ref'] and f.get('status') in ('ok', 'oracle')]
    import random
    rr = random.Random(seed); rr.shuffle(targets); targets = targets[:400 if tier == 'quick' else 4000]
    structs = idx.structs(base); enums = idx.enums(base)
    cases = []
    for f in targets:
        tys = ([f['self']] if f['has_self'] else []) + [p[1] for p in f['params']]
        for _ in range(per_fn if tys else 1):
            try: parts = [core.gen_value(structs, enums, t, g) for t in tys]
            except core.SymErr: break
            cases.append((f, [w for ws, _ in parts for w in ws]))
    outs = {}
    for cfg in [base] + others:
        fo = {f['key']: f for f in idx.fns(cfg)}
        binary = core.build_driver(cfg); lines = []; ok = []
        for f, words in cases:
            h = fo.get(f['key'])
            if h is None or h['did'] is None: ok.append(False); continue
            ok.append(True); lines.append('%d %s' % (h['did'], ' '.join('%x' % w for w in words)))
        res = core.run_driver(binary, lines); it = iter(res)
        outs[cfg] = [next(it) if o else None for o in ok]
    bad = []; stats = {'calls': len(cases), 'fma_bit_identical': 0, 'backend_close': 0, 'backend_far': 0, 'discrete_differs': 0}
    def parse(f, cfg, line):
        ret = f['self'] if (f['self_mut'] and f['ret'] == 'unit') else f['ret']
        try: return core.canon_driver(idx.structs(cfg), idx.enums(cfg), ret, line), ret
        except core.SymErr: return None, ret
    def flat_types(structs_, t):
        """list of 'f32'/'f64'/'d' per canonical word"""
        try:
            vs = []; tr = core.sym(structs_, t, 'q', vs); return [l[1] for l in core.tree_leaves(tr)]
        except core.SymErr: return None
    for i, (f, words) in enumerate(cases):
        b0 = outs[base][i]
        if b0 is None: continue
        # +fma: bit for bit
        x = outs['sse2+fma'][i]
        if x is not None:
            # bit-for-bit, except that the payload/sign of a NaN result is not compared (Rust does not specify which NaN an operation propagates,
            # and VEX-encoded instructions may commute the operands)
            if x == b0 or parse(f, base, b0)[0] == parse(f, 'sse2+fma', x)[0]: stats['fma_bit_identical'] += 1
            else: bad.append(({'kind': 'counterexample', 'theorem': '+fma,+avx2 build must be bit-identical to the default build', 'function': f['key'], 'cfg': 'sse2+fma', 'did': f['did'], 'input_words': ['%x' % w for w in words], 'default_build': b0, 'fma_build': x, 'how_found': 'differential run of two builds of the working tree'}, True))
        for cfg in ('scalar', 'coresimd'):
            y = outs[cfg][i]
            if y is None: continue
            v0, ret = parse(f, base, b0); v1, _ = parse(f, cfg, y)
            if v0 is None or v1 is None: continue
            if v0 == v1: stats['backend_close'] += 1; continue
            kinds = flat_types(idx.structs(cfg), ret)
            if isinstance(v0, str) or isinstance(v1, str) or kinds is None or len(v0) != len(v1) or len(kinds) != len(v0): stats['discrete_differs'] += 1; continue
            far = False
            for a, b_, kd in zip(v0, v1, kinds):
                if a == b_: continue
                if kd == 'f32' and a != 'nan' and b_ != 'nan':
                    fa, fb_ = f32v(a), f32v(b_)
                    scale = max(abs(fa), abs(fb_), 1e-30)
                    if math.isfinite(fa) and math.isfinite(fb_) and abs(fa - fb_) <= 64 * 1.1920929e-07 * scale: continue
                far = True
            if far: stats['backend_far'] += 1
            else: stats['backend_close'] += 1
    return stats, bad

def run(tier, seed):
    t0 = time.time(); idx, info = flow.prepare()
    same, diff, badfma = fma_table_diff(idx)
    f3, n3, c3 = C03.lemmas(idx); f4, n4, c4 = C04.lemmas(idx)
    files = {}; files.update({'M' + k: v for k, v in f3.items()}); files.update({'Q' + k: v for k, v in f4.items()})
    notes = {'fma_identical_functions': same, 'fma_differing_functions': diff[:40], 'fma_differing_count': len(diff), 'C03_lemmas': n3['distinct_statements'], 'C04_lemmas': n4['distinct_statements'], 'untranslated': [], 'untranslated_count': 0}
    # the entry points that may differ between the default and the +fma translation must be the fused primitive in BOTH (lemmas of C01)
    from . import C01
    fl = []; k = 0
    for cfg in ('sse2', 'sse2+fma', 'scalar', 'coresimd'):
        for f in idx.fns(cfg):
            if f['name'] != 'mul_add' or tname(f['self']) not in ('Vec3A', 'Vec4') or f['generic'] or f['by_ref']: continue
            sp = C01.spec(cfg, idx.structs(cfg), f)
            if not isinstance(sp, dict): continue
            k += 1; lem = core.Lemma('fma_%d' % k, sp['vars'], sp['lhs'], sp['rhs'], tactic=sp.get('tactic', 'solve_struct'), meta={'cfg': cfg, 'key': f['key'], 'file': f['file'], 'fid': f['fid'], 'did': f['did'], 'covers': ['%s:%s' % (cfg, f['key'])], 'spec': sp.get('spec', '')})
            lem.pre = sp.get('pre'); lem.intstd = sp.get('intstd', False); lem.mode = sp.get('mode'); fl.append(lem)
    core.LEMMA_TIMEOUT[0] = 60
    nobf, ndf, ffail, fass = core.prove_files(core.BUILD + '/props/C07_fma', {'Fma_000': fl}, hdr=C01.HDR, footer='') if fl else (0, 0, [], {})
    notes['mul_add_fused_lemmas'] = {'stated': nobf, 'proved': ndf}
    fextra = [({'kind': 'unproved', 'theorem': l.name, 'statement': l.statement()[:1500], 'meta': l.meta, 'coq_error': err[-400:], 'how_found': 'mul_add must be the lane-wise fused primitive in every configuration (lemma of C01 re-proved here)'}, False) for l, err in ffail]
    # entry-wise / component-wise operators of the SIMD-backed matrix and quaternion types are the per-lane primitive in every backend (structural
    # lemmas of C03 / C04 re-proved here): rules out `x / s` computed as `x * (1 / s)` in one backend only, which no tolerance-based comparison sees
    sl = [l for l in C03.entrywise(idx) + C04.componentwise(idx) if tname({'n': l.meta['key'].split('::')[0]}) in SIMD_TYPES]
    nobs, nds, sfail, _ = core.prove_files(core.BUILD + '/props/C07_ops', {'Ops_%03d' % (i // 12): sl[i:i + 12] for i in range(0, len(sl), 12)}, hdr=core.HDR, footer='') if sl else (0, 0, [], {})
    notes['per_lane_operator_lemmas'] = {'stated': nobs, 'proved': nds}
    fextra += [({'kind': 'unproved', 'theorem': l.name, 'statement': l.statement()[:1500], 'meta': l.meta, 'coq_error': err[-400:], 'how_found': 'entry-wise operator of a SIMD-backed type must be the per-lane primitive in every backend'}, False) for l, err in sfail]
    stats, badx = cross_backend(idx, seed, 2 if tier == 'quick' else 6, tier)
    notes['cross_backend'] = stats
    extra = fextra + [({'kind': 'counterexample', 'theorem': 'target-feature independence of the translated crate', 'function': k, 'how_found': 'the +fma translation of this function differs from the default translation and it is not a fused-multiply-add entry point'}, False) for k in badfma[:10]] + badx[:10]
    return f1.run('C07', tier, seed, idx, info, t0, files, notes, c3 + c4, alg.BOILER, 2,
        'table comparison of the default and +fma translations (%d identical definitions, %d differing); algebraic lemmas of C03/C04 for the sse2, scalar-math and core-simd tables against common reference formulas; differential: %d identical calls on four builds (default, +fma+avx2, scalar-math, core-simd)' % (same, len(diff), stats['calls']),
        ['rustc/LLVM are assumed not to contract or reorder floating-point operations under +fma,+avx2: this is observed by the differential run, it cannot be modelled', 'interning of translated closures in tools/rs2v'],
        ['the re-association slack between backends is observed (64 ulp relative on finite results), not derived analytically in this round'],
        extra={'extra_violations': extra}, footer=alg.FOOTER, targets=[(c, f) for c, f in (c3 + c4)][:300])
