"""C10 - scale-rotation-translation composition (decomposition is differential only).

Algebraic part (proved over an arbitrary field): each from_* SRT constructor of Mat4, DMat4, Affine3A, DAffine3 (3D) and
Affine2, DAffine2, Mat3, DMat3, Mat2, DMat2 (2D) yields exactly the entries of  translation * rotation * scale :
column c of the linear part is column c of the rotation matrix times scale_c, the last column is the translation, the
bottom row (4x4 / 3x3 homogeneous forms) is (0, .., 0, 1).  The rotation matrix of a quaternion is the standard
1 - 2(y^2+z^2) ... form (every q, no unit assumption needed for the identity); 2D rotations are [[cos, -sin], [sin, cos]].
The same reference entries are used for all types and backends, which gives `identically on Mat4/DMat4/Affine3A/...`."""
import time
from .. import core, flow, f1, alg
from ..core import sym, tree_coq, tree_leaves, tree_fill, tname, SymErr, ty_shape

CFGS = ['sse2', 'scalar', 'coresimd']
T3 = {'Mat4': (4, 4, 'f32'), 'DMat4': (4, 4, 'f64'), 'Affine3A': (3, 4, 'f32'), 'DAffine3': (3, 4, 'f64')}     # rows, cols
T2 = {'Mat3': (3, 3, 'f32'), 'DMat3': (3, 3, 'f64'), 'Affine2': (2, 3, 'f32'), 'DAffine2': (2, 3, 'f64')}
def Sn(x): return '(k_un FSin %s)' % x
def Cs(x): return '(k_un FCos %s)' % x
def qmat(q):
    x, y, z, w = q; two = '(k1 + k1)'
    def e(s): return '(%s)%%K' % s
    return [[e('k1 - %s * (%s*%s + %s*%s)' % (two, y, y, z, z)), e('%s * (%s*%s - %s*%s)' % (two, x, y, w, z)), e('%s * (%s*%s + %s*%s)' % (two, x, z, w, y))],
            [e('%s * (%s*%s + %s*%s)' % (two, x, y, w, z)), e('k1 - %s * (%s*%s + %s*%s)' % (two, x, x, z, z)), e('%s * (%s*%s - %s*%s)' % (two, y, z, w, x))],
            [e('%s * (%s*%s - %s*%s)' % (two, x, z, w, y)), e('%s * (%s*%s + %s*%s)' % (two, y, z, w, x)), e('k1 - %s * (%s*%s + %s*%s)' % (two, x, x, y, y))]]
def compose(R, s, t, rows, cols):
    """column-major entries of T * R * S for a (rows x cols) homogeneous / affine type; R is d x d with d = cols - 1"""
    d = cols - 1; out = []
    for c in range(cols):
        for r in range(rows):
            if c < d and r < d: out.append(('(%s * %s)%%K' % (R[r][c], s[c])) if s else R[r][c])
            elif c == d and r < d: out.append(t[r] if t else 'k0')
            else: out.append('k1' if (r == c) else 'k0')
    return out
def ident(d): return [['k1' if r == c else 'k0' for c in range(d)] for r in range(d)]

def lemmas(idx):
    order = []; seen = {}; cover = []; notes = {'untranslated': []}; n = 0
    def add(cfg, f, vs, args, lanes, sname):
        nonlocal n
        args = alg.kxargs(args); lanes = alg.kxl(lanes)
        if f['fid'] is None or f.get('status') == 'missing-callee': notes['untranslated'].append('%s %s' % (cfg, f['key'])); return
        structs = idx.structs(cfg); st = f['self']; run = 'rnorm (run OA tbl 400 %d%%positive [%s])' % (f['fid'], '; '.join(args))
        rt = sym(structs, st, 'r', [])
        if len(tree_leaves(rt)) != len(lanes): return
        rhs = 'Ok (%s)' % tree_fill(rt, iter(lanes)); sh = ty_shape(structs, st)
        lhs = ('rerase OA (%s) (%s)' % (sh, run)) if core.shape_has_hidden(sh) else run
        cover.append((cfg, f)); key = (lhs, rhs)
        if key in seen: seen[key].meta['covers'].append('%s:%s' % (cfg, f['key'])); return
        n += 1; lem = alg.AlgLemma('trs_%d' % n, vs, lhs, rhs, meta={'cfg': cfg, 'key': f['key'], 'file': f['file'], 'fid': f['fid'], 'did': f['did'], 'covers': ['%s:%s' % (cfg, f['key'])], 'spec': sname})
        seen[key] = lem; order.append(lem)
    for cfg in CFGS:
        structs = idx.structs(cfg)
        for f in idx.fns(cfg):
            st = f['self']; tn = tname(st) if st is not None else None
            if f['generic'] or f['by_ref'] or f['has_self'] or not f['pub'] or (tn not in T3 and tn not in T2): continue
            name = f['name']; ps = f['params']
            try:
                vs = []; P = [sym(structs, p[1], 'abcdef'[i], vs) for i, p in enumerate(ps)]; L = [[l[2] for l in tree_leaves(p)] for p in P]; args = [tree_coq(p) for p in P]
                pn = [tname(p[1]) or p[1] for p in ps]
                if tn in T3:
                    rows, cols, k = T3[tn]
                    if name == 'from_scale_rotation_translation' and len(ps) == 3: add(cfg, f, vs, args, compose(qmat(L[1]), L[0], L[2], rows, cols), 'T * R(q) * S')
                    elif name == 'from_rotation_translation' and len(ps) == 2: add(cfg, f, vs, args, compose(qmat(L[0]), None, L[1], rows, cols), 'T * R(q)')
                    elif name == 'from_quat' and len(ps) == 1: add(cfg, f, vs, args, compose(qmat(L[0]), None, None, rows, cols), 'R(q)')
                    elif name == 'from_scale' and len(ps) == 1 and len(L[0]) == 3: add(cfg, f, vs, args, compose(ident(3), L[0], None, rows, cols), 'S')
                    elif name == 'from_translation' and len(ps) == 1 and len(L[0]) == 3: add(cfg, f, vs, args, compose(ident(3), None, L[0], rows, cols), 'T')
                    elif name == 'from_mat3_translation' and len(ps) == 2 and len(L[0]) == 9:
                        M = [[L[0][c * 3 + r] for c in range(3)] for r in range(3)]; add(cfg, f, vs, args, compose(M, None, L[1], rows, cols), 'T * M')
                    elif name in ('from_mat3', 'from_mat3a') and len(ps) == 1 and len(L[0]) == 9:
                        M = [[L[0][c * 3 + r] for c in range(3)] for r in range(3)]; add(cfg, f, vs, args, compose(M, None, None, rows, cols), 'M embedded')
                else:
                    rows, cols, k = T2[tn]
                    def R2(t): s, c = Sn(t), Cs(t); return [[c, '(- %s)%%K' % s], [s, c]]
                    if name == 'from_scale_angle_translation' and len(ps) == 3: add(cfg, f, vs, args, compose(R2(L[1][0]), L[0], L[2], rows, cols), 'T * R(angle) * S (2D)')
                    elif name == 'from_angle_translation' and len(ps) == 2: add(cfg, f, vs, args, compose(R2(L[0][0]), None, L[1], rows, cols), 'T * R(angle) (2D)')
                    elif name == 'from_angle' and len(ps) == 1 and len(L[0]) == 1: add(cfg, f, vs, args, compose(R2(L[0][0]), None, None, rows, cols), 'R(angle) (2D)')
                    elif name == 'from_scale' and len(ps) == 1 and len(L[0]) == 2: add(cfg, f, vs, args, compose(ident(2), L[0], None, rows, cols), 'S (2D)')
                    elif name == 'from_translation' and len(ps) == 1 and len(L[0]) == 2: add(cfg, f, vs, args, compose(ident(2), None, L[0], rows, cols), 'T (2D)')
                    elif name == 'from_mat2_translation' and len(ps) == 2 and len(L[0]) == 4:
                        M = [[L[0][c * 2 + r] for c in range(2)] for r in range(2)]; add(cfg, f, vs, args, compose(M, None, L[1], rows, cols), 'T * M (2D)')
                    elif name == 'from_mat2' and len(ps) == 1 and len(L[0]) == 4:
                        M = [[L[0][c * 2 + r] for c in range(2)] for r in range(2)]; add(cfg, f, vs, args, compose(M, None, None, rows, cols), 'M embedded (2D)')
            except SymErr: continue
    # ---- decomposition: to_scale_rotation_translation / to_scale_angle_translation.  scale = (|col0| * signum(det), |col1|, |col2|), translation = last
    # column; the rotation is whatever the matrix -> quaternion conversion (C05, four branch lemmas) makes of the columns divided by the scale: the
    # callee is replaced by a stub that returns its arguments (Modular.v), so the lemma states exactly which normalised axes are handed to it.
    def fid_of(cfg, key): return next((g['fid'] for g in idx.fns(cfg) if g['key'] == key and g['fid'] is not None), None)
    def add_raw(cfg, f, vs, args, tblx, rhs, sname, tactic='alg_congr'):
        nonlocal n
        args = alg.kxargs(args)
        if f['fid'] is None or f.get('status') == 'missing-callee': notes['untranslated'].append('%s %s' % (cfg, f['key'])); return
        lhs = 'rnorm (run OA %s 400 %d%%positive [%s])' % (tblx, f['fid'], '; '.join(args))
        cover.append((cfg, f)); key = (lhs, rhs)
        if key in seen: seen[key].meta['covers'].append('%s:%s' % (cfg, f['key'])); return
        n += 1; lem = alg.AlgLemma('trs_%d' % n, vs, lhs, rhs, tactic=tactic, meta={'cfg': cfg, 'key': f['key'], 'file': f['file'], 'fid': f['fid'], 'did': f['did'], 'covers': ['%s:%s' % (cfg, f['key'])], 'spec': sname})
        seen[key] = lem; order.append(lem)
    def VF(k): return 'VF32' if k == 'f32' else 'VF64'
    def vec(k, xs): return 'VT [%s]' % '; '.join('%s (KX %s)' % (VF(k), x) for x in xs)
    for cfg in CFGS:
        structs = idx.structs(cfg)
        for f in idx.fns(cfg):
            st = f['self']; tn = tname(st) if st is not None else None
            if f['generic'] or f['by_ref'] or not f['has_self'] or not f['pub'] or f['params']: continue
            try:
                if f['name'] == 'to_scale_rotation_translation' and tn in T3:
                    rows, cols, k = T3[tn]; vs = []; m = sym(structs, st, 'm', vs); L = [l[2] for l in tree_leaves(m)]
                    C = [[L[c * rows + r] for r in range(rows)] for c in range(cols)]      # columns
                    A3 = [[C[c][r] for c in range(3)] for r in range(3)]; det = alg.det(A3) if rows == 3 else alg.det([[C[c][r] for c in range(4)] for r in range(4)])
                    ln = ['(k_un FSqrt %s)' % alg.S([alg.P(x, x) for x in C[c]]) for c in range(3)]
                    sc = ['(%s * k_un FSignum %s)%%K' % (ln[0], det), ln[1], ln[2]]
                    ax = [['(%s * (k1 / %s))%%K' % (C[c][r], sc[c]) for r in range(3)] for c in range(3)]
                    tr = [C[3][r] for r in range(3)]
                    qk = 'Quat' if k == 'f32' else 'DQuat'
                    if rows == 4: callee = fid_of(cfg, qk + '::from_rotation_axes'); stub = 'stub_args3'; rot = 'VT [%s]' % '; '.join(vec(k, a) for a in ax)
                    else: callee = fid_of(cfg, qk + '::from_mat3'); stub = 'stub_id'; rot = 'VT [%s]' % '; '.join(vec(k, a) for a in ax)
                    if callee is None: continue
                    rhs = 'Ok (VT [%s; %s; %s])' % (vec(k, sc), rot, vec(k, tr))
                    add_raw(cfg, f, vs, [tree_coq(m)], '(override tbl %d%%positive %s)' % (callee, stub), rhs, 'to_scale_rotation_translation: scale = (|c0| signum(det), |c1|, |c2|), axes c_i / scale_i handed to the matrix -> quaternion conversion (abstracted), translation = last column')
                elif f['name'] == 'to_scale_angle_translation' and tn in ('Affine2', 'DAffine2'):
                    rows, cols, k = T2[tn]; vs = []; m = sym(structs, st, 'm', vs); L = [l[2] for l in tree_leaves(m)]
                    C = [[L[c * 2 + r] for r in range(2)] for c in range(3)]
                    det = '(%s * %s - %s * %s)%%K' % (C[0][0], C[1][1], C[1][0], C[0][1])
                    sc = ['(k_un FSqrt %s * k_un FSignum %s)%%K' % (alg.S([alg.P(x, x) for x in C[0]]), det), '(k_un FSqrt %s)' % alg.S([alg.P(x, x) for x in C[1]])]
                    ang = '(k_bin FAtan2 (- %s)%%K %s)' % (C[1][0], C[1][1])
                    rhs = 'Ok (VT [%s; %s (KX %s); %s])' % (vec(k, sc), VF(k), ang, vec(k, C[2]))
                    add_raw(cfg, f, vs, [tree_coq(m)], 'tbl', rhs, 'to_scale_angle_translation: scale = (|c0| signum(det), |c1|), angle = atan2(-c1.x, c1.y), translation')
            except (SymErr, IndexError): continue
    files = {}; nfiles = max(1, (len(order) + 5) // 6)
    for i, lem in enumerate(order): files.setdefault('Trs_%03d' % (i % nfiles), []).append(lem)
    notes['covered_functions'] = len(cover); notes['distinct_statements'] = n; notes['untranslated_count'] = len(notes['untranslated'])
    return files, notes, cover

def run(tier, seed):
    t0 = time.time(); idx, info = flow.prepare()
    files, notes, cover = lemmas(idx)
    per_fn = 6 if tier == 'quick' else 60
    return f1.run('C10', tier, seed, idx, info, t0, files, notes, cover, alg.BOILER_MOD, per_fn,
        'one algebraic lemma per SRT constructor of the 3D and 2D transform types in three backends against the common reference entries of translation * rotation * scale, over an arbitrary field; correspondence: %d random calls per constructor' % per_fn,
        ['reference entries (quaternion rotation matrix, 2D rotation, composition) in harness/props/C10.py'],
        ['to_scale_rotation_translation / to_scale_angle_translation (decomposition and recomposition, negative scales) are exercised by the correspondence run only'], footer=alg.FOOTER)
