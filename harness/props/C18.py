"""C18 - only documented panics occur and no access goes out of bounds.

For every public function of the float vector, quaternion, matrix and affine types (sse2, scalar-math, core-simd tables,
without glam-assert), for all Ops whose integer part is the Rust one and all argument values (lanes are variables of the
abstract float type, so NaN, infinities, zero, subnormals are included):
  * ordinary functions:  is_ok (run f args) = true   (the model's outcome is Ok: not Panic, not UB, not Stuck, not out of fuel)
  * index functions (Index, col, row, minors, mask test/set): Ok for every valid literal index, Panic for N..N+2 and usize::MAX
  * slice functions: for every slice length 0..N+4 (elements are variables): Panic iff the slice is shorter than N; otherwise
    exactly the first N elements are read / written and the rest of the destination is returned unchanged.
UB is an outcome of the model (reads past an object in a pointer-cast view are translation-time errors), so `is_ok` also
excludes it."""
import time
from .. import core, flow, f1
from ..core import sym, tree_coq, tree_leaves, tshow, tname, SymErr, ty_shape

CFGS = ['sse2', 'scalar', 'coresimd']
TYPES = set(f1.FLOAT_TYPES)
SLICE_FNS = ('from_slice', 'write_to_slice', 'from_cols_slice', 'write_cols_to_slice')
USIZE_MAX = 18446744073709551615

def in_scope(f):
    if not f['pub'] or f['generic']: return False
    n = tname(f['self']) if f['self'] is not None else None
    if n in TYPES: return True
    # operators with a scalar on the left (f32 * Vec3) and free constructor functions
    if f['self'] in ('f32', 'f64') and f['trait'] and any(tname(p[1]) in TYPES for p in f['params']): return True
    return False

def nvis(structs, t):
    vs = []; return len(tree_leaves(sym(structs, t, 'q', vs)))

def spec(cfg, structs, f):
    if not in_scope(f): return None
    if f['trait'] and f['trait'][0] in ('Display', 'Debug', 'Hash', 'Sum', 'Product', 'Deref', 'DerefMut', 'AsRef', 'AsMut', 'IndexMut'): return None
    if f['self_mut'] and f['ret'] != 'unit': return None          # reference-returning accessors: C17 (lens form)
    enums = None
    # ---- argument trees; usize / enum parameters are enumerated as literals, slices by length
    vs = []; trees = []; kinds = []   # kinds: 'val' | ('idx',) | ('enum', n) | ('slice', elemty)
    prefixes = 'abcdefghijklmnop'; k = 0
    allp = ([('self', f['self'])] if f['has_self'] else []) + [(p[0], p[1]) for p in f['params']]
    for nm, t in allp:
        pre = prefixes[k]; k += 1
        if t == 'usize': trees.append(None); kinds.append(('idx', pre))
        elif isinstance(t, dict) and 'n' in t and t['n'] == 'EulerRot': trees.append(None); kinds.append(('enum', 24))
        elif isinstance(t, dict) and 's' in t: trees.append(None); kinds.append(('slice', t['s'], pre))
        else:
            try: trees.append(sym(structs, t, pre, vs)); kinds.append(('val',))
            except SymErr: return None
    if f['fid'] is None: return 'untranslated'
    name = f['name']; selfn = tname(f['self']) if f['self'] is not None else ''
    N = nvis(structs, f['self']) if (f['self'] is not None and name in SLICE_FNS) else None
    out = []
    def emit(argterms, extra_vars, rhs_kind, fixed, rhs=None):
        args = '[%s]' % '; '.join(argterms)
        run = 'run O tbl 200 %d%%positive %s' % (f['fid'], args)
        if rhs_kind == 'ok': d = {'lhs': 'is_ok (%s)' % run, 'rhs': 'true', 'ty': 'bool'}
        elif rhs_kind == 'panic': d = {'lhs': 'is_panic (%s)' % run, 'rhs': 'true', 'ty': 'bool'}
        else: d = {'lhs': 'rerase O (%s) (%s)' % (ty_shape(structs, f1.result_type(f)), run), 'rhs': rhs}
        d.update({'vars': vs + extra_vars, 'intstd': True, 'fixed': fixed, 'spec': 'panic-freedom/' + rhs_kind}); out.append(d)
    idx_params = [i for i, kd in enumerate(kinds) if kd[0] == 'idx']
    enum_params = [i for i, kd in enumerate(kinds) if kd[0] == 'enum']
    slice_params = [i for i, kd in enumerate(kinds) if kd[0] == 'slice']
    if len(slice_params) > 1 or (slice_params and (idx_params or enum_params)): return None
    base = [tree_coq(t) if t is not None else None for t in trees]
    if slice_params:
        if N is None: return None
        i = slice_params[0]; et = kinds[i][1]; pre = kinds[i][2]
        for ln in range(0, N + 5):
            svars = []; elems = [sym(structs, et, '%s%d' % (pre, j), svars) for j in range(ln)]
            at = list(base); at[i] = 'VT [%s]' % '; '.join(tree_coq(e) for e in elems)
            if ln < N: emit(at, svars, 'panic', {'len': ln})
            elif name in ('write_to_slice', 'write_cols_to_slice'):
                # destination: first N elements = the visible lanes of self in order, rest unchanged
                lanes = [core.leaf_coq(l) for l in tree_leaves(trees[0])]
                emit(at, svars, 'exact', {'len': ln}, 'Ok (VT [%s])' % '; '.join(lanes + [tree_coq(e) for e in elems[N:]]))
            else:
                # constructor from a slice: the result is built from the first N elements only
                rv = []; rt = sym(structs, f['ret'], 'r', rv)
                emit(at, svars, 'exact', {'len': ln}, 'Ok (%s)' % core.tree_fill(rt, iter([l[2] for e in elems[:N] for l in tree_leaves(e)])))
        return out
    if idx_params:
        # valid range: determined by the *documented* bound (dimension / column count), not by the code
        def bound(i):
            if name in ('index', 'test', 'set') or (f['trait'] and f['trait'][0] == 'Index'): return {'2': 2, '3': 3, '4': 4}.get(''.join(c for c in selfn if c.isdigit())[:1], None)
            if name in ('col', 'row', 'col_mut'): return {'Mat2': 2, 'DMat2': 2, 'Mat3': 3, 'DMat3': 3, 'Mat3A': 3, 'Mat4': 4, 'DMat4': 4}.get(selfn)
            if name in ('from_mat3_minor', 'from_mat3a_minor'): return 3
            if name == 'from_mat4_minor': return 4
            return None
        bs = [bound(i) for i in idx_params]
        if any(b is None for b in bs): return None
        cands = [list(range(b + 3)) + [USIZE_MAX] for b in bs]
        import itertools
        for combo in itertools.product(*cands):
            at = list(base)
            for i, v in zip(idx_params, combo): at[i] = 'VI USize %d' % v
            ok = all(v < b for v, b in zip(combo, bs))
            emit(at, [], 'ok' if ok else 'panic', {'index': list(combo)})
        return out
    if enum_params:
        if len(enum_params) > 1: return None
        for v in range(24):
            at = list(base); at[enum_params[0]] = 'VI U32 %d' % v; emit(at, [], 'ok', {'order': v}); out[-1]['intstd'] = 'concrete'
        return out
    emit(base, [], 'ok', {})
    return out

HDR = core.HDR.replace('Import Base Spec.', 'Import Base Spec Sem.')

def run(tier, seed):
    t0 = time.time(); idx, info = flow.prepare()
    files, notes, cover = f1.build(idx, CFGS, 'pan', spec, per_file=60, pid='C18')
    per_fn = 2 if tier == 'quick' else 20
    return f1.run('C18', tier, seed, idx, info, t0, files, notes, cover, HDR, per_fn,
        'one lemma per public function of the float/quaternion/matrix/affine types (x literal index / Euler order / slice length where the function takes one), sse2 + scalar-math + core-simd, for all Ops with Rust integer semantics: outcome Ok for all argument values; index and slice functions: Panic exactly outside the documented bound, exact first-N read/write otherwise; correspondence: %d random calls per function with special-value lattice arguments' % per_fn,
        ['outcome classification is_ok/is_panic in Spec.v; documented index bounds table in harness/props/C18.py'],
        ['machine-level facts (uninitialised reads, real addresses, ASan) are outside the model: the model proves that every view/transmute stays inside its object and that panics precede any write'])
