"""C14 - conversions between vector types match the primitive conversions lane by lane.

For all Ops (abstract cast primitives: i_cast = integer `as`, f*_to_int = float `as` integer, f*_of_int, f32_to_f64, f64_to_f32,
i_try = TryFrom on integers) and all lane values:
  as_<type>()            lane i of the result = the `as` primitive applied to lane i
  From<V> for W          (same dimension) lane-wise lossless embedding = the widening cast primitive
  TryFrom<V> for W       Ok with every lane converted iff i_try succeeds on every lane, Err otherwise
  From<BVecN>            lane i = 1 if the mask lane is true else 0 (integer or float one)
  moves                  arrays, tuples, (smaller vector, scalar) pairs, extend / truncate / from_vec4, Vec3 <-> Vec3A,
                         Quat <-> Vec4: every lane is carried over bit-for-bit in order
The semantics of the cast primitives themselves (truncation toward zero, saturation, NaN -> 0, wrap on narrowing,
round-to-nearest for f64 -> f32) is the concrete instance in coq/theories/Sem.v, exercised by the correspondence run on
boundary values; coq/theories/CastSpec.v proves the characteristic facts of that instance."""
import re, time
from .. import core, flow, f1
from ..core import sym, tree_coq, tree_leaves, tree_fill, tshow, tname, SymErr, ty_shape, ikc, INTS
from .C17 import VEC_RE, is_vec

CFGS = ['sse2', 'scalar', 'coresimd']
def fk(k): return 'K32' if k == 'f32' else 'K64'

def cast_term(k1, k2, a):
    """Coq scalar term (of kind k2) for `a as k2` with a : k1"""
    if k1 == k2: return a
    if k1 in INTS and k2 in INTS: return '(i_cast O %s %s %s)' % (ikc(k1), ikc(k2), a)
    if k1 in INTS: return '(%s_of_int O %s %s)' % (k2, ikc(k1), a)
    if k2 in INTS: return '(%s_to_int O %s %s)' % (k1, ikc(k2), a)
    if k1 == 'f32' and k2 == 'f64': return '(f32_to_f64 O %s)' % a
    if k1 == 'f64' and k2 == 'f32': return '(f64_to_f32 O %s)' % a
    raise SymErr('cast %s %s' % (k1, k2))

def is_mask(t): return tname(t) in f1.MASK_TYPES

def spec(cfg, structs, f):
    name = f['name']; tr = f['trait'][0] if f['trait'] else None
    st = f['self']
    if f['generic'] or f['by_ref'] or f['fid'] is None and 'err' not in f: return None
    def mk(vs, args, rhs, sname, ret_t):
        if f['fid'] is None: return 'untranslated'
        run = 'run O tbl 200 %d%%positive [%s]' % (f['fid'], '; '.join(args)); sh = ty_shape(structs, ret_t)
        return {'vars': vs, 'lhs': ('rerase O (%s) (%s)' % (sh, run)) if core.shape_has_hidden(sh) else run, 'rhs': rhs, 'spec': sname}
    # ---- as_* casts
    if tr is None and name.startswith('as_') and f['has_self'] and not f['params'] and st is not None and is_vec(st) and is_vec(f['ret']):
        vs = []; sv = sym(structs, st, 'a', vs); rt = sym(structs, f['ret'], 'r', []); sl = tree_leaves(sv); rl = tree_leaves(rt)
        if len(sl) != len(rl): return None
        return mk(vs, [tree_coq(sv)], 'Ok (%s)' % tree_fill(rt, iter([cast_term(a[1], r[1], a[2]) for a, r in zip(sl, rl)])), 'lane-wise `as`', f['ret'])
    # ---- From / TryFrom between vector types of equal dimension
    if tr in ('From', 'TryFrom') and not f['has_self'] and len(f['params']) == 1 and st is not None and is_vec(st):
        pt = f['params'][0][1]
        if is_vec(pt):
            vs = []; pv = sym(structs, pt, 'a', vs); rt = sym(structs, st, 'r', []); pl = tree_leaves(pv); rl = tree_leaves(rt)
            if len(pl) == len(rl):
                if tr == 'From':
                    return mk(vs, [tree_coq(pv)], 'Ok (%s)' % tree_fill(rt, iter([cast_term(a[1], r[1], a[2]) for a, r in zip(pl, rl)])), 'lossless lane-wise embedding', st)
                if all(a[1] in INTS and r[1] in INTS for a, r in zip(pl, rl)):
                    t = 'Some (%s)' % tree_fill(rt, iter(['t%d' % i for i in range(len(rl))]))
                    for i in range(len(rl) - 1, -1, -1): t = 'match i_try O %s %s %s with Some t%d => %s | None => None end' % (ikc(pl[i][1]), ikc(rl[i][1]), pl[i][2], i, t)
                    return mk(vs, [tree_coq(pv)], 'Ok (VOpt (%s))' % t, 'TryFrom: all lanes fit or Err', {'o': st})
            # truncating / extending moves between dimensions (From<Vec4> for Vec3A etc.)
            if len(pl) > len(rl) and all(a[1] == r[1] for a, r in zip(pl, rl)) and tr == 'From':
                return mk(vs, [tree_coq(pv)], 'Ok (%s)' % tree_fill(rt, iter([a[2] for a in pl[:len(rl)]])), 'first lanes in order', st)
            return None
        if is_mask(pt):
            vs = []
            try: pv = sym(structs, pt, 'm', vs)
            except SymErr: return None
            if any(l[1] != 'bool' for l in tree_leaves(pv, False)): return None      # SIMD register masks: C15 (IEEE instance)
            rt = sym(structs, st, 'r', []); rl = tree_leaves(rt); pl = tree_leaves(pv)
            if len(pl) != len(rl): return None
            def one(k, b):
                return '(if %s then 1 else 0)' % b if k in INTS else '(f32_of_bits O (if %s then 1065353216 else 0))' % b if k == 'f32' else '(f64_of_bits O (if %s then 4607182418800017408 else 0))' % b
            d = mk(vs, [tree_coq(pv)], 'Ok (%s)' % tree_fill(rt, iter([one(r[1], m[2]) for r, m in zip(rl, pl)])), 'mask lanes as 1 / 0', st)
            if isinstance(d, dict) and core.mask_kind(structs, tname(pt)) == 'simd': d['intstd'] = True      # goes through the integer bitmask
            return d
        # (smaller vector, scalar ...) tuples and mixed tuples
        if isinstance(pt, dict) and 't' in pt and any(not isinstance(x, str) for x in pt['t']):
            vs = []; pv = sym(structs, pt, 'p', vs); rt = sym(structs, st, 'r', []); pl = tree_leaves(pv); rl = tree_leaves(rt)
            if len(pl) != len(rl) or any(a[1] != r[1] for a, r in zip(pl, rl)): return None
            return mk(vs, [tree_coq(pv)], 'Ok (%s)' % tree_fill(rt, iter([a[2] for a in pl])), 'pair (vector, scalar) in order', st)
        return None
    # From<Vec> for (smaller vec, scalar) tuples
    if tr == 'From' and not f['has_self'] and len(f['params']) == 1 and is_vec(f['params'][0][1]) and isinstance(st, dict) and 't' in st and any(not isinstance(x, str) for x in st['t']):
        vs = []; pv = sym(structs, f['params'][0][1], 'a', vs); rt = sym(structs, st, 'r', []); pl = tree_leaves(pv); rl = tree_leaves(rt)
        if len(pl) != len(rl): return None
        return mk(vs, [tree_coq(pv)], 'Ok (%s)' % tree_fill(rt, iter([a[2] for a in pl])), 'into pair in order', st)
    # ---- extend / truncate / from_vec4 / to_vec3 ...
    if tr is None and st is not None and is_vec(st):
        if name == 'extend' and f['has_self'] and len(f['params']) == 1 and is_vec(f['ret']):
            vs = []; sv = sym(structs, st, 'a', vs); p = sym(structs, f['params'][0][1], 'w', vs); rt = sym(structs, f['ret'], 'r', [])
            lanes = [l[2] for l in tree_leaves(sv)] + [p[2]]
            if len(lanes) != len(tree_leaves(rt)): return None
            return mk(vs, [tree_coq(sv), tree_coq(p)], 'Ok (%s)' % tree_fill(rt, iter(lanes)), 'extend', f['ret'])
        if name in ('truncate', 'to_vec3', 'to_vec3a', 'xyz') and f['has_self'] and not f['params'] and is_vec(f['ret']) and tr is None:
            vs = []; sv = sym(structs, st, 'a', vs); rt = sym(structs, f['ret'], 'r', []); n = len(tree_leaves(rt)); sl = tree_leaves(sv)
            if n > len(sl): return None
            return mk(vs, [tree_coq(sv)], 'Ok (%s)' % tree_fill(rt, iter([l[2] for l in sl[:n]])), name, f['ret'])
        if name in ('from_vec4',) and not f['has_self'] and len(f['params']) == 1 and is_vec(f['params'][0][1]):
            vs = []; pv = sym(structs, f['params'][0][1], 'a', vs); rt = sym(structs, st, 'r', []); n = len(tree_leaves(rt)); pl = tree_leaves(pv)
            if n > len(pl): return None
            return mk(vs, [tree_coq(pv)], 'Ok (%s)' % tree_fill(rt, iter([l[2] for l in pl[:n]])), name, st)
    return None

def run(tier, seed):
    t0 = time.time(); idx, info = flow.prepare()
    files, notes, cover = f1.build(idx, CFGS, 'cnv', spec, per_file=80, pid='C14')
    per_fn = 6 if tier == 'quick' else 60
    return f1.run('C14', tier, seed, idx, info, t0, files, notes, cover, core.HDR.replace('Import Base Spec.', 'Import Base Spec Sem.'), per_fn,
        'one lemma per conversion (as_*, From, TryFrom, mask-to-number, pair/extend/truncate moves) between the 40 numeric vector types and the quaternion types, sse2 + scalar-math + core-simd, for all Ops; correspondence: %d random calls per conversion with boundary-biased lanes (type MIN/MAX +-1, 2^k, inf, NaN, values just outside each target range), which validates the concrete cast semantics of Sem.v against rustc' % per_fn,
        ['cast semantics f32_to_int / i_cast / f64_to_f32 / i_try of Sem.v (validated by the correspondence run)', 'spec table harness/props/C14.py'], [])
