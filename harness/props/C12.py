"""C12 - interpolation, steering and clamping helpers (algebraic core).

Proved over an arbitrary field, for every float vector type in the sse2, scalar-math and core-simd tables:
  lerp(a, b, s)            lane i = a_i (1 - s) + b_i s     (affine in s; coq/theories/InterpAlg.v: equals a at s = 0 and b at s = 1,
                                                              and is a + s (b - a))
  midpoint(a, b)           lane i = (a_i + b_i) * 1/2
  any_orthonormal_vector / any_orthonormal_pair (Vec3, Vec3A, DVec3): the branch-free construction of Duff et al. with sign = signum(z);
                           InterpAlg.v proves over the reals, from x^2+y^2+z^2 = 1, sign^2 = 1 and sign + z <> 0, that the two vectors are
                           unit, mutually orthogonal and orthogonal to the input.
Quaternion lerp/slerp, vector slerp, move_towards, rotate_towards, from_rotation_arc, clamp_length* and any_orthogonal_vector involve
square roots, comparisons and trigonometric oracles; they are covered by the panic-freedom lemmas of C18 and by the correspondence run
only in this round (their geometric statements need the real-analysis layer that was not built)."""
import time
from .. import core, flow, f1, alg
from ..core import sym, tree_coq, tree_leaves, tree_fill, tname, SymErr, ty_shape
from .C01 import FVECS

CFGS = ['sse2', 'scalar', 'coresimd']
def half(k): return '(lit32 1056964608)' if k == 'f32' else '(lit64 4602678819172646912)'

def lemmas(idx):
    order = []; seen = {}; cover = []; notes = {'untranslated': []}; n = 0
    def add(cfg, f, vs, args, ret_t, lanes, sname, hyps=(), tactic='alg_ring', tblx='tbl'):
        nonlocal n
        args = alg.kxargs(args); lanes = alg.kxl(lanes)
        if f['fid'] is None or f.get('status') == 'missing-callee': notes['untranslated'].append('%s %s' % (cfg, f['key'])); return
        structs = idx.structs(cfg); run = 'rnorm (run OA %s 400 %d%%positive [%s])' % (tblx, f['fid'], '; '.join(args))
        rt = sym(structs, ret_t, 'r', [])
        if len(tree_leaves(rt)) != len(lanes): return
        rhs = 'Ok (%s)' % tree_fill(rt, iter(lanes)); sh = ty_shape(structs, ret_t)
        lhs = ('rerase OA (%s) (%s)' % (sh, run)) if core.shape_has_hidden(sh) else run
        cover.append((cfg, f)); key = (lhs, rhs, tuple(hyps))
        if key in seen: seen[key].meta['covers'].append('%s:%s' % (cfg, f['key'])); return
        n += 1; lem = alg.AlgLemma('itp_%d' % n, vs, lhs, rhs, hyps=hyps, tactic=tactic, meta={'cfg': cfg, 'key': f['key'], 'file': f['file'], 'fid': f['fid'], 'did': f['did'], 'covers': ['%s:%s' % (cfg, f['key'])], 'spec': sname})
        seen[key] = lem; order.append(lem)
    for cfg in CFGS:
        structs = idx.structs(cfg)
        for f in idx.fns(cfg):
            st = f['self']; tn = tname(st) if st is not None else None
            if tn not in FVECS or f['generic'] or f['by_ref'] or not f['pub'] or not f['has_self']: continue
            k, d = FVECS[tn]; name = f['name']; ps = f['params']
            try:
                if name == 'lerp' and len(ps) == 2 and tname(ps[0][1]) == tn:
                    vs = []; a = sym(structs, st, 'a', vs); b = sym(structs, st, 'b', vs); s = sym(structs, k, 's', vs)
                    A = [l[2] for l in tree_leaves(a)]; Bv = [l[2] for l in tree_leaves(b)]
                    add(cfg, f, vs, [tree_coq(a), tree_coq(b), tree_coq(s)], st, ['(%s * (k1 - %s) + %s * %s)%%K' % (x, s[2], y, s[2]) for x, y in zip(A, Bv)], 'lerp affine in s')
                elif name == 'midpoint' and len(ps) == 1 and tname(ps[0][1]) == tn:
                    vs = []; a = sym(structs, st, 'a', vs); b = sym(structs, st, 'b', vs)
                    A = [l[2] for l in tree_leaves(a)]; Bv = [l[2] for l in tree_leaves(b)]
                    add(cfg, f, vs, [tree_coq(a), tree_coq(b)], st, ['((%s + %s) * %s)%%K' % (x, y, half(k)) for x, y in zip(A, Bv)], 'midpoint')
                elif name in ('any_orthonormal_vector', 'any_orthonormal_pair') and not ps and d == 3:
                    vs = []; a = sym(structs, st, 'a', vs); x, y, z = [l[2] for l in tree_leaves(a)]
                    sg = '(k_un FSignum %s)' % z; A_ = '(- k1 / (%s + %s))%%K' % (sg, z); b_ = '(%s * %s * %s)%%K' % (x, y, A_)
                    v2 = [b_, '(%s + %s * %s * %s)%%K' % (sg, y, y, A_), '(- %s)%%K' % y]
                    v1 = ['(k1 + %s * %s * %s * %s)%%K' % (sg, x, x, A_), '(%s * %s)%%K' % (sg, b_), '(- %s * %s)%%K' % (sg, x)]
                    hy = ['(%s + %s)%%K <> k0' % (sg, z)]
                    if name == 'any_orthonormal_vector': add(cfg, f, vs, [tree_coq(a)], st, v2, 'orthonormal basis vector (Duff et al.)', hyps=hy, tactic='alg_field')
                    else: add(cfg, f, vs, [tree_coq(a)], f['ret'], v1 + v2, 'orthonormal basis pair (Duff et al.)', hyps=hy, tactic='alg_field')
                elif name in ('clamp_length_max', 'clamp_length_min') and len(ps) == 1 and ps[0][1] == k:
                    vs = []; a = sym(structs, st, 'a', vs); b = sym(structs, k, 'b', vs); A = [l[2] for l in tree_leaves(a)]
                    lsq = alg.S([alg.P(x, x) for x in A]); bb = '(%s * %s)%%K' % (b[2], b[2]); c = 'FGt' if name.endswith('max') else 'FLt'
                    scaled = ['(%s * (%s / k_un FSqrt %s))%%K' % (b[2], x, lsq) for x in A]
                    add(cfg, f, vs, [tree_coq(a), tree_coq(b)], st, scaled, '%s: length out of bound -> bound * self / length' % name, hyps=[alg.cmp_hyp(c, lsq, bb, True)], tactic=alg.cond_tac())
                    add(cfg, f, vs, [tree_coq(a), tree_coq(b)], st, A, '%s: length within bound -> self' % name, hyps=[alg.cmp_hyp(c, lsq, bb, False)], tactic=alg.cond_tac())
                elif name == 'clamp_length' and len(ps) == 2 and ps[0][1] == k and ps[1][1] == k:
                    vs = []; a = sym(structs, st, 'a', vs); b = sym(structs, k, 'b', vs); c_ = sym(structs, k, 'c', vs); A = [l[2] for l in tree_leaves(a)]
                    lsq = alg.S([alg.P(x, x) for x in A]); lo = '(%s * %s)%%K' % (b[2], b[2]); hi = '(%s * %s)%%K' % (c_[2], c_[2]); args = [tree_coq(a), tree_coq(b), tree_coq(c_)]
                    add(cfg, f, vs, args, st, ['(%s * (%s / k_un FSqrt %s))%%K' % (b[2], x, lsq) for x in A], 'clamp_length: too short -> min * self / length', hyps=[alg.cmp_hyp('FLt', lsq, lo, True)], tactic=alg.cond_tac())
                    add(cfg, f, vs, args, st, ['(%s * (%s / k_un FSqrt %s))%%K' % (c_[2], x, lsq) for x in A], 'clamp_length: too long -> max * self / length', hyps=[alg.cmp_hyp('FLt', lsq, lo, False), alg.cmp_hyp('FGt', lsq, hi, True)], tactic=alg.cond_tac())
                    add(cfg, f, vs, args, st, A, 'clamp_length: within bounds -> self', hyps=[alg.cmp_hyp('FLt', lsq, lo, False), alg.cmp_hyp('FGt', lsq, hi, False)], tactic=alg.cond_tac())
                elif name == 'any_orthogonal_vector' and not ps and d == 3:
                    vs = []; a = sym(structs, st, 'a', vs); x, y, z = [l[2] for l in tree_leaves(a)]
                    c = alg.cmp_hyp('FGt', '(k_un FAbs %s)' % x, '(k_un FAbs %s)' % y, True); c2 = alg.cmp_hyp('FGt', '(k_un FAbs %s)' % x, '(k_un FAbs %s)' % y, False)
                    add(cfg, f, vs, [tree_coq(a)], st, ['(- %s)%%K' % z, 'k0', x], 'any_orthogonal_vector, |x| > |y|: (-z, 0, x) = self x Y', hyps=[c], tactic=alg.cond_tac())
                    add(cfg, f, vs, [tree_coq(a)], st, ['k0', z, '(- %s)%%K' % y], 'any_orthogonal_vector, otherwise: (0, z, -y) = self x X', hyps=[c2], tactic=alg.cond_tac())
                elif name == 'move_towards' and len(ps) == 2 and tname(ps[0][1]) == tn and ps[1][1] == k:
                    vs = []; a = sym(structs, st, 'a', vs); b = sym(structs, st, 'b', vs); d_ = sym(structs, k, 'd', vs)
                    A = [l[2] for l in tree_leaves(a)]; Bv = [l[2] for l in tree_leaves(b)]; D = ['(%s - %s)%%K' % (y, x) for x, y in zip(A, Bv)]
                    ln = '(k_un FSqrt %s)' % alg.S([alg.P(x, x) for x in D]); eps = '(lit32 953267991)' if k == 'f32' else '(lit64 4547007122018943789)'; args = [tree_coq(a), tree_coq(b), tree_coq(d_)]
                    add(cfg, f, vs, args, st, Bv, 'move_towards: within reach -> the target itself', hyps=[alg.cmp_hyp('FLe', ln, d_[2], True)], tactic=alg.cond_tac())
                    add(cfg, f, vs, args, st, Bv, 'move_towards: closer than 1e-4 -> the target itself', hyps=[alg.cmp_hyp('FLe', ln, d_[2], False), alg.cmp_hyp('FLe', ln, eps, True)], tactic=alg.cond_tac())
                    add(cfg, f, vs, args, st, ['(%s + %s / %s * %s)%%K' % (x, dd, ln, d_[2]) for x, dd in zip(A, D)], 'move_towards: self + (rhs - self) / |rhs - self| * d', hyps=[alg.cmp_hyp('FLe', ln, d_[2], False), alg.cmp_hyp('FLe', ln, eps, False)], tactic=alg.cond_tac())
            except SymErr: continue
    # ---- quaternion slerp: four paths (shortest-arc flip x near-parallel fallback); acos_approx (and, in the SSE2 build, the polynomial m128_sin) are
    # replaced by the arccos / sine primitives (Modular.v), so the lemma states the interpolation formula itself
    def fid_of(cfg, key): return next((g['fid'] for g in idx.fns(cfg) if g['key'] == key and g['fid'] is not None), None)
    for cfg in CFGS:
        structs = idx.structs(cfg)
        for f in idx.fns(cfg):
            st = f['self']; tn = tname(st) if st is not None else None
            if tn not in ('Quat', 'DQuat') or f['name'] != 'slerp' or f['generic'] or f['by_ref'] or not f['pub'] or len(f['params']) != 2: continue
            k = 'f32' if tn == 'Quat' else 'f64'
            try:
                vs = []; a = sym(structs, st, 'a', vs); b = sym(structs, st, 'b', vs); s_ = sym(structs, k, 's', vs); A = [l[2] for l in tree_leaves(a)]; E = [l[2] for l in tree_leaves(b)]; sv = s_[2]
                ac = fid_of(cfg, 'crate::%s::math::std_math::acos_approx' % k)
                if ac is None: continue
                tblx = '(override tbl %d%%positive (stub1 %s FAcos))' % (ac, 'K32' if k == 'f32' else 'K64')
                simd_sin = fid_of(cfg, 'crate::sse2::m128_sin') if (cfg == 'sse2' and k == 'f32') else None
                if simd_sin is not None: tblx = '(override %s %d%%positive (stub_lanes1 FSin))' % (tblx, simd_sin)
                eps = '(lit32 872415232)' if k == 'f32' else '(lit64 4372995238176751616)'; thr = '(k1 - %s)%%K' % eps
                d0 = alg.S([alg.P(x, y) for x, y in zip(A, E)]); args = [tree_coq(a), tree_coq(b), tree_coq(s_)]
                for flip in (False, True):
                    dot = ('(- %s)%%K' % d0) if flip else d0; E2 = [('(%s * (- k1))%%K' % y) for y in E] if flip else E
                    h1 = alg.cmp_hyp('FLt', d0, 'k0', flip)
                    n_ = ['(%s * (k1 - %s) + %s * %s)%%K' % (x, sv, y, sv) for x, y in zip(A, E2)]; nn = alg.S([alg.P(x, x) for x in n_])
                    add(cfg, f, vs, args, st, ['(%s * (k1 / k_un FSqrt %s))%%K' % (x, nn) for x in n_], 'slerp, %s, nearly parallel: normalised lerp' % ('flipped to the shorter arc' if flip else 'no flip'), hyps=[h1, alg.cmp_hyp('FGt', dot, thr, True)], tactic=alg.cond_tac(), tblx=tblx)
                    th = '(k_un FAcos %s)' % dot; s1 = '(k_un FSin (%s * (k1 - %s))%%K)' % (th, sv); s2 = '(k_un FSin (%s * %s)%%K)' % (th, sv); ts = '(k_un FSin %s)' % th
                    if simd_sin is not None: s2 = '(k_un FSin (%s * %s)%%K)' % (th, sv); ts = '(k_un FSin (%s * k1)%%K)' % th; lanes = ['((%s * %s + %s * %s) / %s)%%K' % (x, s1, y, s2, ts) for x, y in zip(A, E2)]
                    else: lanes = ['((%s * %s + %s * %s) * (k1 / %s))%%K' % (x, s1, y, s2, ts) for x, y in zip(A, E2)]
                    add(cfg, f, vs, args, st, lanes, 'slerp, %s: (a sin((1-s)t) + b sin(st)) / sin t with t = acos(a.b)' % ('flipped to the shorter arc' if flip else 'no flip'), hyps=[h1, alg.cmp_hyp('FGt', dot, thr, False)], tactic=alg.cond_tac(), tblx=tblx)
            except SymErr: continue
    # ---- quaternion lerp (two paths: bias +-1 by the sign of the dot product, then normalised lerp) and from_rotation_arc (the two regular paths)
    for cfg in CFGS:
        structs = idx.structs(cfg)
        for f in idx.fns(cfg):
            st = f['self']; tn = tname(st) if st is not None else None
            if tn not in ('Quat', 'DQuat') or f['generic'] or f['by_ref'] or not f['pub'] or f['fid'] is None: continue
            k = 'f32' if tn == 'Quat' else 'f64'
            try:
                if f['name'] == 'lerp' and f['has_self'] and len(f['params']) == 2 and not (tn == 'Quat' and cfg in ('sse2', 'coresimd')):      # the SIMD forms flip `end` by xor-ing the sign bit of the dot product: not expressible over a field (differential only)
                    vs = []; a = sym(structs, st, 'a', vs); b = sym(structs, st, 'b', vs); s_ = sym(structs, k, 's', vs); A = [l[2] for l in tree_leaves(a)]; E = [l[2] for l in tree_leaves(b)]; sv = s_[2]
                    d0 = alg.S([alg.P(x, y) for x, y in zip(A, E)]); args = [tree_coq(a), tree_coq(b), tree_coq(s_)]
                    for pos in (True, False):
                        E2 = [('(%s * k1)%%K' % y) if pos else ('(%s * (- k1))%%K' % y) for y in E]
                        n_ = ['(%s * (k1 - %s) + %s * %s)%%K' % (x, sv, y, sv) for x, y in zip(A, E2)]; nn = alg.S([alg.P(x, x) for x in n_])
                        add(cfg, f, vs, args, st, ['(%s * (k1 / k_un FSqrt %s))%%K' % (x, nn) for x in n_], 'quaternion lerp, dot %s 0: normalize(a (1-s) + (%sb) s)' % ('>=' if pos else '<', '' if pos else '-'), hyps=[alg.cmp_hyp('FGe', d0, 'k0', pos)], tactic=alg.cond_tac())
                elif f['name'] == 'from_rotation_arc' and not f['has_self'] and len(f['params']) == 2:
                    vt = f['params'][0][1]; vs = []; a = sym(structs, vt, 'a', vs); b = sym(structs, vt, 'b', vs); A = [l[2] for l in tree_leaves(a)]; Bv = [l[2] for l in tree_leaves(b)]
                    if len(A) != 3: continue
                    d0 = alg.S([alg.P(x, y) for x, y in zip(A, Bv)]); eps = '(lit32 872415232)' if k == 'f32' else '(lit64 4372995238176751616)'; ome = '(k1 - (k1 + k1) * %s)%%K' % eps
                    args = [tree_coq(a), tree_coq(b)]
                    add(cfg, f, vs, args, st, ['k0', 'k0', 'k0', 'k1'], 'from_rotation_arc: from ~ to -> identity', hyps=[alg.cmp_hyp('FGt', d0, ome, True)], tactic=alg.cond_tac())
                    c = ['(%s * %s - %s * %s)%%K' % (A[1], Bv[2], A[2], Bv[1]), '(%s * %s - %s * %s)%%K' % (A[2], Bv[0], A[0], Bv[2]), '(%s * %s - %s * %s)%%K' % (A[0], Bv[1], A[1], Bv[0])]
                    q = c + ['(k1 + %s)%%K' % d0]; nn = alg.S([alg.P(x, x) for x in q])
                    add(cfg, f, vs, args, st, ['(%s * (k1 / k_un FSqrt %s))%%K' % (x, nn) for x in q], 'from_rotation_arc: regular case normalize((from x to, 1 + from.to))', hyps=[alg.cmp_hyp('FGt', d0, ome, False), alg.cmp_hyp('FLt', d0, '(- %s)%%K' % ome, False)], tactic=alg.cond_tac())
            except SymErr: continue
    files = {}; nfiles = max(1, (len(order) + 5) // 6)
    for i, lem in enumerate(order): files.setdefault('Itp_%03d' % (i % nfiles), []).append(lem)
    notes['covered_functions'] = len(cover); notes['distinct_statements'] = n; notes['untranslated_count'] = len(notes['untranslated'])
    return files, notes, cover

def run(tier, seed):
    t0 = time.time(); idx, info = flow.prepare()
    files, notes, cover = lemmas(idx)
    per_fn = 8 if tier == 'quick' else 80
    return f1.run('C12', tier, seed, idx, info, t0, files, notes, cover, alg.BOILER_MOD, per_fn,
        'one algebraic lemma per lerp / midpoint / any_orthonormal_* of the float vector types in three backends over an arbitrary field; endpoint and orthonormality facts of the formulas in coq/theories/InterpAlg.v; correspondence: %d random calls per function' % per_fn,
        ['formulas in harness/props/C12.py and coq/theories/InterpAlg.v'],
        ['slerp, quaternion lerp, move_towards, rotate_towards, from_rotation_arc, clamp_length*, any_orthogonal_vector: geometric statements not proved (differential + C18 panic-freedom only)'], footer=alg.FOOTER)
