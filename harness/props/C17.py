"""C17 - all element access paths of a vector or quaternion see the same N lanes.

Abstract view: a value of a vector type is the list of its N visible lanes.  One lemma per (configuration, type, access
path), for all Ops with Rust integer semantics and all lane values (bit patterns):
  constructors  new / splat / from_array / From<[T;N]> / From<(T,..)> / free functions vecN(..) / named constants
  readers       Deref (the x,y,z,w field view), Index(i) for every valid literal i, to_array, Into<[T;N]>, Into<(T,..)>, AsRef
  writers       with_x..with_w, IndexMut (setter half of the lens), AsMut (setter half), DerefMut field assignment
each stated against the list view (lane i is the i-th element; a write changes exactly lane i).  The statement for
arbitrary interleavings of reads and writes follows by induction over the history from these per-operation facts
(coq/theories/AccessHist.v, generic in the type)."""
import re, time
from .. import core, flow, f1
from ..core import sym, tree_coq, tree_leaves, tree_fill, tree_shape, has_hidden, tshow, tname, SymErr, ty_shape, ikc, INTS

CFGS = ['sse2', 'scalar', 'coresimd']
VEC_RE = re.compile(r'^(D|I8|U8|I16|U16|I|U|I64|U64|USize)?Vec[234]$|^Vec3A$|^D?Quat$')
LET = 'xyzw'

def is_vec(t): n = tname(t); return bool(n and VEC_RE.match(n))

def lit(kind, v):
    """Coq scalar term of a literal value of the given lane kind (v: python int/float-name)"""
    if kind in INTS: return '(%d)' % v
    bits32 = {0: 0, 1: 0x3f800000, -1: 0xbf800000, 'nan': 0x7fc00000, 'inf': 0x7f800000, '-inf': 0xff800000, 'min': 0xff7fffff, 'max': 0x7f7fffff}
    bits64 = {0: 0, 1: 0x3ff0000000000000, -1: 0xbff0000000000000, 'nan': 0x7ff8000000000000, 'inf': 0x7ff0000000000000, '-inf': 0xfff0000000000000, 'min': 0xffefffffffffffff, 'max': 0x7fefffffffffffff}
    return '(f32_of_bits O %d)' % bits32[v] if kind == 'f32' else '(f64_of_bits O %d)' % bits64[v]

def const_lanes(name, kind, d):
    """documented value of a named constant, as python lane values"""
    ax = {'X': 0, 'Y': 1, 'Z': 2, 'W': 3}
    if name == 'ZERO': return [0] * d
    if name == 'ONE': return [1] * d
    if name == 'NEG_ONE': return [-1] * d
    if name in ax and ax[name] < d: return [1 if i == ax[name] else 0 for i in range(d)]
    if name.startswith('NEG_') and name[4:] in ax and ax[name[4:]] < d: return [-1 if i == ax[name[4:]] else 0 for i in range(d)]
    if kind in ('f32', 'f64'):
        if name == 'NAN': return ['nan'] * d
        if name == 'INFINITY': return ['inf'] * d
        if name == 'NEG_INFINITY': return ['-inf'] * d
        if name == 'MIN': return ['min'] * d
        if name == 'MAX': return ['max'] * d
    else:
        b = core.BITS[kind]; s = kind[0] == 'i'
        if name == 'MIN': return [-(1 << (b - 1)) if s else 0] * d
        if name == 'MAX': return [(1 << (b - 1)) - 1 if s else (1 << b) - 1] * d
    return None

def spec(cfg, structs, f):
    name = f['name']; tr = f['trait'][0] if f['trait'] else None; targs = f['trait'][1] if f['trait'] else []
    st = f['self']; selfvec = st is not None and is_vec(st)
    # free constructor functions vec3(x,y,z) etc.
    freefn = st is None and is_vec(f['ret']) and tname(f['ret']).lower() == name and f['pub']
    if not (selfvec or freefn or (tr in ('From',) and st is not None and (is_vec(st) or any(is_vec(p[1]) for p in f['params'])))): return None
    if f['generic'] or f['by_ref']: return None
    vt = st if selfvec else (f['ret'] if freefn else None)
    def vec_tree(t, pre, vs): tr_ = sym(structs, t, pre, vs); return tr_
    out = None
    def R(vs, args, rhs, sname, shape_t=None, setter=False):
        fid = f['setfid'] if setter else f['fid']
        if fid is None: return 'untranslated'
        run = 'run O tbl 200 %d%%positive [%s]' % (fid, '; '.join(args))
        sh = ty_shape(structs, shape_t) if shape_t is not None else 'SL'
        lhs = 'rerase O (%s) (%s)' % (sh, run) if core.shape_has_hidden(sh) else run
        return {'vars': vs, 'lhs': lhs, 'rhs': rhs, 'spec': sname, 'intstd': True}
    # ---------------- constructors
    if freefn or (selfvec and tr is None and name == 'new' and not f['has_self']):
        vs = []; rt = vec_tree(f['ret'] if freefn else st, 'r', []); lanes = tree_leaves(rt)
        if len(f['params']) != len(lanes): return None
        ps = [sym(structs, p[1], 'p%d' % i, vs) for i, p in enumerate(f['params'])]
        return R(vs, [tree_coq(p) for p in ps], 'Ok (%s)' % tree_fill(rt, iter([p[2] for p in ps])), 'constructor lanes in argument order', f['ret'] if freefn else st)
    if selfvec and tr is None and name == 'splat' and len(f['params']) == 1:
        vs = []; rt = vec_tree(st, 'r', []); p = sym(structs, f['params'][0][1], 'v', vs)
        return R(vs, [tree_coq(p)], 'Ok (%s)' % tree_fill(rt, iter([p[2]] * len(tree_leaves(rt)))), 'splat', st)
    if selfvec and ((tr is None and name == 'from_array') or (tr == 'From' and not f['has_self'])) and len(f['params']) == 1:
        pt = f['params'][0][1]
        if not (isinstance(pt, dict) and ('a' in pt or 't' in pt)): return None
        vs = []; p = sym(structs, pt, 'p', vs); pl = tree_leaves(p); rt = vec_tree(st, 'r', [])
        if len(pl) != len(tree_leaves(rt)) or any(l[1] != tree_leaves(rt)[0][1] for l in pl): return None   # (Vec2, f32) pairs etc. belong to C14
        if isinstance(pt, dict) and 't' in pt and any(not isinstance(x, str) for x in pt['t']): return None
        return R(vs, [tree_coq(p)], 'Ok (%s)' % tree_fill(rt, iter([l[2] for l in pl])), 'from array/tuple in order', st)
    if selfvec and f.get('is_const') and tr is None:
        rt = vec_tree(st, 'r', []); lanes = tree_leaves(rt); cl = const_lanes(name, lanes[0][1], len(lanes))
        if cl is None: return None
        if tname(st) in ('Quat', 'DQuat'): return None   # quaternion constants (IDENTITY, NAN): C04/C09
        return R([], [], 'Ok (%s)' % tree_fill(rt, iter([lit(lanes[0][1], v) for v in cl])), 'constant %s' % name, st)
    # ---------------- readers (self is the vector)
    if selfvec and f['has_self']:
        vs = []; sv = vec_tree(st, 'a', vs); lanes = tree_leaves(sv); kind = lanes[0][1]; N = len(lanes)
        def scal(l): return core.leaf_coq(l)
        if (tr is None and name == 'to_array' and not f['params']) or (tr == 'AsRef' and not f['params']):
            return R(vs, [tree_coq(sv)], 'Ok (VT [%s])' % '; '.join(scal(l) for l in lanes), 'lanes as array')
        if tr == 'Deref' and name == 'deref':
            return R(vs, [tree_coq(sv)], 'Ok (VT [%s])' % '; '.join(scal(l) for l in lanes), 'field view x,y,z,w = lanes')
        if tr == 'Index' and len(f['params']) == 1 and f['params'][0][1] == 'usize':
            return [R(vs, [tree_coq(sv), 'VI USize %d' % i], 'Ok (%s)' % scal(lanes[i]), 'index %d' % i) for i in range(N)]
        m = re.fullmatch('with_([xyzw])', name)
        if tr is None and m and len(f['params']) == 1 and LET.index(m.group(1)) < N:
            p = sym(structs, f['params'][0][1], 'v', vs); new = [l[2] for l in lanes]; new[LET.index(m.group(1))] = p[2]
            return R(vs, [tree_coq(sv), tree_coq(p)], 'Ok (%s)' % tree_fill(sv, iter(new)), name, st)
        # writers as lenses: setter (self, [index,] new) -> self
        if tr == 'IndexMut' and f['setfid'] is not None:
            p = sym(structs, kind, 'v', vs); res = []
            for i in range(N):
                new = [l[2] for l in lanes]; new[i] = p[2]
                res.append(R(vs, [tree_coq(sv), 'VI USize %d' % i, tree_coq(p)], 'Ok (%s)' % tree_fill(sv, iter(new)), 'index_mut %d' % i, st, setter=True))
            return res
        if tr in ('AsMut', 'DerefMut') and f['setfid'] is not None:
            ws = [sym(structs, kind, 'w%d' % i, vs) for i in range(N)]
            return R(vs, [tree_coq(sv), 'VT [%s]' % '; '.join(tree_coq(w) for w in ws)], 'Ok (%s)' % tree_fill(sv, iter([w[2] for w in ws])), '%s: writing the view writes the lanes' % tr, st, setter=True)
        if tr in ('IndexMut', 'AsMut', 'DerefMut'): return 'untranslated'
    # From<Vec> for [T;N] / (T,..)
    if tr == 'From' and not f['has_self'] and len(f['params']) == 1 and is_vec(f['params'][0][1]) and isinstance(st, dict) and ('a' in st or 't' in st):
        if 't' in st and any(not isinstance(x, str) for x in st['t']): return None
        vs = []; sv = vec_tree(f['params'][0][1], 'a', vs); lanes = tree_leaves(sv)
        n_out = st['len'] if 'a' in st else len(st['t'])
        if n_out != len(lanes): return None
        return R(vs, [tree_coq(sv)], 'Ok (VT [%s])' % '; '.join(core.leaf_coq(l) for l in lanes), 'into array/tuple in order')
    return None

HDR = core.HDR.replace('Import Base Spec.', 'Import Base Spec Sem.')

def run(tier, seed):
    t0 = time.time(); idx, info = flow.prepare()
    files, notes, cover = f1.build(idx, CFGS, 'acc', spec, per_file=80, pid='C17')
    per_fn = 3 if tier == 'quick' else 20
    return f1.run('C17', tier, seed, idx, info, t0, files, notes, cover, HDR, per_fn,
        'one lemma per access path (constructor, reader, writer) of the 40 vector types and the two quaternion types in the sse2, scalar-math and core-simd configurations, against the list-of-lanes view, for all lane values; writers are the setter halves of the reference-returning accessors; correspondence: %d random calls per function' % per_fn,
        ['the list-of-lanes abstraction and the documented constant values in harness/props/C17.py', 'coq/theories/AccessHist.v (history induction)'],
        ['Debug/Display output is not yet part of the model (the formatting functions are not translated)'])
