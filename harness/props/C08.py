"""C08 - the unused fourth lane of Vec3A / Mat3A / Affine3A / BVec3A never influences a result.

For every translated function (public or not) with a parameter of one of the four padded types, in the sse2 and core-simd
configurations:   erase (run f args[h]) = erase (run f args[h'])   for all Ops, all visible lanes and two independent
choices h, h' of every hidden lane; `erase` drops the hidden lanes of the result.  The hidden lanes are variables of the
abstract float type, so the theorem covers every bit pattern (numbers, infinities, NaNs).  The documented raw-register
conversions (From<Vec3A> for __m128 / f32x4) are excluded.  Integer/index logic runs on the concrete Rust integer semantics."""
import time
from .. import core, flow, f1
from ..core import sym, tree_coq, tree_leaves, has_hidden, ty_shape, tshow, tname

CFGS = ['sse2', 'coresimd']
RAW = ('m128', )

def is_raw_conv(f):
    return (f['trait'] and f['trait'][0] == 'From' and (f['self'] in ('m128',) or (isinstance(f['self'], dict) and 'simd' in f['self']))) or (f['trait'] and f['trait'][0] in ('Deref', 'DerefMut'))

def subst_hidden(tr, suffix):
    if tr[0] == 'L': return ('L', tr[1], tr[2] + suffix, True) if tr[3] else tr
    return ('T', [subst_hidden(c, suffix) for c in tr[1]])

def spec(cfg, structs, f):
    if f['fid'] is None and 'err' not in f: return None
    if is_raw_conv(f) or f['file'].startswith(('sse2.rs', 'coresimd.rs')): return None
    try: vs, trees = f1.sym_args(structs, f)
    except core.SymErr: return None
    if not trees or not any(has_hidden(t) for t in trees): return None
    if f['fid'] is None: return 'untranslated'
    hid = [l for t in trees for l in tree_leaves(t, visible_only=False) if l[3]]
    rt = f1.result_type(f); sh = ty_shape(structs, rt)
    # index parameters (usize) take literal values: the model's index logic is decided by computation
    idxvars = [l[2] for t in trees if t[0] == 'L' and t[1] == 'usize' for l in [t]]
    combos = [{}]
    for v in idxvars: combos = [dict(c, **{v: k}) for c in combos for k in range(5 if len(idxvars) == 1 else 4)]
    out = []
    for cmb in combos:
        def inst(t): return ('L', t[1], '%d' % cmb[t[2]], False) if (t[0] == 'L' and t[2] in cmb) else t
        tr = [inst(t) for t in trees]
        vs2 = [v for v in vs if v[0] not in cmb] + [(l[2] + 'q', l[1]) for l in hid]
        a1 = '[%s]' % '; '.join(tree_coq(t) for t in tr); a2 = '[%s]' % '; '.join(tree_coq(subst_hidden(t, 'q')) for t in tr)
        run = 'rerase O (%s) (run O tbl 200 %d%%positive %s)'
        out.append({'vars': vs2, 'lhs': run % (sh, f['fid'], a1), 'rhs': run % (sh, f['fid'], a2), 'spec': 'hidden-lane non-interference', 'intstd': True, 'fixed': cmb})
    return out

HDR = core.HDR.replace('Import Base Spec.', 'Import Base Spec Sem.')

def run(tier, seed):
    t0 = time.time(); idx, info = flow.prepare()
    files, notes, cover = f1.build(idx, CFGS, 'hid', spec, per_file=40, pid='C08')
    per_fn = 3 if tier == 'quick' else 30
    return f1.run('C08', tier, seed, idx, info, t0, files, notes, cover, HDR, per_fn,
        'one lemma per function with a Vec3A/Mat3A/Affine3A/BVec3A parameter (sse2, core-simd), all Ops: the result with hidden lanes erased is the same for two independent choices of every hidden input lane; correspondence: %d random calls per function with lattice/raw-bit hidden lanes (inf, NaN payloads, all-ones)' % per_fn,
        ['erase / shape definitions in Spec.v', 'harness/props/C08.py (which functions are in scope)'], ['raw-register conversions From<Vec3A> for __m128/f32x4 and Deref views are out of scope as documented'])
