"""C01 - element-wise float vector ops equal the per-lane IEEE primitive on every backend.

Three kinds of generated lemma, per (configuration, float vector type, operation), all for all Ops and all lane values:
  direct    the result is literally the lane-wise application of the named primitive of `Ops` (f32_2 O FAdd, f32_1 O FFloor,
            f32_3 O FFma, ...) - every scalar-backed type in every configuration, core-simd types (whose lane operations
            are the primitives), and the SSE2 operations that are single lane-wise instructions;
  uniform   (SSE2 operations built from several instructions: neg/abs/signum/copysign by sign-bit masks, floor/ceil/trunc/
            round by the integer round trip, %, recip, mul_add, clamp ...) every output lane is the same function L of the
            corresponding input lanes alone, where L is read off the code by running it on splatted operands:
                lanes (run f [a; b]) = [ lane0 (run f [splat a_i; splat b_i]) | i ];
            that L agrees with the Rust primitive as an IEEE value is proved in coq/theories/FloatTricks.v for the tricks
            listed there and otherwise checked by a sweep of L against the primitive in the IEEE instance (thorough tier);
  predicate is_nan / is_finite / is_negative_bitmask / == / != / abs_diff_eq and the horizontal min/max/sum/product are the
            stated boolean / left-fold combinations of per-lane primitives.
The correspondence run compares the real crate with the model on lattice x lattice lane values per operation."""
import re, time
from .. import core, flow, f1
from ..core import sym, tree_coq, tree_leaves, tree_fill, tshow, tname, SymErr, ty_shape

CFGS = ['sse2', 'scalar', 'coresimd', 'sse2+fma', 'libm']
FVECS = {'Vec2': ('f32', 2), 'Vec3': ('f32', 3), 'Vec3A': ('f32', 3), 'Vec4': ('f32', 4), 'DVec2': ('f64', 2), 'DVec3': ('f64', 3), 'DVec4': ('f64', 4)}
UN = {'abs': 'FAbs', 'signum': 'FSignum', 'floor': 'FFloor', 'ceil': 'FCeil', 'trunc': 'FTrunc', 'round': 'FRound', 'recip': 'RECIP', 'exp': 'FExp'}
BIN = {'Add': 'FAdd', 'Sub': 'FSub', 'Mul': 'FMul', 'Div': 'FDiv', 'Rem': 'FRem'}
BINM = {'copysign': 'FCopysign', 'div_euclid': 'FDivEuclid', 'rem_euclid': 'FRemEuclid'}
TRICK = {'floor': '(floor_lane O %(x)s)', 'ceil': '(ceil_lane O %(x)s)', 'trunc': '(trunc_lane O %(x)s)', 'round': '(round_lane O %(x)s)',
         'fract': '(f32_2 O FSub %(x)s (trunc_lane O %(x)s))', 'fract_gl': '(f32_2 O FSub %(x)s (floor_lane O %(x)s))',
         'abs': '(abs_lane O %(x)s)', 'signum': '(signum_lane O %(x)s)', 'neg': '(neg_lane O %(x)s)', 'copysign': '(copysign_lane O %(x)s %(y)s)'}     # multi-instruction SSE2 operations (src/sse2.rs m128_*)
SSE_DIRECT = {'Add', 'Sub', 'Mul', 'Div', 'min', 'max', 'clamp', 'exp', 'powf', 'div_euclid', 'rem_euclid', 'recip'}     # single lane-wise SSE2 instructions (min/max = the documented compare-select)

def simd_backed(structs, n):
    fs = structs.get(n); return bool(fs) and len(fs) == 1 and fs[0][1] == 'm128'

def spec(cfg, structs, f):
    st = f['self']; name = f['name']; tr = f['trait'][0] if f['trait'] else None
    if f['generic'] or f['by_ref']: return None
    # scalar on the left
    if st in ('f32', 'f64') and tr in BIN and f['has_self'] and len(f['params']) == 1 and tname(f['params'][0][1]) in FVECS:
        vn = tname(f['params'][0][1]); k, d = FVECS[vn]
        if k != st: return None
        return lanewise(cfg, structs, f, vn, k, d, tr, BIN[tr], scalar_left=True)
    n = tname(st) if st is not None else None
    if n not in FVECS: return None
    k, d = FVECS[n]
    base = tr[:-6] if tr and tr.endswith('Assign') else tr
    if base in BIN and f['has_self'] and len(f['params']) == 1: return lanewise(cfg, structs, f, n, k, d, base, BIN[base])
    if tr == 'Neg' and f['has_self'] and not f['params']: return lanewise(cfg, structs, f, n, k, d, 'neg', 'FNeg', unary=True)
    if tr is None and f['has_self']:
        if name in UN and not f['params']: return lanewise(cfg, structs, f, n, k, d, name, UN[name], unary=True)
        if name in BINM and len(f['params']) == 1: return lanewise(cfg, structs, f, n, k, d, name, BINM[name])
        if name in ('min', 'max', 'clamp', 'fract', 'fract_gl', 'mul_add', 'powf'): return lanewise(cfg, structs, f, n, k, d, name, None)
        if name in ('is_nan', 'is_finite', 'is_negative_bitmask', 'min_element', 'max_element', 'element_sum', 'element_product', 'abs_diff_eq'): return predicate(cfg, structs, f, n, k, d)
    if tr == 'PartialEq' and name == 'eq' and len(f['params']) == 1: return predicate(cfg, structs, f, n, k, d)
    return None

def op1(k, o, a): return '(%s_1 O %s %s)' % (k, o, a)
def op2(k, o, a, b): return '(%s_2 O %s %s %s)' % (k, o, a, b)
def cmp(k, c, a, b): return '(%s_cmp O %s %s %s)' % (k, c, a, b)
def prd(k, p, a): return '(%s_pred O %s %s)' % (k, p, a)

def lanewise(cfg, structs, f, n, k, d, opname, prim, unary=False, scalar_left=False):
    if f['fid'] is None: return 'untranslated'
    vs = []; trees = []
    allp = ([f['self']] if f['has_self'] else []) + [p[1] for p in f['params']]
    for i, t in enumerate(allp): trees.append(sym(structs, t, 'abcd'[i], vs))
    ret = f1.result_type(f); rt = sym(structs, ret, 'r', [])
    if len(tree_leaves(rt)) != d: return None
    def lanes_of_arg(t): L = [l[2] for l in tree_leaves(t)]; return L if len(L) == d else L * d     # scalar operands broadcast
    A = [lanes_of_arg(t) for t in trees]
    simd = simd_backed(structs, n)
    args = '[%s]' % '; '.join(tree_coq(t) for t in trees)
    run = 'run O tbl 200 %d%%positive %s' % (f['fid'], args); sh = ty_shape(structs, ret)
    lhs = ('rerase O (%s) (%s)' % (sh, run)) if core.shape_has_hidden(sh) else run
    if cfg == 'libm' and opname in ('div_euclid', 'rem_euclid', 'signum'): return None     # libm builds spell these out; covered by the correspondence run only
    sse_trick = simd and not cfg.startswith('coresimd') and opname in TRICK      # lane function defined in coq/theories/FloatTricks.v and proved equal to the IEEE primitive there
    sse_rem = simd and not cfg.startswith('coresimd') and opname == 'Rem'          # known deviation (floored remainder): the full-strength lemma is stated and fails; a second lemma pins the present behaviour
    direct = (not simd) or (opname in SSE_DIRECT) or sse_trick or (cfg.startswith('coresimd') and (opname in UN or opname in BIN or opname in BINM or opname in ('neg', 'min', 'max', 'fract', 'fract_gl', 'clamp', 'powf')))
    if sse_rem or opname == 'mul_add': direct = True      # mul_add is the fused primitive in every backend and configuration
    if direct:
        def lane(i):
            x = [a[i] for a in A]
            if sse_trick: return TRICK[opname] % {'x': x[0], 'y': x[1] if len(x) > 1 else ''}
            if prim == 'RECIP': return op2(k, 'FDiv', '(%s_of_bits O %d)' % (k, 1065353216 if k == 'f32' else 4607182418800017408), x[0])
            if prim and (unary): return op1(k, prim, x[0])
            if opname == 'powf': return op2(k, 'FPowf', x[0], x[1])
            if prim: return op2(k, prim, x[0], x[1])
            if opname == 'min': return '(if %s then %s else %s)' % (cmp(k, 'FLt', x[0], x[1]), x[0], x[1])
            if opname == 'max': return '(if %s then %s else %s)' % (cmp(k, 'FGt', x[0], x[1]), x[0], x[1])
            if opname == 'clamp':
                m = '(if %s then %s else %s)' % (cmp(k, 'FGt', x[0], x[1]), x[0], x[1]); return '(if %s then %s else %s)' % (cmp(k, 'FLt', m, x[2]), m, x[2])
            if opname == 'fract': return op2(k, 'FSub', x[0], op1(k, 'FTrunc', x[0]))
            if opname == 'fract_gl': return op2(k, 'FSub', x[0], op1(k, 'FFloor', x[0]))
            if opname == 'mul_add': return '(%s_3 O FFma %s %s %s)' % (k, x[0], x[1], x[2])
            raise SymErr('no lane rule ' + opname)
        if simd and opname in ('min', 'max') and not cfg.startswith('coresimd'):
            prim2 = 'FMinSse' if opname == 'min' else 'FMaxSse'
            lanes = [op2(k, prim2, A[0][i], A[1][i]) for i in range(d)]
        elif simd and opname == 'clamp' and not cfg.startswith('coresimd'):      # self.max(min).min(max) with the SSE2 min/max instructions
            lanes = [op2(k, 'FMinSse', op2(k, 'FMaxSse', A[0][i], A[1][i]), A[2][i]) for i in range(d)]
        else: lanes = [lane(i) for i in range(d)]
        d = {'vars': vs, 'lhs': lhs, 'rhs': 'Ok (%s)' % tree_fill(rt, iter(lanes)), 'spec': 'direct %s' % opname}
        if sse_trick: d['pre'] = 'i_1 O U32 INot 2147483648 = Some 2147483647'; d['spec'] = 'lane function of FloatTricks.v for %s (proved equal to the IEEE primitive there)' % opname
        if sse_rem:
            fl = [op2(k, 'FSub', A[0][i], op2(k, 'FMul', '(floor_lane O %s)' % op2(k, 'FDiv', A[0][i], A[1][i]), A[1][i])) for i in range(len(lanes))]
            return [d, {'vars': vs, 'lhs': lhs, 'rhs': 'Ok (%s)' % tree_fill(rt, iter(fl)), 'spec': 'sse2 %% is a - floor(a / b) * b per lane (present behaviour, FloatTricks.rem_floored_refuted)', 'pre': 'i_1 O U32 INot 2147483648 = Some 2147483647'}]
        return d
    # lane uniformity: every lane is lane 0 of the same function on splatted operands
    paths = [leaf_path(rt, i) for i in range(d)]
    def splat(t, i):
        L = [l for l in tree_leaves(t, visible_only=False)]
        if t[0] == 'L': return tree_coq(t)
        vis = tree_leaves(t); x = vis[i]
        return tree_coq(subst_all(t, x))
    runs = ['run O tbl 200 %d%%positive [%s]' % (f['fid'], '; '.join(splat(t, i) for t in trees)) for i in range(d)]
    plist = '[%s]' % '; '.join('[%s]' % '; '.join('%d%%nat' % j for j in p) for p in paths)
    return {'vars': vs, 'lhs': 'lanes_of O %s (%s)' % (plist, run), 'rhs': 'lanes_from O [%s] [%s]' % ('; '.join('%d%%nat' % j for j in paths[0]), '; '.join(runs)), 'spec': 'lane-uniform %s' % opname}

def subst_all(t, leaf):
    if t[0] == 'L': return ('L', leaf[1], leaf[2], t[3])
    return ('T', [subst_all(c, leaf) for c in t[1]])
def leaf_path(t, i):
    """index path of the i-th visible leaf"""
    cnt = [0]
    def go(x, path):
        if x[0] == 'L':
            if x[3]: return None
            cnt[0] += 1; return path if cnt[0] - 1 == i else None
        for j, c in enumerate(x[1]):
            r = go(c, path + [j])
            if r is not None: return r
        return None
    return go(t, [])

def predicate(cfg, structs, f, n, k, d):
    if f['fid'] is None: return 'untranslated'
    name = f['name']; vs = []; trees = []
    allp = ([f['self']] if f['has_self'] else []) + [p[1] for p in f['params']]
    for i, t in enumerate(allp): trees.append(sym(structs, t, 'abcd'[i], vs))
    A = [l[2] for l in tree_leaves(trees[0])]
    args = '[%s]' % '; '.join(tree_coq(t) for t in trees); run = 'run O tbl 200 %d%%positive %s' % (f['fid'], args)
    simd = simd_backed(structs, n); sse = simd and not cfg.startswith('coresimd')
    if sse and name == 'is_finite': rhs = 'Ok (VB (%s))' % ' && '.join('(finite_lane O %s)' % a for a in A)       # |x| < inf on the masked bits; FloatTricks.finite_lane_correct
    elif sse and name == 'abs_diff_eq' and len(trees) == 3:
        Bv = [l[2] for l in tree_leaves(trees[1])]; e = tree_leaves(trees[2])[0][2]
        rhs = 'Ok (VB (%s))' % ' && '.join(cmp(k, 'FLe', '(abs_lane O %s)' % op2(k, 'FSub', a, b), e) for a, b in zip(A, Bv))   # FloatTricks.abs_lane_correct
    elif name == 'is_nan': rhs = 'Ok (VB (%s))' % ' || '.join(prd(k, 'FIsNan', a) for a in A)
    elif name == 'is_finite': rhs = 'Ok (VB (%s))' % ' && '.join(prd(k, 'FIsFinite', a) for a in A)
    elif name == 'is_negative_bitmask': rhs = 'Ok (VI U32 (%s))' % ' + '.join('(if %s then %d else 0)' % (prd(k, 'FSignBit', a), 1 << i) for i, a in enumerate(A))
    elif name == 'eq' and len(trees) == 2:
        Bv = [l[2] for l in tree_leaves(trees[1])]; rhs = 'Ok (VB (%s))' % ' && '.join(cmp(k, 'FEq', a, b) for a, b in zip(A, Bv))
    elif name == 'abs_diff_eq' and len(trees) == 3:
        Bv = [l[2] for l in tree_leaves(trees[1])]; e = tree_leaves(trees[2])[0][2]
        rhs = 'Ok (VB (%s))' % ' && '.join(cmp(k, 'FLe', op1(k, 'FAbs', op2(k, 'FSub', a, b)), e) for a, b in zip(A, Bv))
    elif name in ('element_sum', 'element_product') and not simd:
        o = 'FAdd' if name == 'element_sum' else 'FMul'; acc = A[0]
        for a in A[1:]: acc = op2(k, o, acc, a)
        rhs = 'Ok (%s %s)' % ('VF32' if k == 'f32' else 'VF64', acc)
    elif name in ('min_element', 'max_element') and not simd:
        c = 'FLt' if name == 'min_element' else 'FGt'
        def sel(a, b): return '(if %s then %s else %s)' % (cmp(k, c, a, b), a, b)
        acc = A[-1]
        for a in reversed(A[:-1]): acc = sel(a, acc)
        rhs = 'Ok (%s %s)' % ('VF32' if k == 'f32' else 'VF64', acc)
    else: return None
    return {'vars': vs, 'lhs': run, 'rhs': rhs, 'spec': 'predicate %s' % name, 'intstd': True}

HDR = core.HDR.replace('Import Base Spec.', 'Import Base Spec Sem FloatTricks.')

def run(tier, seed):
    t0 = time.time(); idx, info = flow.prepare()
    files, notes, cover = f1.build(idx, CFGS, 'flt', spec, per_file=50, pid='C01')
    per_fn = 8 if tier == 'quick' else 200
    return f1.run('C01', tier, seed, idx, info, t0, files, notes, cover, HDR, per_fn,
        'one lemma per element-wise operation of the 7 float vector types in the sse2, scalar-math, core-simd, sse2+fma and libm tables (direct = lane-wise primitive; uniform = every lane is the same function of its own operands; predicate = boolean/fold of per-lane primitives), for all Ops; correspondence: %d random calls per operation with special-value lattice lanes (ties, 2^23, 2^31, subnormals, NaN payloads, infinities)' % per_fn,
        ['operation table harness/props/C01.py', 'coq/theories/FloatTricks.v (bit-trick lane functions vs primitives, IEEE instance)'],
        ['NEON and wasm32 sources are not translated (cannot be built or validated here)', 'transcendental exp/powf are uninterpreted primitives: the theorem is that the code applies them lane-wise'])
