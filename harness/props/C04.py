"""C04 - quaternion algebra: Hamilton product, conjugate, and rotation of vectors.

Algebraic part (proved, over an arbitrary field K, for Quat and DQuat in the sse2, scalar-math and core-simd tables):
  mul_quat / Mul<Quat>    = the Hamilton product of the stored (x, y, z, w)
  conjugate, inverse      = (-x, -y, -z, w)
  mul_vec3 / mul_vec3a / Mul<Vec3> / Mul<Vec3A>  = the vector part of q v conj(q) expanded as a polynomial - for EVERY q
  + - scalar * / dot length_squared            = the 4-vector operations
coq/theories/QuatAlg.v then derives, for the reference formulas alone: rot(q p) v = rot q (rot p v), |rot q v|^2 = |q|^4 |v|^2
(length preserved for unit q), rot(-q) = rot q, rot(conj q)(rot q v) = |q|^4 v (undone by the inverse for unit q)."""
import time
from .. import core, flow, f1, alg
from ..core import sym, tree_coq, tree_leaves, tree_fill, tname, SymErr, ty_shape

CFGS = ['sse2', 'scalar', 'coresimd']
QUATS = {'Quat': 'f32', 'DQuat': 'f64'}
def VF(k): return 'VF32' if k == 'f32' else 'VF64'

def hamilton(q, p):
    (qx, qy, qz, qw), (px, py, pz, pw) = q, p
    return ['(%s * %s + %s * %s + %s * %s - %s * %s)%%K' % (qw, px, qx, pw, qy, pz, qz, py),
            '(%s * %s - %s * %s + %s * %s + %s * %s)%%K' % (qw, py, qx, pz, qy, pw, qz, px),
            '(%s * %s + %s * %s - %s * %s + %s * %s)%%K' % (qw, pz, qx, py, qy, px, qz, pw),
            '(%s * %s - %s * %s - %s * %s - %s * %s)%%K' % (qw, pw, qx, px, qy, py, qz, pz)]
def qvq(q, v):
    (x, y, z, w), (vx, vy, vz) = q, v; two = '(k1 + k1)'
    return ['((%s*%s + %s*%s - %s*%s - %s*%s) * %s + %s * (%s*%s - %s*%s) * %s + %s * (%s*%s + %s*%s) * %s)%%K' % (w, w, x, x, y, y, z, z, vx, two, x, y, w, z, vy, two, x, z, w, y, vz),
            '(%s * (%s*%s + %s*%s) * %s + (%s*%s - %s*%s + %s*%s - %s*%s) * %s + %s * (%s*%s - %s*%s) * %s)%%K' % (two, x, y, w, z, vx, w, w, x, x, y, y, z, z, vy, two, y, z, w, x, vz),
            '(%s * (%s*%s - %s*%s) * %s + %s * (%s*%s + %s*%s) * %s + (%s*%s - %s*%s - %s*%s + %s*%s) * %s)%%K' % (two, x, z, w, y, vx, two, y, z, w, x, vy, w, w, x, x, y, y, z, z, vz)]

def lemmas(idx):
    order = []; seen = {}; cover = []; notes = {'untranslated': []}; n = 0
    def add(cfg, f, vs, args, ret_t, lanes, sname, scalar_k=None):
        nonlocal n
        args = alg.kxargs(args); lanes = alg.kxl(lanes)
        if f['fid'] is None or f.get('status') == 'missing-callee': notes['untranslated'].append('%s %s' % (cfg, f['key'])); return
        structs = idx.structs(cfg); run = 'rnorm (run OA tbl 400 %d%%positive [%s])' % (f['fid'], '; '.join(args))
        if scalar_k: rhs = 'Ok (%s %s)' % (VF(scalar_k), lanes[0]); sh = 'SL'
        else: rt = sym(structs, ret_t, 'r', []); rhs = 'Ok (%s)' % tree_fill(rt, iter(lanes)); sh = ty_shape(structs, ret_t)
        lhs = ('rerase OA (%s) (%s)' % (sh, run)) if core.shape_has_hidden(sh) else run
        cover.append((cfg, f)); key = (lhs, rhs)
        if key in seen: seen[key].meta['covers'].append('%s:%s' % (cfg, f['key'])); return
        n += 1; lem = alg.AlgLemma('qalg_%d' % n, vs, lhs, rhs, meta={'cfg': cfg, 'key': f['key'], 'file': f['file'], 'fid': f['fid'], 'did': f['did'], 'covers': ['%s:%s' % (cfg, f['key'])], 'spec': sname})
        seen[key] = lem; order.append(lem)
    for cfg in CFGS:
        structs = idx.structs(cfg)
        for f in idx.fns(cfg):
            st = f['self']; tn = tname(st) if st is not None else None
            if tn not in QUATS or f['generic'] or f['by_ref']: continue
            k = QUATS[tn]; name = f['name']; tr = f['trait'][0] if f['trait'] else None
            if tr and tr.endswith('Assign'): tr = tr[:-6]; name = name[:-7]      # q *= p etc.: the model function returns the updated self
            def Q(pre, vs): t = sym(structs, st, pre, vs); return t, [l[2] for l in tree_leaves(t)]
            try:
                if (name == 'mul_quat' or (tr == 'Mul' and name == 'mul')) and f['has_self'] and len(f['params']) == 1 and tname(f['params'][0][1]) == tn:
                    vs = []; tq, q = Q('q', vs); tp, p = Q('p', vs); add(cfg, f, vs, [tree_coq(tq), tree_coq(tp)], st, hamilton(q, p), 'Hamilton product')
                elif name in ('conjugate', 'inverse') and f['has_self'] and not f['params']:
                    vs = []; tq, q = Q('q', vs); add(cfg, f, vs, [tree_coq(tq)], st, ['(- %s)%%K' % q[0], '(- %s)%%K' % q[1], '(- %s)%%K' % q[2], q[3]], name + ' negates the vector part')
                elif (name in ('mul_vec3', 'mul_vec3a') or (tr == 'Mul' and name == 'mul')) and f['has_self'] and len(f['params']) == 1 and tname(f['params'][0][1]) in ('Vec3', 'Vec3A', 'DVec3'):
                    vs = []; tq, q = Q('q', vs); tv = sym(structs, f['params'][0][1], 'v', vs); v = [l[2] for l in tree_leaves(tv)]
                    add(cfg, f, vs, [tree_coq(tq), tree_coq(tv)], f['ret'], qvq(q, v), 'q * v = vector part of q v conj(q), every q')
                elif tr in ('Add', 'Sub') and name in ('add', 'sub') and len(f['params']) == 1 and tname(f['params'][0][1]) == tn:
                    vs = []; tq, q = Q('q', vs); tp, p = Q('p', vs); o = '+' if tr == 'Add' else '-'
                    add(cfg, f, vs, [tree_coq(tq), tree_coq(tp)], st, ['(%s %s %s)%%K' % (a, o, b) for a, b in zip(q, p)], tr)
                elif tr == 'Mul' and name == 'mul' and len(f['params']) == 1 and f['params'][0][1] == k:
                    vs = []; tq, q = Q('q', vs); s = sym(structs, k, 's', vs); add(cfg, f, vs, [tree_coq(tq), tree_coq(s)], st, ['(%s * %s)%%K' % (a, s[2]) for a in q], 'scalar multiple')
                elif tr == 'Neg' and name == 'neg':
                    vs = []; tq, q = Q('q', vs); add(cfg, f, vs, [tree_coq(tq)], st, ['(- %s)%%K' % a for a in q], 'neg')
                elif name == 'dot' and len(f['params']) == 1:
                    vs = []; tq, q = Q('q', vs); tp, p = Q('p', vs); add(cfg, f, vs, [tree_coq(tq), tree_coq(tp)], None, [alg.S([alg.P(a, b) for a, b in zip(q, p)])], 'dot', scalar_k=k)
                elif name == 'length_squared' and not f['params']:
                    vs = []; tq, q = Q('q', vs); add(cfg, f, vs, [tree_coq(tq)], None, [alg.S([alg.P(a, a) for a in q])], 'length_squared', scalar_k=k)
            except SymErr: continue
    files = {}; nfiles = max(1, (len(order) + 5) // 6)
    for i, lem in enumerate(order): files.setdefault('Qalg_%03d' % (i % nfiles), []).append(lem)
    notes['covered_functions'] = len(cover); notes['distinct_statements'] = n; notes['untranslated_count'] = len(notes['untranslated'])
    return files, notes, cover

def componentwise(idx):
    """structural lemmas (all Ops): Add / Sub / Mul<scalar> / Div<scalar> / Neg of the quaternion types are the lane-wise primitive - one correctly
    rounded operation per component, exactly like the Vec4 operators (the algebraic lemmas cannot tell x / s from x * (1 / s))"""
    out = []; seen = set(); k_ = 0
    for cfg in CFGS:
        structs = idx.structs(cfg)
        for f in idx.fns(cfg):
            st = f['self']; tn = tname(st) if st is not None else None
            if tn not in ('Quat', 'DQuat') or f['generic'] or f['by_ref'] or not f['trait'] or f['fid'] is None: continue
            tr = f['trait'][0]; k = 'f32' if tn == 'Quat' else 'f64'; ps = f['params']
            prim = {'Add': 'FAdd', 'Sub': 'FSub', 'Mul': 'FMul', 'Div': 'FDiv', 'Neg': None}.get(tr)
            if tr not in ('Add', 'Sub', 'Mul', 'Div', 'Neg') or not f['has_self']: continue
            try:
                vs = []; a = sym(structs, st, 'a', vs); A = [l[2] for l in tree_leaves(a)]; rt = sym(structs, st, 'r', [])
                if tr == 'Neg' and not ps:
                    args = [tree_coq(a)]; lanes = ['(%s_2 O FMul %s (%s_of_bits O %d))' % (k, x, k, 3212836864 if k == 'f32' else 13830554455654793216) for x in A]; sname = 'neg = lane * -1.0'
                elif len(ps) == 1 and tname(ps[0][1]) == tn and tr in ('Add', 'Sub'):
                    b = sym(structs, st, 'b', vs); Bv = [l[2] for l in tree_leaves(b)]; args = [tree_coq(a), tree_coq(b)]; lanes = ['(%s_2 O %s %s %s)' % (k, prim, x, y) for x, y in zip(A, Bv)]; sname = 'lane-wise ' + tr
                elif len(ps) == 1 and ps[0][1] == k and tr in ('Mul', 'Div'):
                    b = sym(structs, k, 'b', vs); args = [tree_coq(a), tree_coq(b)]; lanes = ['(%s_2 O %s %s %s)' % (k, prim, x, b[2]) for x in A]; sname = 'lane-wise %s by the scalar' % tr
                else: continue
                stmt = ('run O tbl 200 %d%%positive [%s]' % (f['fid'], '; '.join(args)), 'Ok (%s)' % tree_fill(rt, iter(lanes)))
                if stmt in seen: continue
                seen.add(stmt); k_ += 1
                out.append(core.Lemma('qcw_%d' % k_, vs, stmt[0], stmt[1], meta={'cfg': cfg, 'key': f['key'], 'file': f['file'], 'fid': f['fid'], 'did': f['did'], 'covers': ['%s:%s' % (cfg, f['key'])], 'spec': sname}))
            except SymErr: continue
    return out

def run(tier, seed):
    t0 = time.time(); idx, info = flow.prepare()
    files, notes, cover = lemmas(idx)
    cw = componentwise(idx); core.LEMMA_TIMEOUT[0] = 60
    nobc, ndc, cfail, _ = core.prove_files(core.BUILD + '/props/C04_cw', {'Qcw_000': cw}, hdr=core.HDR, footer='') if cw else (0, 0, [], {})
    notes['componentwise_structural_lemmas'] = {'stated': nobc, 'proved': ndc}
    cextra = []
    for l, err in cfail:
        cx = None
        try: cx, _ = flow.search_counterexample(idx, l, seed)
        except Exception: pass
        obj = {'kind': 'counterexample' if cx else 'unproved', 'theorem': l.name, 'statement': l.statement()[:1500], 'meta': l.meta, 'coq_error': err[-400:], 'how_found': 'component-wise quaternion operators must be the lane-wise primitive'}
        if cx:
            obj.update(cx)
            try: obj.update(flow.confirm_on_crate(idx, l, cx))
            except Exception: pass
        cextra.append((obj, cx is not None))
    per_fn = 8 if tier == 'quick' else 80
    return f1.run('C04', tier, seed, idx, info, t0, files, notes, cover, alg.BOILER, per_fn,
        'one algebraic lemma per quaternion operation (Hamilton product, conjugate/inverse, rotation of Vec3 and Vec3A, component-wise operations, dot, length_squared) of Quat and DQuat in the sse2, scalar-math and core-simd tables over an arbitrary field; rotation laws derived from the reference formulas in coq/theories/QuatAlg.v; correspondence: %d random calls per function incl. small-integer quaternions' % per_fn,
        ['reference formulas (Hamilton product, q v conj q) in harness/props/C04.py and coq/theories/QuatAlg.v', 'field axioms only: no floating-point rounding in these statements'],
        ['rounding-error bounds (a few epsilon times |v|) are not proved in this round'], footer=alg.FOOTER, extra={'extra_violations': cextra})
