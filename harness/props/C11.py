"""C11 - view and projection matrices map the frustum as documented for each handedness.

Algebraic part (proved over an arbitrary field, cot(fov/2) being cos/sin or 1/tan of the uninterpreted oracle, as the source
spells it): every perspective_* and orthographic_* constructor of Mat4 and DMat4 yields exactly the documented matrix
(entries listed in PERSP / ORTHO below, taken from the API documentation); project_point3(p) = xyz(M (p,1)) / w,
transform_point3(p) = xyz(M (p,1)), transform_vector3(v) = xyz(M (v,0)).  coq/theories/ProjAlg.v proves, for those documented
matrices over the reals, the frustum facts the property names: clip w = -z (rh) / +z (lh); depth of the near and far planes
(-1/+1 for _gl, 0/1 otherwise, 1/0 reversed, far at infinity -> 1 resp. 0); the point (aspect t d, t d) at depth d maps to
NDC (1, 1); orthographic boxes map corner to corner.
look_to / look_at (normalisation through sqrt) are covered differentially only in this round."""
import time
from .. import core, flow, f1, alg
from ..core import sym, tree_coq, tree_leaves, tree_fill, tname, SymErr, ty_shape

CFGS = ['sse2', 'scalar', 'coresimd']
TAN = {'perspective_rh_gl', 'perspective_infinite_rh', 'perspective_infinite_reverse_rh'}

def persp(name, k, fov, a, n, f):
    half = '(lit32 1056964608)' if k == 'f32' else '(lit64 4602678819172646912)'
    arg = '(%s * %s)%%K' % (half, fov)
    if name in TAN: cot = '(k1 / (k_un FTan %s))%%K' % arg; hyp = ['(k_un FTan %s) <> k0' % arg]
    else: cot = '((k_un FCos %s) / (k_un FSin %s))%%K' % (arg, arg); hyp = ['(k_un FSin %s) <> k0' % arg]
    hyp.append('%s <> k0' % a)
    A = '(%s / %s)%%K' % (cot, a); B = cot; two = '(k1 + k1)'
    def M(c22, c32, c23): return [A, 'k0', 'k0', 'k0', 'k0', B, 'k0', 'k0', 'k0', 'k0', c22, c32, 'k0', 'k0', c23, 'k0']   # column-major
    m1 = '(- k1)%K'
    if name == 'perspective_rh_gl': return M('((%s + %s) / (%s - %s))%%K' % (n, f, n, f), m1, '(%s * %s * %s / (%s - %s))%%K' % (two, n, f, n, f)), hyp + ['(%s - %s)%%K <> k0' % (n, f)]
    if name == 'perspective_lh': return M('(%s / (%s - %s))%%K' % (f, f, n), 'k1', '(- (%s * %s) / (%s - %s))%%K' % (n, f, f, n)), hyp + ['(%s - %s)%%K <> k0' % (f, n)]
    if name == 'perspective_rh': return M('(%s / (%s - %s))%%K' % (f, n, f), m1, '(%s * %s / (%s - %s))%%K' % (n, f, n, f)), hyp + ['(%s - %s)%%K <> k0' % (n, f)]
    if name == 'perspective_infinite_lh': return M('k1', 'k1', '(- %s)%%K' % n), hyp
    if name == 'perspective_infinite_reverse_lh': return M('k0', 'k1', n), hyp
    if name == 'perspective_infinite_rh': return M(m1, m1, '(- %s)%%K' % n), hyp
    if name == 'perspective_infinite_reverse_rh': return M('k0', m1, n), hyp
    return None, None

def ortho(name, l, r, b, t, n, f):
    two = '(k1 + k1)'
    X = '(%s / (%s - %s))%%K' % (two, r, l); Y = '(%s / (%s - %s))%%K' % (two, t, b); tx = '(- (%s + %s) / (%s - %s))%%K' % (r, l, r, l); ty = '(- (%s + %s) / (%s - %s))%%K' % (t, b, t, b)
    hyp = ['(%s - %s)%%K <> k0' % (r, l), '(%s - %s)%%K <> k0' % (t, b)]
    if name == 'orthographic_rh_gl': Z = '(- %s / (%s - %s))%%K' % (two, f, n); tz = '(- (%s + %s) / (%s - %s))%%K' % (f, n, f, n); hyp.append('(%s - %s)%%K <> k0' % (f, n))
    elif name == 'orthographic_lh': Z = '(k1 / (%s - %s))%%K' % (f, n); tz = '(- %s / (%s - %s))%%K' % (n, f, n); hyp.append('(%s - %s)%%K <> k0' % (f, n))
    elif name == 'orthographic_rh': Z = '(k1 / (%s - %s))%%K' % (n, f); tz = '(%s / (%s - %s))%%K' % (n, n, f); hyp.append('(%s - %s)%%K <> k0' % (n, f))
    else: return None, None
    return [X, 'k0', 'k0', 'k0', 'k0', Y, 'k0', 'k0', 'k0', 'k0', Z, 'k0', tx, ty, tz, 'k1'], hyp

def lemmas(idx):
    order = []; seen = {}; cover = []; notes = {'untranslated': []}; n = 0
    def add(cfg, f, vs, args, ret_t, lanes, sname, hyps=(), tactic='alg_ring'):
        nonlocal n
        args = alg.kxargs(args); lanes = alg.kxl(lanes)
        if f['fid'] is None or f.get('status') == 'missing-callee': notes['untranslated'].append('%s %s' % (cfg, f['key'])); return
        structs = idx.structs(cfg); run = 'rnorm (run OA tbl 400 %d%%positive [%s])' % (f['fid'], '; '.join(args))
        rt = sym(structs, ret_t, 'r', [])
        if len(tree_leaves(rt)) != len(lanes): return
        rhs = 'Ok (%s)' % tree_fill(rt, iter(lanes)); sh = ty_shape(structs, ret_t)
        lhs = ('rerase OA (%s) (%s)' % (sh, run)) if core.shape_has_hidden(sh) else run
        cover.append((cfg, f)); key = (lhs, rhs, tuple(hyps))
        if key in seen: seen[key].meta['covers'].append('%s:%s' % (cfg, f['key'])); return
        n += 1; lem = alg.AlgLemma('prj_%d' % n, vs, lhs, rhs, hyps=hyps, tactic=tactic, meta={'cfg': cfg, 'key': f['key'], 'file': f['file'], 'fid': f['fid'], 'did': f['did'], 'covers': ['%s:%s' % (cfg, f['key'])], 'spec': sname})
        seen[key] = lem; order.append(lem)
    # ---- view matrices: look_to_rh(eye, dir, up) has rows s = normalize(f x up), u = s x f, -f and translation (-eye.s, -eye.u, eye.f); f = dir
    # (Mat4 / Mat3: dir is required to be unit) or normalize(dir) (Affine3A); _lh is _rh with -dir; look_at uses dir = normalize(center - eye).
    # normalize(v) is v * (1 / sqrt(v.v)) as proved in C02.
    def sub(a, b): return ['(%s - %s)%%K' % (x, y) for x, y in zip(a, b)]
    def neg(a): return ['(- %s)%%K' % x for x in a]
    def dot3(a, b): return alg.S([alg.P(x, y) for x, y in zip(a, b)])
    def cross(a, b): return ['(%s * %s - %s * %s)%%K' % (a[1], b[2], a[2], b[1]), '(%s * %s - %s * %s)%%K' % (a[2], b[0], a[0], b[2]), '(%s * %s - %s * %s)%%K' % (a[0], b[1], a[1], b[0])]
    def nrm(a): r = '(k1 / k_un FSqrt %s)%%K' % dot3(a, a); return ['(%s * %s)%%K' % (x, r) for x in a]
    def view(eye, fdir, up, kind):
        s_ = nrm(cross(fdir, up)); u_ = cross(s_, fdir); nf = neg(fdir)
        cols3 = [[s_[c], u_[c], nf[c]] for c in range(3)]
        if kind == 'mat3': return [x for col in cols3 for x in col]
        tr = ['(- %s)%%K' % dot3(eye, s_), '(- %s)%%K' % dot3(eye, u_), dot3(eye, fdir)]
        if kind == 'affine': return [x for col in cols3 for x in col] + tr
        return [x for col in cols3 for x in col + ['k0']] + tr + ['k1']
    VIEW = {'Mat4': ('f32', 'mat4', False), 'DMat4': ('f64', 'mat4', False), 'Mat3': ('f32', 'mat3', False), 'Mat3A': ('f32', 'mat3', False), 'DMat3': ('f64', 'mat3', False),
            'Affine3A': ('f32', 'affine', True), 'DAffine3': ('f64', 'affine', True)}
    for cfg in CFGS:
        structs = idx.structs(cfg)
        for f in idx.fns(cfg):
            st = f['self']; tn = tname(st) if st is not None else None
            if tn not in VIEW or f['generic'] or f['by_ref'] or not f['pub'] or f['has_self'] or f['name'] not in ('look_to_rh', 'look_to_lh', 'look_at_rh', 'look_at_lh'): continue
            k, kind, normdir = VIEW[tn]; name = f['name']; ps = f['params']
            try:
                vs = []; P = [sym(structs, p_[1], 'abc'[i], vs) for i, p_ in enumerate(ps)]; V = [[l[2] for l in tree_leaves(p_)] for p_ in P]
                if kind == 'mat3' and name.startswith('look_to'): eye = None; d_, up = V
                elif name.startswith('look_to'): eye, d_, up = V
                else: eye, ctr, up = V; d_ = sub(ctr, eye) if normdir else nrm(sub(ctr, eye))
                if name.endswith('_lh'): d_ = neg(d_)
                if normdir: d_ = nrm(d_)
                lanes = view(eye, d_, up, kind)
                add(cfg, f, vs, [tree_coq(p_) for p_ in P], st, lanes, '%s: rows s = normalize(f x up), u = s x f, -f; translation -(eye.s), -(eye.u), eye.f' % name, tactic='alg_congr')
            except (SymErr, ValueError): continue
    # Quat / DQuat look_to_* / look_at_*: the same three rows are handed to the matrix -> quaternion conversion (from_rotation_axes, abstracted by an
    # argument-returning stub; its four branches are lemmas of C05)
    def fid_of(cfg, key): return next((g['fid'] for g in idx.fns(cfg) if g['key'] == key and g['fid'] is not None), None)
    for cfg in CFGS:
        structs = idx.structs(cfg)
        for f in idx.fns(cfg):
            st = f['self']; tn = tname(st) if st is not None else None
            if tn not in ('Quat', 'DQuat') or f['generic'] or f['by_ref'] or not f['pub'] or f['has_self'] or f['name'] not in ('look_to_rh', 'look_to_lh', 'look_at_rh', 'look_at_lh') or f['fid'] is None: continue
            k = 'f32' if tn == 'Quat' else 'f64'; name = f['name']; ps = f['params']; callee = fid_of(cfg, tn + '::from_rotation_axes')
            if callee is None: continue
            try:
                vs = []; P = [sym(structs, p_[1], 'abc'[i], vs) for i, p_ in enumerate(ps)]; V = [[l[2] for l in tree_leaves(p_)] for p_ in P]
                if name.startswith('look_to'): d_, up = V
                else: eye, ctr, up = V; d_ = nrm(sub(ctr, eye))
                if name.endswith('_lh'): d_ = neg(d_)
                lanes = alg.kxl(view(None, d_, up, 'mat3')); VFk = 'VF32' if k == 'f32' else 'VF64'
                rhs = 'Ok (VT [%s])' % '; '.join('VT [%s]' % '; '.join('%s %s' % (VFk, x) for x in lanes[3 * c:3 * c + 3]) for c in range(3))
                lhs = 'rnorm (run OA (override tbl %d%%positive stub_args3) 400 %d%%positive [%s])' % (callee, f['fid'], '; '.join(alg.kxargs([tree_coq(p_) for p_ in P])))
                cover.append((cfg, f)); key = (lhs, rhs, ())
                if key in seen: seen[key].meta['covers'].append('%s:%s' % (cfg, f['key'])); continue
                n += 1; lem = alg.AlgLemma('prj_%d' % n, vs, lhs, rhs, tactic='alg_congr', meta={'cfg': cfg, 'key': f['key'], 'file': f['file'], 'fid': f['fid'], 'did': f['did'], 'covers': ['%s:%s' % (cfg, f['key'])], 'spec': '%s: rows s, u, -f handed to from_rotation_axes (abstracted)' % name})
                seen[key] = lem; order.append(lem)
            except (SymErr, ValueError): continue
    for cfg in CFGS:
        structs = idx.structs(cfg)
        for f in idx.fns(cfg):
            st = f['self']; tn = tname(st) if st is not None else None
            if tn not in ('Mat4', 'DMat4') or f['generic'] or f['by_ref'] or not f['pub']: continue
            k = 'f32' if tn == 'Mat4' else 'f64'; name = f['name']; ps = f['params']
            try:
                if not f['has_self'] and name.startswith('perspective_') and len(ps) in (3, 4):
                    vs = []; P = [sym(structs, k, x, vs) for x in ['fov', 'asp', 'zn', 'zf'][:len(ps)]]
                    lanes, hyp = persp(name, k, P[0][2], P[1][2], P[2][2], P[3][2] if len(ps) == 4 else None)
                    if lanes: add(cfg, f, vs, [tree_coq(p) for p in P], st, lanes, 'documented %s matrix' % name, hyps=hyp, tactic='alg_field')
                elif not f['has_self'] and name.startswith('orthographic_') and len(ps) == 6:
                    vs = []; P = [sym(structs, k, x, vs) for x in ['l', 'r', 'b', 't', 'zn', 'zf']]
                    lanes, hyp = ortho(name, *[p[2] for p in P])
                    if lanes: add(cfg, f, vs, [tree_coq(p) for p in P], st, lanes, 'documented %s matrix' % name, hyps=hyp, tactic='alg_field')
                elif f['has_self'] and name in ('project_point3', 'project_point3a', 'transform_point3', 'transform_point3a', 'transform_vector3', 'transform_vector3a') and len(ps) == 1:
                    vs = []; m = sym(structs, st, 'm', vs); L = [l[2] for l in tree_leaves(m)]; M = [[L[c * 4 + r] for c in range(4)] for r in range(4)]
                    p = sym(structs, ps[0][1], 'p', vs); v = [l[2] for l in tree_leaves(p)]
                    last = 'k0' if 'vector' in name else 'k1'
                    def row(r): return alg.S([alg.P(M[r][c], v[c]) for c in range(3)] + ([M[r][3]] if last == 'k1' else []))
                    if name.startswith('project'):
                        w = row(3); add(cfg, f, vs, [tree_coq(m), tree_coq(p)], f['ret'], ['(%s / %s)%%K' % (row(r), w) for r in range(3)], 'perspective divide', hyps=['%s <> k0' % w], tactic='alg_field')
                    else: add(cfg, f, vs, [tree_coq(m), tree_coq(p)], f['ret'], [row(r) for r in range(3)], name)
            except SymErr: continue
    files = {}; nfiles = max(1, (len(order) + 5) // 6)
    for i, lem in enumerate(order): files.setdefault('Prj_%03d' % (i % nfiles), []).append(lem)
    notes['covered_functions'] = len(cover); notes['distinct_statements'] = n; notes['untranslated_count'] = len(notes['untranslated'])
    return files, notes, cover

def run(tier, seed):
    t0 = time.time(); idx, info = flow.prepare()
    files, notes, cover = lemmas(idx)
    per_fn = 6 if tier == 'quick' else 60
    return f1.run('C11', tier, seed, idx, info, t0, files, notes, cover, alg.BOILER_MOD, per_fn,
        'one algebraic lemma per perspective_* / orthographic_* constructor and per project/transform function of Mat4 and DMat4 in three backends, against the documented matrices, over an arbitrary field; frustum facts of the documented matrices in coq/theories/ProjAlg.v; correspondence: %d random calls per function' % per_fn,
        ['documented projection matrices in harness/props/C11.py; coq/theories/ProjAlg.v'],
        ['look_to_* / look_at_* (view matrices) are exercised by the correspondence run only'], footer=alg.FOOTER)
