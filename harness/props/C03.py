"""C03 - matrix algebra: product, transpose, determinant and inverse are the true ones.

Algebraic part (proved): with both float kinds interpreted in an arbitrary field K, for every matrix type and the sse2,
scalar-math and core-simd implementations (hand-scheduled SIMD shuffle networks included):
  determinant        = the Leibniz formula  sum_sigma sgn(sigma) prod_r m[r, sigma r]
  mul_mat / Mul      entry (r, c) = sum_k a[r,k] * b[k,c]
  mul_vec / Mul<vec> lane r = sum_c m[r,c] * v[c]
  inverse            entry (r, c) = cofactor(c, r) / det   whenever det <> 0   (hence M * inverse M = inverse M * M = I)
  add, sub, neg, scalar *, /    entry-wise
Since these are identities of polynomials / rational functions over every field they hold over the reals, and over Z: on
integer entries the polynomial results are the exact integers wherever float arithmetic is exact (entries below 2^11 for
f32 3x3/4x4 products and determinants) - the exactness statement itself is checked differentially on the integer lattice.
Transpose and the column-major conventions are C06."""
import time
from .. import core, flow, f1, alg
from ..core import sym, tree_coq, tree_leaves, tree_fill, tname, SymErr, ty_shape
from .C06 import MATS

CFGS = ['sse2', 'scalar', 'coresimd']
def VF(k): return 'VF32' if k == 'f32' else 'VF64'

def lemmas(idx):
    order = []; seen = {}; cover = []; notes = {'untranslated': []}; n = 0
    def add(cfg, f, vs, args, rhs_tree_t, lanes, sname, hyps=(), tactic='alg_ring', scalar_k=None):
        nonlocal n
        args = alg.kxargs(args); lanes = alg.kxl(lanes)
        if f['fid'] is None or f.get('status') == 'missing-callee':
            notes['untranslated'].append('%s %s' % (cfg, f['key'])); return
        structs = idx.structs(cfg)
        run = 'rnorm (run OA tbl 400 %d%%positive [%s])' % (f['fid'], '; '.join(args))
        if scalar_k: rhs = 'Ok (%s %s)' % (VF(scalar_k), lanes[0]); sh = 'SL'
        else:
            rt = sym(structs, rhs_tree_t, 'r', []); rhs = 'Ok (%s)' % tree_fill(rt, iter(lanes)); sh = ty_shape(structs, rhs_tree_t)
        lhs = ('rerase OA (%s) (%s)' % (sh, run)) if core.shape_has_hidden(sh) else run
        cover.append((cfg, f)); key = (lhs, rhs, tuple(hyps))
        if key in seen: seen[key].meta['covers'].append('%s:%s' % (cfg, f['key'])); return
        n += 1; lem = alg.AlgLemma('alg_%d' % n, vs, lhs, rhs, hyps=hyps, tactic=tactic, meta={'cfg': cfg, 'key': f['key'], 'file': f['file'], 'fid': f['fid'], 'did': f['did'], 'covers': ['%s:%s' % (cfg, f['key'])], 'spec': sname})
        seen[key] = lem; order.append(lem)
    for cfg in CFGS:
        structs = idx.structs(cfg)
        for f in idx.fns(cfg):
            st = f['self']; tn = tname(st) if st is not None else None
            if tn not in MATS or f['generic'] or f['by_ref']: continue
            C, k = MATS[tn]; name = f['name']; tr = f['trait'][0] if f['trait'] else None
            if tr and tr.endswith('Assign'): tr = tr[:-6]; name = name[:-7]      # m *= n etc.: the model function returns the updated self
            def Mx(pre, vs, t=st):
                tr_ = sym(structs, t, pre, vs); L = [l[2] for l in tree_leaves(tr_)]; return tr_, [[L[c * C + r] for c in range(C)] for r in range(C)]   # M[r][c]
            try:
                if name == 'determinant' and f['has_self'] and not f['params']:
                    vs = []; t, M = Mx('m', vs); add(cfg, f, vs, [tree_coq(t)], None, [alg.det(M)], 'determinant = Leibniz formula', scalar_k=k)
                elif name == 'inverse' and f['has_self'] and not f['params']:
                    vs = []; t, M = Mx('m', vs); d = alg.det(M)
                    lanes = ['(%s / %s)%%K' % (alg.cofactor(M, c, r), d) for c in range(C) for r in range(C)]    # column-major: entry (r,c) = cof(c,r)/det
                    add(cfg, f, vs, [tree_coq(t)], st, lanes, 'inverse = adjugate / determinant', hyps=['%s <> k0' % d],
                        tactic='alg_field')
                elif (name in ('mul_mat2', 'mul_mat3', 'mul_mat4') or (tr in ('Mul',) and name == 'mul')) and f['has_self'] and len(f['params']) == 1 and tname(f['params'][0][1]) == tn:
                    vs = []; ta, A = Mx('a', vs); tb, B = Mx('b', vs)
                    lanes = [alg.S([alg.P(A[r][j], B[j][c]) for j in range(C)]) for c in range(C) for r in range(C)]
                    add(cfg, f, vs, [tree_coq(ta), tree_coq(tb)], st, lanes, 'matrix product')
                elif (name.startswith('mul_vec') or (tr == 'Mul' and name == 'mul')) and f['has_self'] and len(f['params']) == 1 and tname(f['params'][0][1]) not in MATS:
                    pt = f['params'][0][1]
                    if not isinstance(pt, dict): continue
                    vs = []; t, M = Mx('m', vs); p = sym(structs, pt, 'v', vs); v = [l[2] for l in tree_leaves(p)]
                    if len(v) != C: continue
                    lanes = [alg.S([alg.P(M[r][c], v[c]) for c in range(C)]) for r in range(C)]
                    add(cfg, f, vs, [tree_coq(t), tree_coq(p)], f['ret'], lanes, 'matrix * vector')
                elif (name in ('add_mat2', 'add_mat3', 'add_mat4', 'sub_mat2', 'sub_mat3', 'sub_mat4') or (tr in ('Add', 'Sub') and name in ('add', 'sub'))) and len(f['params']) == 1 and tname(f['params'][0][1]) == tn:
                    vs = []; ta, A = Mx('a', vs); tb, B = Mx('b', vs); o = '+' if name.startswith('add') else '-'
                    add(cfg, f, vs, [tree_coq(ta), tree_coq(tb)], st, ['(%s %s %s)%%K' % (A[r][c], o, B[r][c]) for c in range(C) for r in range(C)], name)
                elif (name == 'mul_scalar' or (tr == 'Mul' and name == 'mul')) and len(f['params']) == 1 and f['params'][0][1] == k:
                    vs = []; ta, A = Mx('a', vs); s = sym(structs, f['params'][0][1], 's', vs)
                    add(cfg, f, vs, [tree_coq(ta), tree_coq(s)], st, ['(%s * %s)%%K' % (A[r][c], s[2]) for c in range(C) for r in range(C)], name)
                elif tr == 'Neg' and name == 'neg':
                    vs = []; ta, A = Mx('a', vs); add(cfg, f, vs, [tree_coq(ta)], st, ['(- %s)%%K' % A[r][c] for c in range(C) for r in range(C)], 'neg')
            except SymErr: continue
    files = {}; nfiles = max(1, (len(order) + 7) // 8)
    for i, lem in enumerate(order): files.setdefault('Alg_%03d' % (i % nfiles), []).append(lem)
    notes['covered_functions'] = len(cover); notes['distinct_statements'] = n; notes['untranslated_count'] = len(notes['untranslated'])
    return files, notes, cover

MTYPES = {'Mat2': 'f32', 'Mat3': 'f32', 'Mat3A': 'f32', 'Mat4': 'f32', 'DMat2': 'f64', 'DMat3': 'f64', 'DMat4': 'f64'}
def entrywise(idx):
    """structural lemmas (all Ops): add_mat / sub_mat / mul_scalar / div_scalar / Neg and the operator forms are the entry-wise primitive - one correctly
    rounded operation per entry (the algebraic lemmas cannot tell x / s from x * (1 / s))"""
    from ..core import ty_shape
    out = []; seen = set(); k_ = 0
    for cfg in CFGS:
        structs = idx.structs(cfg)
        for f in idx.fns(cfg):
            st = f['self']; tn = tname(st) if st is not None else None
            if tn not in MTYPES or f['generic'] or f['by_ref'] or f['fid'] is None or not f['has_self']: continue
            k = MTYPES[tn]; ps = f['params']; tr = f['trait'][0] if f['trait'] else None; name = f['name']
            op = None
            if (tr in ('Add', 'Sub') or name in ('add_mat2', 'add_mat3', 'add_mat4', 'sub_mat2', 'sub_mat3', 'sub_mat4')) and len(ps) == 1 and tname(ps[0][1]) == tn: op = ('FAdd' if (tr == 'Add' or name.startswith('add')) else 'FSub', 'mat')
            elif (tr in ('Mul', 'Div') or name in ('mul_scalar', 'div_scalar')) and len(ps) == 1 and ps[0][1] == k: op = ('FMul' if (tr == 'Mul' or name == 'mul_scalar') else 'FDiv', 'scalar')
            else: continue
            if tr and tr.endswith('Assign'): continue
            try:
                vs = []; a = sym(structs, st, 'a', vs); A = [l[2] for l in tree_leaves(a)]; rt = sym(structs, st, 'r', [])
                if op[1] == 'mat': b = sym(structs, st, 'b', vs); Bv = [l[2] for l in tree_leaves(b)]; lanes = ['(%s_2 O %s %s %s)' % (k, op[0], x, y) for x, y in zip(A, Bv)]
                else: b = sym(structs, k, 'b', vs); lanes = ['(%s_2 O %s %s %s)' % (k, op[0], x, b[2]) for x in A]
                run = 'run O tbl 200 %d%%positive [%s; %s]' % (f['fid'], tree_coq(a), tree_coq(b)); sh = ty_shape(structs, st)
                lhs = ('rerase O (%s) (%s)' % (sh, run)) if core.shape_has_hidden(sh) else run
                stmt = (lhs, 'Ok (%s)' % tree_fill(rt, iter(lanes)))
                if stmt in seen: continue
                seen.add(stmt); k_ += 1
                out.append(core.Lemma('mew_%d' % k_, vs, stmt[0], stmt[1], meta={'cfg': cfg, 'key': f['key'], 'file': f['file'], 'fid': f['fid'], 'did': f['did'], 'covers': ['%s:%s' % (cfg, f['key'])], 'spec': 'entry-wise %s' % op[0]}))
            except SymErr: continue
    return out

def run(tier, seed):
    t0 = time.time(); idx, info = flow.prepare()
    files, notes, cover = lemmas(idx)
    ew = entrywise(idx); core.LEMMA_TIMEOUT[0] = 60
    nobe, nde, efail, _ = core.prove_files(core.BUILD + '/props/C03_ew', {'Mew_%03d' % (i // 12): ew[i:i + 12] for i in range(0, len(ew), 12)}, hdr=core.HDR, footer='') if ew else (0, 0, [], {})
    notes['entrywise_structural_lemmas'] = {'stated': nobe, 'proved': nde}
    eextra = []
    for l, err in efail:
        cx = None
        try: cx, _ = flow.search_counterexample(idx, l, seed)
        except Exception: pass
        obj = {'kind': 'counterexample' if cx else 'unproved', 'theorem': l.name, 'statement': l.statement()[:1500], 'meta': l.meta, 'coq_error': err[-400:], 'how_found': 'entry-wise matrix operators must be the per-entry primitive'}
        if cx:
            obj.update(cx)
            try: obj.update(flow.confirm_on_crate(idx, l, cx))
            except Exception: pass
        eextra.append((obj, cx is not None))
    per_fn = 6 if tier == 'quick' else 60
    return f1.run('C03', tier, seed, idx, info, t0, files, notes, cover, alg.BOILER, per_fn,
        'one algebraic lemma per determinant / inverse / product / entry-wise operation of the 7 matrix types in the sse2, scalar-math and core-simd tables, over an arbitrary field (vm_compute + ring/field); correspondence: %d random calls per function, including small-integer matrices' % per_fn,
        ['reference formulas (Leibniz determinant, cofactors, sums of products) generated in harness/alg.py', 'field axioms only: no floating-point rounding in these statements'],
        ['rounding-error bounds and exactness on the integer lattice are not proved in this round; the correspondence run exercises small-integer matrices bit-for-bit'], footer=alg.FOOTER, extra={'extra_violations': eextra})
