"""C13 - integer vectors are the exact lane-wise lift of Rust integer semantics.

One lemma per (configuration, type, method) for all Ops: the method equals the lane-wise / left-to-right application of
the named integer primitive (abstract: `i_2 O K op`, which returns None exactly when the primitive panics), or - where
the source is written with comparisons - the combinators of coq/theories/IntSpec.v, whose agreement with the Rust
primitive (min, max, clamp, first extremum position) is proved there over Z.  The spec is chosen by method *name*."""
import re, time
from .. import core
from ..core import Lemma, sym, tree_leaves, tree_coq, tshow, tname, SymErr, ikc, INTS

CFGS = ['sse2', 'scalar', 'coresimd']
BIN = {'add': 'IAdd', 'sub': 'ISub', 'mul': 'IMul', 'div': 'IDiv', 'rem': 'IRem', 'bitand': 'IAnd', 'bitor': 'IOr', 'bitxor': 'IXor'}
TRAIT_BIN = {'Add': 'add', 'Sub': 'sub', 'Mul': 'mul', 'Div': 'div', 'Rem': 'rem', 'BitAnd': 'bitand', 'BitOr': 'bitor', 'BitXor': 'bitxor'}
INH2 = {'wrapping_add': 'IWAdd', 'wrapping_sub': 'IWSub', 'wrapping_mul': 'IWMul', 'wrapping_div': 'IWDiv', 'saturating_add': 'ISAdd', 'saturating_sub': 'ISSub', 'saturating_mul': 'ISMul', 'saturating_div': 'ISDiv', 'div_euclid': 'IDivEuclid', 'rem_euclid': 'IRemEuclid'}
CHK = {'checked_add': 'IAdd', 'checked_sub': 'ISub', 'checked_mul': 'IMul', 'checked_div': 'IDiv'}
MIXED = ['wrapping_add_unsigned', 'wrapping_sub_unsigned', 'saturating_add_unsigned', 'saturating_sub_unsigned', 'wrapping_add_signed', 'saturating_add_signed']
MIXEDC = ['checked_add_unsigned', 'checked_sub_unsigned', 'checked_add_signed']
UNS = {'i8': 'u8', 'i16': 'u16', 'i32': 'u32', 'i64': 'u64'}

class B:
    """sequence of primitive applications (each may panic), then a result"""
    def __init__(self): self.binds = []; self.n = 0
    def o(self, term):
        v = 'z%d' % self.n; self.n += 1; self.binds.append((term, v)); return v
    def done(self, result):
        t = result
        for term, v in reversed(self.binds): t = 'pb (%s) (fun %s => %s)' % (term, v, t)
        return t
    def done_opt(self, result):
        t = result
        for term, v in reversed(self.binds): t = 'ob (%s) (fun %s => %s)' % (term, v, t)
        return 'Ok (VOpt (%s))' % t

def vec_info(structs, t):
    n = tname(t)
    if n is None or n not in structs: return None
    fs = structs[n]
    if not fs or not all(isinstance(ft, str) and ft in INTS for _, ft in fs) or len(set(ft for _, ft in fs)) != 1: return None
    if [fn for fn, _ in fs] != ['x', 'y', 'z', 'w'][:len(fs)]: return None
    return fs[0][1], len(fs)

def mkvec(K, zs): return 'VT [%s]' % '; '.join('VI %s %s' % (K, z) for z in zs)

def spec(structs, f):
    """returns (vars, args term, rhs term, specname) or None (method not in the C13 table)"""
    name = f['name']; tr = f['trait'][0] if f['trait'] else None
    selfi = vec_info(structs, f['self']) if f['self'] is not None else None
    vs = []; args = []
    if f['has_self']:
        st = sym(structs, f['self'], 'a', vs); args.append(st)
    ptrees = []
    for i, p in enumerate(f['params']):
        pt = sym(structs, p[1], 'bcdef'[i], vs); ptrees.append(pt); args.append(pt)
    argterm = '[%s]' % '; '.join(tree_coq(a) for a in args)
    def R(rhs, sname): return vs, argterm, rhs, sname
    # scalar on the left: impl Op<IntVec> for scalar
    if selfi is None:
        if f['self'] in INTS and tr in TRAIT_BIN and len(f['params']) == 1 and f['has_self']:
            pi = vec_info(structs, f['params'][0][1])
            if pi and pi[0] == f['self']:
                K = ikc(pi[0]); b = B(); s = tree_leaves(args[0])[0][2]; zs = [b.o('i_2 O %s %s %s %s' % (K, BIN[TRAIT_BIN[tr]], s, l[2])) for l in tree_leaves(args[1])]
                return R(b.done('Ok (%s)' % mkvec(K, zs)), 'scalar %s vector' % tr)
        return None
    k, d = selfi; K = ikc(k); A = [l[2] for l in tree_leaves(args[0])] if f['has_self'] else []
    P = [[l[2] for l in tree_leaves(t)] for t in ptrees]
    pty = [p[1] for p in f['params']]
    def lanes2(op, rhs_l, prim='i_2 O %s %s %s %s'):
        b = B(); zs = [b.o(prim % (K, op, a, r)) for a, r in zip(A, rhs_l)]; return b.done('Ok (%s)' % mkvec(K, zs))
    if not f['has_self']: return None
    # operators
    base = tr[:-6] if tr and tr.endswith('Assign') else tr
    if base in TRAIT_BIN and len(P) == 1:
        op = BIN[TRAIT_BIN[base]]
        if vec_info(structs, pty[0]) == (k, d): return R(lanes2(op, P[0]), '%s lane-wise' % base)
        if pty[0] == k: return R(lanes2(op, [P[0][0]] * d), '%s with scalar' % base)
        return None
    if base in ('Shl', 'Shr') and len(P) == 1:
        prim = 'i_shl' if base == 'Shl' else 'i_shr'
        pi = vec_info(structs, pty[0])
        if pi and pi[1] == d: kc = ikc(pi[0]); cnt = P[0]
        elif pty[0] in INTS: kc = ikc(pty[0]); cnt = [P[0][0]] * d
        else: return None
        b = B(); zs = [b.o('%s O %s %s %s %s' % (prim, K, kc, a, c)) for a, c in zip(A, cnt)]; return R(b.done('Ok (%s)' % mkvec(K, zs)), '%s lane-wise' % base)
    if tr == 'Neg' and not P: b = B(); zs = [b.o('i_1 O %s INeg %s' % (K, a)) for a in A]; return R(b.done('Ok (%s)' % mkvec(K, zs)), 'neg')
    if tr == 'Not' and not P: b = B(); zs = [b.o('i_1 O %s INot %s' % (K, a)) for a in A]; return R(b.done('Ok (%s)' % mkvec(K, zs)), 'not')
    if tr is not None: return None
    # inherent methods
    same = len(P) == 1 and vec_info(structs, pty[0]) == (k, d)
    if name in INH2 and same: return R(lanes2(INH2[name], P[0]), name)
    if name in CHK and same:
        b = B(); zs = [b.o('i_checked O %s %s %s %s' % (K, CHK[name], a, r)) for a, r in zip(A, P[0])]; return R(b.done_opt('Some (%s)' % mkvec(K, zs)), name)
    if name in MIXED and len(P) == 1 and len(P[0]) == d:
        b = B(); zs = [b.o('i_mixed O %s "%s" %s %s' % (K, name, a, r)) for a, r in zip(A, P[0])]; return R(b.done('Ok (%s)' % mkvec(K, zs)), name)
    if name in MIXEDC and len(P) == 1 and len(P[0]) == d:
        b = B(); zs = [b.o('i_mixed_checked O %s "%s" %s %s' % (K, name, a, r)) for a, r in zip(A, P[0])]; return R(b.done_opt('Some (%s)' % mkvec(K, zs)), name)
    if name == 'min' and same: return R('Ok (%s)' % mkvec(K, ['(sel_lt O %s %s)' % (a, r) for a, r in zip(A, P[0])]), 'min = compare-select (IntSpec.sel_lt_min)')
    if name == 'max' and same: return R('Ok (%s)' % mkvec(K, ['(sel_gt O %s %s)' % (a, r) for a, r in zip(A, P[0])]), 'max = compare-select (IntSpec.sel_gt_max)')
    if name == 'clamp' and len(P) == 2 and all(vec_info(structs, t) == (k, d) for t in pty):
        return R('Ok (%s)' % mkvec(K, ['(clamp_sel O %s %s %s)' % (a, lo, hi) for a, lo, hi in zip(A, P[0], P[1])]), 'clamp = max then min (IntSpec.clamp_sel_spec)')
    lst = '[%s]' % '; '.join(A)
    if name == 'min_element' and not P: return R('Ok (VI %s (minel O %s))' % (K, lst), 'min_element (IntSpec.minel_lmin)')
    if name == 'max_element' and not P: return R('Ok (VI %s (maxel O %s))' % (K, lst), 'max_element (IntSpec.maxel_lmax)')
    if name == 'min_position' and not P: return R('Ok (VI USize (%s))' % ('argmin2 O %s %s' % tuple(A) if d == 2 else 'argmin O %s' % lst), 'min_position (IntSpec.argmin*_spec)')
    if name == 'max_position' and not P: return R('Ok (VI USize (%s))' % ('argmax2 O %s %s' % tuple(A) if d == 2 else 'argmax O %s' % lst), 'max_position (IntSpec.argmax*_spec)')
    def fold(b, op, xs, KK=K):
        acc = xs[0]
        for x in xs[1:]: acc = b.o('i_2 O %s %s %s %s' % (KK, op, acc, x))
        return acc
    if name == 'element_sum' and not P: b = B(); r = fold(b, 'IAdd', A); return R(b.done('Ok (VI %s %s)' % (K, r)), 'element_sum = left fold of +')
    if name == 'element_product' and not P: b = B(); r = fold(b, 'IMul', A); return R(b.done('Ok (VI %s %s)' % (K, r)), 'element_product = left fold of *')
    def dot(b, X, Y): return fold(b, 'IAdd', [b.o('i_2 O %s IMul %s %s' % (K, x, y)) for x, y in zip(X, Y)])
    if name == 'dot' and same: b = B(); r = dot(b, A, P[0]); return R(b.done('Ok (VI %s %s)' % (K, r)), 'dot')
    if name == 'dot_into_vec' and same: b = B(); r = dot(b, A, P[0]); return R(b.done('Ok (%s)' % mkvec(K, [r] * d)), 'dot_into_vec')
    if name == 'length_squared' and not P: b = B(); r = dot(b, A, A); return R(b.done('Ok (VI %s %s)' % (K, r)), 'length_squared')
    if name == 'distance_squared' and same:
        b = B(); D = [b.o('i_2 O %s ISub %s %s' % (K, x, y)) for x, y in zip(A, P[0])]; r = dot(b, D, D); return R(b.done('Ok (VI %s %s)' % (K, r)), 'distance_squared')
    if name == 'cross' and same and d == 3:
        b = B(); Bv = P[0]
        def m(x, y): return b.o('i_2 O %s IMul %s %s' % (K, x, y))
        def s(x, y): return b.o('i_2 O %s ISub %s %s' % (K, x, y))
        zs = [s(m(A[1], Bv[2]), m(Bv[1], A[2])), s(m(A[2], Bv[0]), m(Bv[2], A[0])), s(m(A[0], Bv[1]), m(Bv[0], A[1]))]
        return R(b.done('Ok (%s)' % mkvec(K, zs)), 'cross')
    if name == 'abs' and not P: b = B(); zs = [b.o('i_1 O %s IAbs %s' % (K, a)) for a in A]; return R(b.done('Ok (%s)' % mkvec(K, zs)), 'abs')
    if name == 'signum' and not P: b = B(); zs = [b.o('i_1 O %s ISignum %s' % (K, a)) for a in A]; return R(b.done('Ok (%s)' % mkvec(K, zs)), 'signum')
    if name == 'is_negative_bitmask' and not P:
        b = B(); bit = ['(if i_isneg O %s %s then 1 else 0)' % (K, a) for a in A]; acc = bit[0]
        for i in range(1, d):
            sh = b.o('i_shl O U32 I32 %s %d' % (bit[i], i)); acc = b.o('i_2 O U32 IOr %s %s' % (acc, sh))
        return R(b.done('Ok (VI U32 %s)' % acc), 'is_negative_bitmask')
    UK = ikc(UNS.get(k, k))
    if name == 'manhattan_distance' and same:
        b = B(); D = [b.o('i_2 O %s IAbsDiff %s %s' % (K, x, y)) for x, y in zip(A, P[0])]; r = fold(b, 'IAdd', D, UK); return R(b.done('Ok (VI %s %s)' % (UK, r)), 'manhattan_distance')
    if name == 'chebyshev_distance' and same:
        b = B(); D = [b.o('i_2 O %s IAbsDiff %s %s' % (K, x, y)) for x, y in zip(A, P[0])]; r = fold(b, 'IMax', D, UK); return R(b.done('Ok (VI %s %s)' % (UK, r)), 'chebyshev_distance')
    if name == 'checked_manhattan_distance' and same:
        # d = |x - x'|; then, lane by lane: next |.| and a checked addition that returns None early
        t = 'Ok (VOpt (Some (VI %s acc%d)))' % (UK, d - 1)
        for i in range(d - 1, 0, -1):
            t = 'pb (i_2 O %s IAbsDiff %s %s) (fun d%d => match i_checked O %s IAdd acc%d d%d with Some acc%d => %s | None => Ok (VOpt None) end)' % (K, A[i], P[0][i], i, UK, i - 1, i, i, t)
        t = 'pb (i_2 O %s IAbsDiff %s %s) (fun acc0 => %s)' % (K, A[0], P[0][0], t)
        return R(t, 'checked_manhattan_distance')
    return None

def spec_f1(cfg, structs, f):
    isint = (f['self'] is not None and (vec_info(structs, f['self']) is not None)) or (f['self'] in INTS and f['trait'] and any(vec_info(structs, p[1]) for p in f['params']))
    if not isint: return None
    sp = spec(structs, f)
    if sp is None:
        if f['pub'] and f['self'] is not None and vec_info(structs, f['self']): UNCOVERED[f['name']] = UNCOVERED.get(f['name'], 0) + 1
        return None
    if f['fid'] is None or f.get('status') != 'ok': return 'untranslated'
    vs, args, rhs, sname = sp
    return {'vars': vs, 'lhs': 'run O tbl 40 %d%%positive %s' % (f['fid'], args), 'rhs': rhs, 'spec': sname}

UNCOVERED = {}
def lemmas(idx):
    from .. import f1
    UNCOVERED.clear()
    files, notes, cover = f1.build(idx, CFGS, 'int', spec_f1, per_file=100, pid='C13')
    notes['uncovered_methods'] = dict(UNCOVERED); notes['covered_methods'] = len(cover)
    return files, notes, cover

HDR = core.HDR.replace('Import Base Spec.', 'Import Base Spec IntSpec.')

def run(tier, seed):
    from .. import flow
    t0 = time.time(); idx, info = flow.prepare()
    files, notes, cover = lemmas(idx)
    nob, nd, failures, assum = core.prove_files(core.BUILD + '/props/C13', files, hdr=HDR)
    per_fn = 3 if tier == 'quick' else 40
    seen = set(); targets = []
    for cfg, f in cover:
        k = (f['fid'], tshow(f['self']))
        if k in seen: continue
        seen.add(k); targets.append((cfg, f))
    corr = core.correspondence(idx, targets, seed, per_fn, 'C13')
    res = {'idx': idx, 'obligations': nob, 'discharged': nd, 'failures': failures, 'assumptions': assum, 'corr': corr, 'notes': notes, 'translator': info,
           'rule': 'one lemma per distinct (function body, typed statement) of the integer-vector methods in the C13 table (27 types), for all Ops; plus the IntSpec.v lemmas tying compare-select combinators to the Rust primitives over Z; correspondence: %d random calls per function (boundary-biased lanes: MIN, MAX, 0, +-1, shift counts at/beyond the width), release profile; distinct = distinct (function, input words)' % per_fn,
           'samples': [{'lemma': l.name, 'statement': l.statement()[:400], 'covers': l.meta['covers'][:3]} for l in (list(files.values())[0][:2] if files else [])],
           'trusted_base': ['Coq 8.16.1 kernel + vm_compute', 'translator rs2v', 'evaluator Base.v', 'integer semantics ZInt in Sem.v (validated by the correspondence run)', 'spec table harness/props/C13.py + coq/theories/IntSpec.v'],
           'covered_keys': ['%s:%s' % (c_, f_['key']) for c_, f_ in cover],
           'assumptions_text': ['model = translation of /repo/src by tools/rs2v (re-run on every check)', 'release-profile driver only in this tier; debug-profile (overflow-checking) driver in the thorough tier']}
    return flow.report('C13', tier, seed, t0, res)
