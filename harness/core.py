"""Shared machinery of the checks: translation, Coq builds with a content-hash cache, driver builds,
model evaluation (vm_compute), evidence and violation reporting."""
import concurrent.futures, fcntl, hashlib, json, os, re, subprocess, sys, time, shutil

VERIF = '/verif'
REPO = os.environ.get('GLAM_REPO', '/repo')
BUILD = VERIF + '/build'
GEN = BUILD + '/gen'
THEORIES = VERIF + '/coq/theories'
ALL_CFGS = ['sse2', 'scalar', 'coresimd', 'sse2+assert', 'scalar+assert', 'coresimd+assert', 'sse2+fma', 'libm']
NCPU = 16
ENV = dict(os.environ, CARGO_NET_OFFLINE='true')

def log(*a):
    print(*a, file=sys.stderr, flush=True)

def sh(cmd, **kw):
    return subprocess.run(cmd, capture_output=True, text=True, **kw)

class Lock:
    def __init__(self, name='.lock'):
        os.makedirs(BUILD, exist_ok=True); self.path = BUILD + '/' + name
    def __enter__(self):
        self.f = open(self.path, 'w'); fcntl.flock(self.f, fcntl.LOCK_EX); return self
    def __exit__(self, *a):
        fcntl.flock(self.f, fcntl.LOCK_UN); self.f.close()

# ------------------------------------------------------------------ library and translator
def build_tools():
    """rs2v and the /repo-independent Coq library (no-ops when up to date)."""
    r = sh(['cargo', 'build', '--release', '--offline'], cwd=VERIF + '/tools/rs2v', env=ENV)
    if r.returncode != 0: raise RuntimeError('rs2v build failed:\n' + r.stderr[-3000:])
    if not os.path.exists(VERIF + '/coq/Makefile'):
        r = sh(['coq_makefile', '-f', '_CoqProject', '-o', 'Makefile'], cwd=VERIF + '/coq')
        if r.returncode != 0: raise RuntimeError('coq_makefile failed:\n' + r.stderr[-3000:])
    r = sh(['make', '-j%d' % NCPU], cwd=VERIF + '/coq')
    if r.returncode != 0: raise RuntimeError('Coq library build failed:\n' + (r.stdout + r.stderr)[-4000:])

def lib_hash(only=None):
    h = hashlib.sha256()
    for f in sorted(os.listdir(THEORIES)):
        if f.endswith('.v') and (only is None or f in only): h.update(f.encode()); h.update(open(THEORIES + '/' + f, 'rb').read())
    return h.hexdigest()

def theory_closure(text):
    """the library files a generated file depends on (its `From Glam Require Import` lines, transitively)"""
    todo = [m for l in re.findall(r'From Glam Require Import ([^.]*)\.', text) for m in l.split()]; seen = set()
    while todo:
        m = todo.pop()
        if m in seen: continue
        seen.add(m)
        try: t = open('%s/%s.v' % (THEORIES, m)).read()
        except OSError: continue
        todo += [x for l in re.findall(r'From Glam Require Import ([^.]*)\.', t) for x in l.split()]
    return tuple(sorted(x + '.v' for x in seen))

def translate(cfgs=ALL_CFGS):
    """Re-run the translator on /repo's working tree. Output files are rewritten only when their content changes."""
    t0 = time.time()
    r = sh([VERIF + '/tools/rs2v/target/release/rs2v', GEN, ','.join(cfgs)], env=dict(ENV, GLAM_SRC=REPO + '/src'))
    if r.returncode != 0: raise RuntimeError('translator failed:\n' + r.stderr[-4000:])
    return {'translator_s': round(time.time() - t0, 1), 'translator_log': [l for l in r.stderr.splitlines() if l.startswith('config') or l.startswith('canonical')]}

COQFLAGS = ['-noglob', '-Q', THEORIES, 'Glam', '-Q', GEN, 'Gen']

def _sha(path):
    return hashlib.sha256(open(path, 'rb').read()).hexdigest()

def _limits():
    import resource
    resource.setrlimit(resource.RLIMIT_AS, (6 << 30, 6 << 30))   # a runaway tactic must not take the machine down

def coqc(path, extra=(), timeout=1200, limit=True):
    try:
        r = subprocess.run(['coqc'] + COQFLAGS + list(extra) + [path], capture_output=True, text=True, timeout=timeout, cwd=os.path.dirname(path), preexec_fn=_limits if limit else None)
        return r.returncode, r.stdout, r.stderr
    except subprocess.TimeoutExpired as e:
        return 124, '', 'coqc timeout after %ds' % timeout

def compile_many(jobs, extra=(), timeout=3000, stop_on_error=False, lib_only=None):
    """jobs: list of (path, [dep paths]). Compiles out-of-date files in dependency order, 16 at a time.
    A file is up to date when its .stamp equals sha(content, flags, library hash, stamps of deps).
    Returns {path: (rc, stdout, stderr)} for the files that were compiled (rc 0 entries included)."""
    lh = lib_hash(lib_only); stamps = {}; results = {}; jobs = list(jobs); deps = {p: d for p, d in jobs}
    def want(p):
        h = hashlib.sha256(); h.update(_sha(p).encode()); h.update(lh.encode()); h.update(' '.join(extra).encode())
        for d in deps.get(p, []):
            sd = stamps.get(d)
            if sd is None:
                try: sd = open(d[:-2] + '.stamp').read()
                except OSError: sd = 'missing'
            h.update(sd.encode())
        return h.hexdigest()
    done = set(); failed = set(); pending = [p for p, _ in jobs]
    with concurrent.futures.ThreadPoolExecutor(NCPU) as ex:
        running = {}
        while pending or running:
            for p in list(pending):
                ds = deps.get(p, [])
                if any(d in failed for d in ds):
                    pending.remove(p); failed.add(p); results[p] = (1, '', 'dependency failed'); continue
                if all((d in done) or (d not in deps) for d in ds):
                    pending.remove(p); w = want(p); vo = p[:-2] + '.vo'; st = p[:-2] + '.stamp'
                    if os.path.exists(vo) and os.path.exists(st) and open(st).read() == w:
                        stamps[p] = w; done.add(p); continue
                    running[ex.submit(coqc, p, extra, timeout)] = (p, w)
            if not running:
                if pending and not any(all((d in done) or (d not in deps) for d in deps.get(p, [])) for p in pending) and not any(any(d in failed for d in deps.get(p, [])) for p in pending):
                    raise RuntimeError('dependency cycle among ' + ', '.join(pending[:5]))
                continue
            fin, _ = concurrent.futures.wait(list(running), return_when=concurrent.futures.FIRST_COMPLETED)
            for f in fin:
                p, w = running.pop(f); rc, so, se = f.result(); results[p] = (rc, so, se)
                if rc == 0:
                    open(p[:-2] + '.stamp', 'w').write(w); stamps[p] = w; done.add(p)
                else:
                    failed.add(p)
                    try: os.remove(p[:-2] + '.stamp')
                    except OSError: pass
    return results

def build_model():
    """Compile the regenerated model (Model*.v, Table.v)."""
    t0 = time.time()
    models = sorted(GEN + '/' + f for f in os.listdir(GEN) if re.fullmatch(r'Model\d+\.v', f))
    jobs = [(m, []) for m in models] + [(GEN + '/Table.v', models)]
    res = compile_many(jobs, lib_only=('Base.v',))      # the generated model imports Base only
    bad = {p: r for p, r in res.items() if r[0] != 0}
    if bad:
        p, r = next(iter(bad.items())); raise RuntimeError('model does not compile: %s\n%s' % (p, (r[1] + r[2])[-3000:]))
    return {'model_files': len(models), 'model_compiled': len(res), 'model_s': round(time.time() - t0, 1)}

# ------------------------------------------------------------------ index
class Index:
    def __init__(self):
        self.d = json.load(open(GEN + '/index.json')); self.nfuncs = self.d['nfuncs']; self.cfgs = self.d['configs']
    def fns(self, cfg): return self.cfgs[cfg]['fns']
    def structs(self, cfg): return self.cfgs[cfg]['structs']
    def enums(self, cfg): return self.cfgs[cfg]['enums']

def tname(t):
    return t['n'] if isinstance(t, dict) and 'n' in t else None
def tshow(t):
    if isinstance(t, str): return t
    if 'n' in t: return t['n']
    if 't' in t: return '(' + ','.join(tshow(x) for x in t['t']) + ')'
    if 'a' in t: return '[%s;%s]' % (tshow(t['a']), t['len'])
    if 'o' in t: return 'Option<%s>' % tshow(t['o'])
    if 'r' in t: return 'Result<%s>' % tshow(t['r'])
    if 's' in t: return '[%s]' % tshow(t['s'])
    return json.dumps(t)

INTS = ['i8', 'u8', 'i16', 'u16', 'i32', 'u32', 'i64', 'u64', 'usize']
BITS = {'i8': 8, 'u8': 8, 'i16': 16, 'u16': 16, 'i32': 32, 'u32': 32, 'i64': 64, 'u64': 64, 'usize': 64}
def ikc(k): return 'USize' if k == 'usize' else k.upper()

# ---- symbolic values: a tree of leaves ('L', kind, name, hidden) and tuples ('T', [children])
class SymErr(Exception): pass

def hidden_lane_type(n, fields):
    """16-byte three-lane types whose fourth lane is not part of the value (sse2 / coresimd layouts)."""
    return n in ('Vec3A', 'BVec3A') and len(fields) == 1 and fields[0][1] in ('m128', {'simd': 'mask32x4'})

def sym(structs, t, prefix, vars_):
    if isinstance(t, str):
        if t in ('f32', 'f64', 'bool') or t in INTS:
            vars_.append((prefix, t)); return ('L', t, prefix, False)
        if t == 'm128':
            return ('T', [sym(structs, 'f32', '%s_%d' % (prefix, i), vars_) for i in range(4)])
        if t == 'unit': return ('T', [])
        raise SymErr('sym of ' + t)
    if 'n' in t:
        n = t['n']
        if n in structs:
            fs = structs[n]; ch = [sym(structs, ft, '%s_%d' % (prefix, i), vars_) for i, (_, ft) in enumerate(fs)]
            if hidden_lane_type(n, fs):
                inner = ch[0]; l = inner[1][3]; inner[1][3] = ('L', l[1], l[2], True)
            return ('T', ch)
        raise SymErr('sym of ' + n)
    if 't' in t: return ('T', [sym(structs, x, '%s_%d' % (prefix, i), vars_) for i, x in enumerate(t['t'])])
    if 'a' in t and t['len'] is not None: return ('T', [sym(structs, t['a'], '%s_%d' % (prefix, i), vars_) for i in range(t['len'])])
    if 'simd' in t and t['simd'] == 'mask32x4': return ('T', [sym(structs, 'bool', '%s_%d' % (prefix, i), vars_) for i in range(4)])
    if 'simd' in t and t['simd'] == 'u32x4': return ('T', [sym(structs, 'u32', '%s_%d' % (prefix, i), vars_) for i in range(4)])
    raise SymErr('sym of ' + json.dumps(t))

def leaf_coq(l, erase_hidden=False):
    _, k, name, hid = l
    if hid and erase_hidden: return 'VUnit'
    if k == 'f32': return 'VF32 %s' % name
    if k == 'f64': return 'VF64 %s' % name
    if k == 'bool': return 'VB %s' % name
    return 'VI %s %s' % (ikc(k), name)
def tree_coq(tr, erase_hidden=False):
    if tr[0] == 'L': return leaf_coq(tr, erase_hidden)
    return 'VT [%s]' % '; '.join(tree_coq(c, erase_hidden) for c in tr[1])
def tree_leaves(tr, visible_only=True):
    if tr[0] == 'L': return [] if (visible_only and tr[3]) else [tr]
    return [l for c in tr[1] for l in tree_leaves(c, visible_only)]
def tree_shape(tr):
    """shape term for Spec.erase: SH at hidden lanes"""
    if tr[0] == 'L': return 'SH' if tr[3] else 'SL'
    return 'ST [%s]' % '; '.join(tree_shape(c) for c in tr[1])
def has_hidden(tr):
    return tr[3] if tr[0] == 'L' else any(has_hidden(c) for c in tr[1])
def tree_fill(tr, leaves_iter):
    """same structure with visible leaves replaced (in order) by the given leaf terms (Coq text of a scalar), hidden -> VUnit"""
    if tr[0] == 'L':
        if tr[3]: return 'VUnit'
        x = next(leaves_iter); k = tr[1]
        return ('VF32 %s' % x) if k == 'f32' else ('VF64 %s' % x) if k == 'f64' else ('VB %s' % x) if k == 'bool' else 'VI %s %s' % (ikc(k), x)
    return 'VT [%s]' % '; '.join(tree_fill(c, leaves_iter) for c in tr[1])
def ty_shape(structs, t):
    """shape term (Spec.shp) of a Rust type: SH at hidden lanes"""
    if isinstance(t, str): return 'ST [SL; SL; SL; SL]' if t == 'm128' else 'SL'
    if 'n' in t:
        n = t['n']
        if n in structs:
            fs = structs[n]
            if hidden_lane_type(n, fs): return 'ST [ST [SL; SL; SL; SH]]'
            return 'ST [%s]' % '; '.join(ty_shape(structs, ft) for _, ft in fs)
        return 'SL'
    if 't' in t: return 'ST [%s]' % '; '.join(ty_shape(structs, x) for x in t['t'])
    if 'a' in t and t['len'] is not None: return 'ST [%s]' % '; '.join([ty_shape(structs, t['a'])] * t['len'])
    if 'o' in t: return 'SO (%s)' % ty_shape(structs, t['o'])
    if 'r' in t: return 'SO (%s)' % ty_shape(structs, t['r'])
    return 'SL'
def shape_has_hidden(sh): return 'SH' in sh

def coq_ty(k, ops='O'):
    return {'f32': 'F32 %s' % ops, 'f64': 'F64 %s' % ops, 'bool': 'bool'}.get(k, 'Z')
def binders(vars_, ops='O'):
    return ' '.join('(%s : %s)' % (n, coq_ty(k, ops)) for n, k in vars_)

# ------------------------------------------------------------------ lemma files
DEFERRED = []
LEMMA_TIMEOUT = [20]   # seconds per lemma (quick tier); a lemma that exceeds it is reported as deferred, not as failed

class Lemma:
    """forall (O:Ops) vars, lhs = rhs   (lhs/rhs Coq text over O and the variables)"""
    def __init__(self, name, vars_, lhs, rhs, tactic='solve_struct', meta=None):
        self.name = name; self.vars = vars_; self.lhs = lhs; self.rhs = rhs; self.tactic = tactic; self.meta = meta or {}; self.ops = 'O'; self.ty = 'res (valO O)'
    def statement(self):
        fa = ('forall %s, ' % binders(self.vars, self.ops)) if self.vars else ''
        if getattr(self, 'mode', None) == 'ieee': return '%s%s = %s' % (fa, self.lhs, self.rhs)
        if getattr(self, 'raw_stmt', False): return 'forall (O:Ops) (chk:bool), IntStd O chk -> LitStd O -> %s%s' % (fa, self.lhs)
        if getattr(self, 'intstd', False): return 'forall (O:Ops) (chk:bool), IntStd O chk -> LitStd O -> %s%s = %s' % (fa, self.lhs, self.rhs)
        if getattr(self, 'pre', None): return 'forall (O:Ops), %s -> %s%s = %s' % (self.pre, fa, self.lhs, self.rhs)
        return 'forall (O:Ops)%s, %s = %s' % ((' ' + binders(self.vars, self.ops)) if self.vars else '', self.lhs, self.rhs)
    def text(self):
        if getattr(self, 'pre', None):
            # one integer-literal fact about O is assumed (it holds in the Rust integer semantics, proved for the IEEE instance in FloatTricks.v)
            return 'Lemma %s : %s.\nProof. intros O; destruct O; intros HN; intros; cbn in HN. Timeout %d (vm_compute; try rewrite HN; vm_compute). all: reflexivity. Qed.' % (self.name, self.statement(), LEMMA_TIMEOUT[0])
        if getattr(self, 'mode', None) == 'ieee':
            return 'Lemma %s : %s.\nProof. intros. Timeout %d (destruct_bools; vm_compute; reflexivity). Qed.' % (self.name, self.statement(), LEMMA_TIMEOUT[0])
        if getattr(self, 'intstd', False) == 'concrete':
            return 'Lemma %s : %s.\nProof. intros O; destruct O; intros chk HZ HL; intros; intstd_eqs HZ; litstd_eqs HL. Timeout %d solve_zc ltac:(unlock_ints) ltac:(use_lits). all: first [reflexivity | exact I]. Qed.' % (self.name, self.statement(), LEMMA_TIMEOUT[0])
        if getattr(self, 'intstd', False):
            tac = 'solve_ze' if getattr(self, 'raw_stmt', False) else 'solve_z'
            return ('Lemma %s : %s.\nProof. intros O; destruct O; intros chk HZ HL; intros; intstd_eqs HZ; litstd_eqs HL. Timeout %d ' + tac + ' f32_pred f32_cmp f64_pred f64_cmp chk ltac:(unlock_ints) ltac:(use_lits). all: first [reflexivity | exact I]. Qed.') % (self.name, self.statement(), LEMMA_TIMEOUT[0])
        return 'Lemma %s : %s.\nProof. intros O; destruct O; intros. Timeout %d %s. all: reflexivity. Qed.' % (self.name, self.statement(), LEMMA_TIMEOUT[0], self.tactic)

HDR = 'From Glam Require Import Base Spec.\nFrom Gen Require Import Table.\nFrom Coq Require Import ZArith List String Bool.\nImport ListNotations.\nOpen Scope Z_scope.\n'

def write_if_changed(path, s):
    try:
        if open(path).read() == s: return
    except OSError: pass
    open(path, 'w').write(s)

def _coqtop(path, timeout):
    """feed a file to coqtop; a watchdog kills the process when one lemma (between two BEGIN markers) runs longer than the
    per-lemma limit (vm_compute is not interruptible by Coq's own Timeout)"""
    outp = path[:-2] + '.out'
    with open(outp, 'w') as fo, open(path) as fi:
        p = subprocess.Popen(['coqtop', '-q'] + COQFLAGS[1:], stdin=fi, stdout=fo, stderr=subprocess.STDOUT, cwd=os.path.dirname(path), preexec_fn=_limits, start_new_session=True)
        t0 = time.time(); last_marker = None; last_t = time.time(); killed = False
        while p.poll() is None:
            time.sleep(0.5)
            try:
                with open(outp, 'rb') as f:
                    f.seek(max(0, os.path.getsize(outp) - 20000)); tail = f.read().decode(errors='replace')
            except OSError: tail = ''
            ms = re.findall(r'BEGIN (\d+)', tail); m = ms[-1] if ms else None
            if m != last_marker: last_marker = m; last_t = time.time()
            limit = (LEMMA_TIMEOUT[0] + 5) if last_marker is not None else 600      # loading the model can take a while on a busy machine
            if time.time() - last_t > limit or time.time() - t0 > timeout:
                try: os.killpg(p.pid, 9)
                except OSError: pass
                p.wait(); killed = True; break
    out = open(outp, errors='replace').read()
    return out + ('\nFILE-TIMEOUT' if killed else '')

def prove_files(dirpath, files, hdr=HDR, max_fail=12, deps_extra=(), extra=(), timeout=3000, footer=''):
    """files: {basename: [Lemma]}.  Every lemma is attempted independently: the file is fed to coqtop sentence by sentence, a
    failing lemma is aborted and the next one still runs.  A lemma is discharged when Coq accepted its Qed (checked by
    referring to the constant afterwards); one that hits the per-lemma Timeout or the memory limit is *deferred* (not an
    obligation of this run, listed in the evidence); any other error is a failure.  `Print Assumptions` is run on the
    tuple of all lemmas proved in the file.  Results are cached on (file text, library, Table) hashes.
    Returns (n_obligations, n_discharged, failures [(Lemma, error)], assumptions {file: text})."""
    os.makedirs(dirpath, exist_ok=True)
    lh = lib_hash(theory_closure(hdr + footer))
    try: th = open(GEN + '/Table.stamp').read()
    except OSError: th = 'none'
    keep = set(files)
    for f in os.listdir(dirpath):
        if f.rsplit('.', 1)[0] not in keep:
            try: os.remove(dirpath + '/' + f)
            except OSError: pass
    def render(lems, start=0):
        out = [hdr, 'Set Silent.\nDefinition acc_0 := tt.\n']
        for i, l in enumerate(lems):
            if i < start: continue
            out.append('Goal True. idtac "BEGIN %d". Abort.\n%s\nAbort All.\nGoal True. let x := constr:(%s) in idtac "PROVED %d". Abort.\nDefinition acc_%d := (acc_%d, %s).\nDefinition acc_%d := acc_%d.\n' % (i, l.text(), l.name, i, i + 1, i if i > start else 0, l.name, i + 1, i if i > start else 0))
        out.append(footer)
        out.append('Goal True. idtac "ASSUMPTIONS". Abort.\nPrint Assumptions acc_%d.\nGoal True. idtac "END". Abort.\n' % len(lems))
        return ''.join(out)
    def one(b):
        lems = files[b]; full = render(lems); h = hashlib.sha256((full + lh + th).encode()).hexdigest(); rp = '%s/%s.result.json' % (dirpath, b)
        try:
            r = json.load(open(rp))
            if r.get('hash') == h: return b, r
        except (OSError, ValueError): pass
        status = {}; errors = {}; assum = []; start = 0
        for attempt in range(len(lems) + 1):
            p = '%s/%s.v' % (dirpath, b); open(p, 'w').write(render(lems, start))
            out = _coqtop(p, timeout)
            segs = re.split(r'BEGIN (\d+)\n', out)
            last = None
            for k in range(1, len(segs), 2):
                i = int(segs[k]); body = segs[k + 1]; last = i
                if re.search(r'^PROVED %d$' % i, body, re.M): status[i] = 'proved'
                else:
                    m = re.search(r'Error:(.*?)(?:\n\n|\Z)', body, re.S); err = m.group(0)[-800:] if m else body[-400:]
                    if 'Timeout!' in body: status[i] = 'deferred:timeout'
                    elif 'ut of memory' in body or 'Stack overflow' in body: status[i] = 'deferred:memory'
                    else: status[i] = 'failed'
                    errors[i] = err
            if 'END\n' in out:
                if 'ASSUMPTIONS' in out: assum.append(out[out.index('ASSUMPTIONS') + 11:out.rindex('END')].strip())
                break
            # coqtop died (memory / file timeout) inside lemma `last`: defer it and continue after it
            if last is None: status = {i: 'failed' for i in range(len(lems))}; errors = {i: out[-600:] for i in range(len(lems))}; break
            status[last] = 'deferred:memory' if 'FILE-TIMEOUT' not in out else 'deferred:timeout'; errors[last] = out[-300:]; start = last + 1
            if start >= len(lems): break
        r = {'hash': h, 'status': {str(k): v for k, v in status.items()}, 'errors': {str(k): v for k, v in errors.items()}, 'assumptions': '\n'.join(x for x in assum if x)}
        json.dump(r, open(rp, 'w')); return b, r
    failures = []; assumptions = {}; deferred = []; nob = 0
    with concurrent.futures.ThreadPoolExecutor(NCPU) as ex:
        for b, r in ex.map(one, sorted(files, key=lambda b: -len(files[b]))):
            assumptions[b] = r['assumptions'] or 'Closed under the global context'
            for i, l in enumerate(files[b]):
                st = r['status'].get(str(i), 'failed')
                if st == 'proved': nob += 1
                elif st.startswith('deferred'): deferred.append((l, st[9:]))
                else: nob += 1; failures.append((l, r['errors'].get(str(i), 'not attempted')))
    DEFERRED[:] = deferred
    return nob, nob - len(failures), failures, assumptions

LIB_THEOREMS = {
    'C13': ['IntSpec.sel_lt_min', 'IntSpec.sel_gt_max', 'IntSpec.clamp_sel_spec', 'IntSpec.minel_lmin', 'IntSpec.maxel_lmax', 'IntSpec.argmin3_spec', 'IntSpec.argmax4_spec', 'IntSpec.argmin2_spec'],
    'C17': ['AccessHist.history_refines', 'AccessHist.write_then_read'],
    'C04': ['QuatAlg.rot_compose', 'QuatAlg.rot_length_unit', 'QuatAlg.rot_neg', 'QuatAlg.rot_undo_unit', 'QuatAlg.norm_hprod'],
    'C09': ['RotAlg.rod_det', 'RotAlg.rod_col0_unit', 'RotAlg.rod_col01_orth', 'RotAlg.rod_axis', 'RotAlg.quat_mat_01', 'RotAlg.quat_mat_00', 'AlgR.Rlit32_half', 'AlgR.R_sin_opp_mul'],
    'C11': ['ProjAlg.rh_gl_near', 'ProjAlg.rh_gl_far', 'ProjAlg.lh_near', 'ProjAlg.inf_rev_lh_depth', 'ProjAlg.fov_edge_x', 'ProjAlg.ortho_x_left', 'ProjAlg.ortho_rh_gl_far'],
    'C03': ['AlgR.R_field', 'AlgR.Rlit32_1', 'AlgR.Rlit64_m2'],
    'C10': ['AlgR.Rlit32_2', 'AlgR.R_cos_opp'],
    'C05': ['QuatAlg.rot_compose', 'QuatAlg.conj_hprod', 'QuatAlg.rot_neg', 'AlgR.Rlit64_1', 'FromMatAlg.from_mat_branch_x', 'FromMatAlg.from_mat_branch_y', 'FromMatAlg.from_mat_branch_z', 'FromMatAlg.from_mat_branch_w', 'FromMatAlg.cond_x', 'FromMatAlg.cond_w'],
    'C12': ['InterpAlg.lerp_at_0', 'InterpAlg.lerp_at_1', 'InterpAlg.lerp_between', 'InterpAlg.u1_orth_input', 'InterpAlg.u2_orth_input', 'InterpAlg.any_orth_1', 'InterpAlg.any_orth_2'],
    'C18': ['Sem.IntStd_IEEE', 'Sem.LitStd_IEEE'], 'C08': ['Sem.IntStd_IEEE', 'Sem.LitStd_IEEE'], 'C15': ['Sem.IntStd_IEEE'], 'C20': ['Erase.erase_check_sound', 'UnitAlg.normalize_unit3', 'UnitAlg.normalize_unit4', 'UnitAlg.axis_angle_unit_trig', 'UnitAlg.single_axis_unit', 'UnitAlg.hprod_unit', 'UnitAlg.conj_unit', 'UnitAlg.qmat_cols_unit', 'UnitAlg.qmat_cols_orth'], 'C01': ['Sem.IntStd_IEEE', 'Sem.LitStd_IEEE', 'FloatTricks.floor_lane_correct', 'FloatTricks.ceil_lane_correct', 'FloatTricks.trunc_lane_correct', 'FloatTricks.round_lane_correct', 'FloatTricks.abs_lane_correct', 'FloatTricks.neg_lane_correct', 'FloatTricks.copysign_lane_correct', 'FloatTricks.signum_lane_correct', 'FloatTricks.finite_lane_correct', 'FloatTricks.not_sign_std', 'FloatTricks.rem_floored_refuted'],
}
def lib_assumptions(pid):
    """Print Assumptions of the hand-written library theorems a property relies on (checked against the allow-list like the generated ones)"""
    thms = LIB_THEOREMS.get(pid, [])
    if not thms: return {}
    d = BUILD + '/cases/lib'; os.makedirs(d, exist_ok=True); p = '%s/%s_lib.v' % (d, pid)
    mods = sorted(set(t.split('.')[0] for t in thms))
    open(p, 'w').write('From Glam Require Import %s.\n' % ' '.join(mods) + ''.join('Print Assumptions %s.\n' % t for t in thms))
    rc, so, se = coqc(p, timeout=300)
    if rc != 0: return {'library theorems': 'FAILED TO CHECK: ' + (se or so)[-300:]}
    return {'library theorems (%s)' % ', '.join(thms): so.strip()}

ALLOWED_AXIOMS = {
    'ClassicalDedekindReals.sig_forall_dec', 'ClassicalDedekindReals.sig_not_dec', 'FunctionalExtensionality.functional_extensionality_dep', 'Classical_Prop.classic',
}
def check_assumptions(assumptions):
    """returns (set of axioms seen, list of disallowed)"""
    seen = set(); bad = []
    for b, a in assumptions.items():
        if a.startswith('FAILED TO CHECK'): bad.append((b, a[:200])); continue
        for m in re.finditer(r'^([A-Za-z_][\w\.]*) :', a, re.M):
            ax = m.group(1); seen.add(ax)
            if ax not in ALLOWED_AXIOMS: bad.append((b, ax))
    return seen, bad

def forbidden_scan():
    """no Admitted/admit/Axiom/... anywhere in the hand-written development"""
    pat = re.compile(r'\b(Admitted|admit|Axiom|Axioms|Parameter|Parameters|Conjecture|Hypothesis|Variable|Variables|Hypotheses)\b|Unset Guard|bypass_check|Admit Obligations|type-in-type|impredicative-set')
    hits = []
    for root in [THEORIES, VERIF + '/coq/props']:
        if not os.path.isdir(root): continue
        for dp, _, fs in os.walk(root):
            for f in fs:
                if not f.endswith('.v'): continue
                depth = 0
                for ln, line in enumerate(open(dp + '/' + f), 1):
                    s = re.sub(r'\(\*.*?\*\)', '', line)
                    if re.match(r'\s*Section\b', s): depth += 1
                    if re.match(r'\s*End\b', s): depth = max(0, depth - 1)
                    m = pat.search(s)
                    if m:
                        if m.group(1) in ('Variable', 'Variables', 'Hypothesis', 'Hypotheses') and depth > 0: continue
                        hits.append('%s:%d: %s' % (f, ln, line.strip()[:100]))
    return hits

# ------------------------------------------------------------------ driver (the real crate)
DRIVER_FEATURES = {'sse2': [], 'scalar': ['scalar'], 'coresimd': ['coresimd'], 'sse2+assert': ['assert'], 'scalar+assert': ['scalar', 'assert'], 'coresimd+assert': ['coresimd', 'assert'], 'sse2+fma': [], 'libm': ['libm']}
def build_driver(cfg, profile='release'):
    """Driver crate for one configuration, linked against /repo's working tree. Returns the binary path."""
    name = cfg.replace('+', '_'); d = '%s/driver_%s' % (BUILD, name); os.makedirs(d + '/src', exist_ok=True)
    for f in ('main.rs', 'rt.rs'):
        write_if_changed(d + '/src/' + f, open(VERIF + '/tools/driver/src/' + f).read())
    write_if_changed(d + '/src/dispatch.rs', open('%s/dispatch_%s.rs' % (GEN, name)).read())
    toml = open(VERIF + '/tools/driver/Cargo.toml.in').read().replace('@REPO@', REPO)
    write_if_changed(d + '/Cargo.toml', toml)
    if not os.path.exists(d + '/Cargo.lock') and os.path.exists(VERIF + '/tools/driver/Cargo.lock'): shutil.copy(VERIF + '/tools/driver/Cargo.lock', d + '/Cargo.lock')
    env = dict(ENV); cmd = ['cargo']
    feats = DRIVER_FEATURES[cfg]
    if 'coresimd' in feats: cmd.append('+nightly')
    cmd += ['build', '--offline', '--features', ','.join(feats)] if feats else ['build', '--offline']
    if profile == 'release': cmd.append('--release')
    if cfg == 'sse2+fma': env['RUSTFLAGS'] = '-C target-feature=+fma,+avx2'
    env['CARGO_TARGET_DIR'] = d + '/target'
    t0 = time.time(); r = sh(cmd, cwd=d, env=env)
    if r.returncode != 0: raise RuntimeError('driver build failed for %s:\n%s' % (cfg, r.stderr[-4000:]))
    return '%s/target/%s/glam_driver' % (d, 'release' if profile == 'release' else 'debug')

def run_driver(binary, lines):
    r = subprocess.run([binary], input='\n'.join(lines) + '\n', capture_output=True, text=True)
    return r.stdout.strip().split('\n') if r.stdout.strip() else []

# ------------------------------------------------------------------ model evaluation (vm_compute inside Coq)
def eval_model(terms, tag, imports='', chunk=150):
    """terms: list of Coq terms of type list Z (usually `out (run IEEEr tbl N fid args)`). Returns list of int lists (None on failure)."""
    d = BUILD + '/cases/' + tag; os.makedirs(d, exist_ok=True)
    for f in os.listdir(d): os.remove(d + '/' + f)
    def one(ci):
        part = terms[ci * chunk:(ci + 1) * chunk]; path = '%s/c%d.v' % (d, ci)
        with open(path, 'w') as f:
            f.write('From Glam Require Import Base Sem Spec.\nFrom Gen Require Import Table.\nFrom Coq Require Import ZArith List.\nImport ListNotations.\nOpen Scope Z_scope.\n' + imports)
            f.write('Definition rs : list (list Z) := [' + ';\n '.join(part) + '].\nEval vm_compute in rs.\n')
        rc, so, se = coqc(path, timeout=300, limit=False)
        if rc != 0 or '= [' not in so: return ci, None, (se + so)[-1500:]
        body = so[so.index('= [') + 2:so.rindex(': list')]
        rws = re.findall(r'\[([^\[\]]*)\]', body)
        return ci, [[int(x) for x in r.replace('\n', ' ').split(';') if x.strip()] for r in rws], None
    out = [None] * len(terms); errs = []
    n = (len(terms) + chunk - 1) // chunk
    with concurrent.futures.ThreadPoolExecutor(NCPU) as ex:
        for ci, res, err in ex.map(one, range(n)):
            if res is None: errs.append(err); continue
            if len(res) != len(terms[ci * chunk:(ci + 1) * chunk]):
                errs.append('chunk %d: %d results for %d terms' % (ci, len(res), len(terms[ci * chunk:(ci + 1) * chunk]))); continue
            for j, r in enumerate(res): out[ci * chunk + j] = r
    return out, errs

# ------------------------------------------------------------------ evidence / reporting
def write_evidence(pid, tier, seed, coverage, assumptions, wall, violations=0, level='proof'):
    os.makedirs(VERIF + '/evidence', exist_ok=True)
    ev = {'property_id': pid, 'tier': tier, 'seed': seed, 'level': level, 'coverage': coverage, 'assumptions': assumptions, 'wall_s': round(wall, 1), 'violations': violations}
    json.dump(ev, open('%s/evidence/%s.json' % (VERIF, pid), 'w'), indent=1)

def write_replay(pid, obj):
    os.makedirs(VERIF + '/replays', exist_ok=True)
    h = hashlib.sha256(json.dumps(obj, sort_keys=True).encode()).hexdigest()[:12]
    p = '%s/replays/%s-%s.json' % (VERIF, pid, h); obj = dict(obj, property=pid, replay_cmd='./check %s --replay %s' % (pid, p))
    json.dump(obj, open(p, 'w'), indent=1); return p

# ------------------------------------------------------------------ concrete values: generation and canonical comparison
import random, struct
M64 = (1 << 64) - 1
def f32b(x): return struct.unpack('<I', struct.pack('<f', x))[0]
def f64b(x): return struct.unpack('<Q', struct.pack('<d', x))[0]
L32 = [f32b(x) for x in [0.0, -0.0, 1.0, -1.0, 0.5, -0.5, 1.5, 2.5, -2.5, 1e-40, -1e-45, 1.17549435e-38, 3.4028235e38, -3.4028235e38, float('inf'), -float('inf'), 8388607.5, 4194304.5, -6291456.5, 2097152.25, 0.49999997, -0.49999997, 3.5, -3.5, 8388608.0, 16777216.0, 16777217.0, 2147483648.0, -2147483648.0, 4294967296.0, 0.1, 0.3, 3.0, 7.0, 1e10, 1e-20, 1e20]] + [0x7fc00000, 0xffc00000, 0x7fa00001, 0xffffffff, 0x7f800001, 0x00000001, 0x807fffff]
L64 = [f64b(x) for x in [0.0, -0.0, 1.0, -1.0, 0.5, -0.5, 1.5, 2.5, -2.5, 5e-324, 2.2250738585072014e-308, 1.7976931348623157e308, -1.7976931348623157e308, float('inf'), -float('inf'), 4503599627370495.5, 4503599627370496.0, 9007199254740992.0, 9007199254740993.0, 9.223372036854775807e18, -9.223372036854775808e18, 1.8446744073709552e19, 0.1, 0.3, 3.0, 1e100, 1e-200, 1e200]] + [0x7ff8000000000000, 0xfff8000000000000, 0x7ff4000000000001, 0xffffffffffffffff, 1, 0x800fffffffffffff]

class Gen:
    """all random choices come from one PRNG seeded by VERIF_SEED; input classes are counted for the evidence"""
    def __init__(self, seed):
        self.r = random.Random(seed); self.classes = {}
    def cnt(self, c): self.classes[c] = self.classes.get(c, 0) + 1
    def f32(self):
        p = self.r.random()
        if p < 0.35: self.cnt('f32:uniform'); return f32b(self.r.uniform(-8, 8))
        if p < 0.55: self.cnt('f32:small-int'); return f32b(float(self.r.randint(-6, 6)))
        if p < 0.85: self.cnt('f32:lattice'); return self.r.choice(L32)
        self.cnt('f32:raw-bits'); return self.r.getrandbits(32)
    def f64(self):
        p = self.r.random()
        if p < 0.35: self.cnt('f64:uniform'); return f64b(self.r.uniform(-8, 8))
        if p < 0.55: self.cnt('f64:small-int'); return f64b(float(self.r.randint(-6, 6)))
        if p < 0.85: self.cnt('f64:lattice'); return self.r.choice(L64)
        self.cnt('f64:raw-bits'); return self.r.getrandbits(64)
    def int(self, k):
        b = BITS[k]; signed = k[0] == 'i'; lo, hi = (-(1 << (b - 1)), (1 << (b - 1)) - 1) if signed else (0, (1 << b) - 1)
        p = self.r.random()
        if k == 'usize' and p < 0.7: self.cnt('usize:index'); return self.r.choice([0, 1, 2, 3, 4, 5, 7])
        if p < 0.4: self.cnt('int:small'); return self.r.randint(max(lo, -9), min(hi, 9))
        if p < 0.75: self.cnt('int:boundary'); return self.r.choice([lo, hi, lo + 1, hi - 1, 0, 1, b, b - 1, min(b + 1, hi), hi // 2, hi // 2 + 1, max(lo, -1), 1 << (b // 2)])
        self.cnt('int:random'); return self.r.randint(lo, hi)
    def bool(self): self.cnt('bool'); return self.r.getrandbits(1)

def mask_kind(structs, n):
    """how a SIMD mask type is represented in the model for this configuration"""
    fs = structs.get(n)
    if fs is None: return None
    if len(fs) == 1 and fs[0][1] == 'm128': return 'm128'
    if len(fs) == 1 and isinstance(fs[0][1], dict) and 'simd' in fs[0][1]: return 'simd'
    if all(ft == 'u32' for _, ft in fs): return 'u32'
    if all(ft == 'bool' for _, ft in fs): return 'bool'
    return None

def gen_value(structs, enums, t, g):
    """random value of a Rust type: (driver words, Coq term of type val IEEEr)"""
    if isinstance(t, str):
        if t == 'f32': w = g.f32(); return [w], 'vf32 %d' % w
        if t == 'f64': w = g.f64(); return [w], 'vf64 %d' % w
        if t == 'bool': b = g.bool(); return [b], 'vb %s' % ('true' if b else 'false')
        if t in INTS: z = g.int(t); return [z & ((1 << 64) - 1)], 'vi %s (%d)' % (ikc(t), z)
        if t == 'm128': ws = [g.f32() for _ in range(4)]; return ws, 'VT [%s]' % '; '.join('vf32 %d' % w for w in ws)
        if t == 'unit': return [], 'VUnit'
        raise SymErr('gen ' + t)
    if 'n' in t:
        n = t['n']
        if n in enums: i = g.r.randrange(len(enums[n])); return [i], 'vi U32 %d' % i
        if n in ('BVec3A', 'BVec4A'):
            d = 3 if n == 'BVec3A' else 4; mk = mask_kind(structs, n); bs = [g.bool() for _ in range(d)]
            if mk == 'm128': lanes = [4294967295 if b else 0 for b in bs] + ([0] if d == 3 else []); return bs, 'VT [VT [%s]]' % '; '.join('vf32 %d' % w for w in lanes)
            if mk == 'u32': return bs, 'VT [%s]' % '; '.join('vi U32 %d' % (4294967295 if b else 0) for b in bs)
            if mk == 'bool': return bs, 'VT [%s]' % '; '.join('vb %s' % ('true' if b else 'false') for b in bs)
            if mk == 'simd': lanes = bs + ([0] if d == 3 else []); return bs, 'VT [VT [%s]]' % '; '.join('vb %s' % ('true' if b else 'false') for b in lanes)
            raise SymErr('mask repr ' + n)
        if n in structs:
            ws = []; ts = []
            for _, ft in structs[n]: w, tt = gen_value(structs, enums, ft, g); ws += w; ts.append(tt)
            if n == 'Vec3A' and len(ws) == 3: ws.append(g.f32())   # the driver always builds Vec3A from four words (from_vec4)
            return ws, 'VT [%s]' % '; '.join(ts)
        raise SymErr('gen ' + n)
    if 't' in t or ('a' in t and t['len'] is not None):
        parts = t['t'] if 't' in t else [t['a']] * t['len']; ws = []; ts = []
        for x in parts: w, tt = gen_value(structs, enums, x, g); ws += w; ts.append(tt)
        return ws, 'VT [%s]' % '; '.join(ts)
    if 's' in t:
        n = g.r.choice([0, 1, 2, 3, 4, 5, 6, 8, 9, 10, 12, 13, 16, 17, 20]); g.cnt('slice:len%d' % n); ws = [n]; ts = []
        for _ in range(n): w, tt = gen_value(structs, enums, t['s'], g); ws += w; ts.append(tt)
        return ws, 'VT [%s]' % '; '.join(ts)
    raise SymErr('gen ' + json.dumps(t))

def words_from_values(structs, enums, t, it):
    """driver argument words for a value whose symbolic leaves (core.sym order) take the given values"""
    if isinstance(t, str):
        if t in ('f32', 'f64', 'bool') or t in INTS: return [next(it) & M64]
        if t == 'm128': return [next(it) & M64 for _ in range(4)]
        if t == 'unit': return []
        raise SymErr('words ' + t)
    if 'n' in t:
        n = t['n']
        if n in ('BVec3A', 'BVec4A') and mask_kind(structs, n) != 'bool': raise SymErr('mask words')
        if n in structs:
            ws = [w for _, ft in structs[n] for w in words_from_values(structs, enums, ft, it)]
            if n == 'Vec3A' and len(ws) == 3: ws.append(0)
            return ws
        raise SymErr('words ' + n)
    if 't' in t: return [w for x in t['t'] for w in words_from_values(structs, enums, x, it)]
    if 'a' in t and t['len'] is not None: return [w for _ in range(t['len']) for w in words_from_values(structs, enums, t['a'], it)]
    raise SymErr('words ' + json.dumps(t))

def _nan32(w): return (w & 0x7f800000) == 0x7f800000 and (w & 0x7fffff) != 0
def _nan64(w): return (w & 0x7ff0000000000000) == 0x7ff0000000000000 and (w & 0xfffffffffffff) != 0
def canon(structs, enums, t, it, side):
    """consume the flat words of a result (side 'model' = Sem.out order, 'driver' = rt.rs order) -> comparable list.
    NaNs are canonicalised (any NaN equals any NaN); hidden lanes are dropped."""
    if isinstance(t, str):
        if t == 'f32': w = next(it) & M64; return ['nan'] if _nan32(w) else [w]
        if t == 'f64': w = next(it) & M64; return ['nan'] if _nan64(w) else [w]
        if t == 'bool' or t in INTS: return [next(it) & M64]
        if t == 'm128': return [x for _ in range(4) for x in canon(structs, enums, 'f32', it, side)]
        if t in ('unit', 'never'): return []
        raise SymErr('canon ' + t)
    if 'n' in t:
        n = t['n']
        if n in enums: return [next(it) & M64]
        if n in ('BVec3A', 'BVec4A'):
            d = 3 if n == 'BVec3A' else 4
            if side == 'driver': return [next(it) for _ in range(d)]
            mk = mask_kind(structs, n)
            if mk == 'm128': ws = [next(it) for _ in range(4)]; return [1 if w >= 0x80000000 else 0 for w in ws[:d]]
            if mk == 'u32': return [1 if next(it) != 0 else 0 for _ in range(d)]
            if mk == 'bool': return [next(it) for _ in range(d)]
            if mk == 'simd': ws = [next(it) for _ in range(4)]; return ws[:d]
            raise SymErr('mask repr ' + n)
        if n in structs:
            fs = structs[n]
            if hidden_lane_type(n, fs):
                if side == 'driver': return [x for _ in range(3) for x in canon(structs, enums, 'f32', it, side)]
                r = [x for _ in range(3) for x in canon(structs, enums, 'f32', it, side)]; next(it); return r
            return [x for _, ft in fs for x in canon(structs, enums, ft, it, side)]
        raise SymErr('canon ' + n)
    if 't' in t: return [x for ft in t['t'] for x in canon(structs, enums, ft, it, side)]
    if 'a' in t and t['len'] is not None: return [x for _ in range(t['len']) for x in canon(structs, enums, t['a'], it, side)]
    if 's' in t:
        out = []
        while True:
            try: out += canon(structs, enums, t['s'], it, side)
            except StopIteration: return out
    if 'o' in t or 'r' in t:
        inner = t.get('o', t.get('r')); tag = next(it)
        return [0] if tag == 0 else [1] + canon(structs, enums, inner, it, side)
    raise SymErr('canon ' + json.dumps(t))

MODEL_TAGS = {1: 'PANIC', 2: 'STUCK', 3: 'UB', 4: 'FUEL'}
def canon_model(structs, enums, t, words):
    if words is None: return 'NOEVAL'
    if words[0] != 0: return MODEL_TAGS.get(words[0], 'BAD')
    try: return canon(structs, enums, t, iter(words[1:]), 'model')
    except StopIteration: return 'SHORT'
def canon_driver(structs, enums, t, line):
    if line.startswith('PANIC'): return 'PANIC'
    if not line.startswith('OK'): return line
    try: return canon(structs, enums, t, iter(int(x, 16) for x in line.split()[1:]), 'driver')
    except StopIteration: return 'SHORT'

def correspondence(idx, targets, seed, per_fn, tag, fuel=400, max_calls=None):
    """targets: list of (cfg, fn entry). Runs every target `per_fn` times on the real crate (driver built from /repo)
    and on the model (vm_compute) with the same inputs; returns statistics and the list of disagreements."""
    g = Gen(seed); t0 = time.time(); by_cfg = {}
    if max_calls is not None and len(targets) * per_fn > max_calls:
        # deterministic sample of the targets (seeded), so that the quick tier stays within its time budget
        rr = random.Random(seed); targets = list(targets); rr.shuffle(targets); targets = targets[:max(1, max_calls // per_fn)]
    for cfg, f in targets: by_cfg.setdefault(cfg, []).append(f)
    cases = []; skipped = {}
    for cfg, fs in by_cfg.items():
        structs = idx.structs(cfg); enums = idx.enums(cfg)
        for f in fs:
            if f['did'] is None or f['fid'] is None or f.get('status') != 'ok':
                skipped[f.get('status') or 'untranslated'] = skipped.get(f.get('status') or 'untranslated', 0) + 1; continue
            tys = ([f['self']] if f['has_self'] else []) + [p[1] for p in f['params']]
            n = per_fn if tys else 1
            for _ in range(n):
                try: parts = [gen_value(structs, enums, t, g) for t in tys]
                except SymErr as e: skipped['type:' + str(e)[:30]] = skipped.get('type:' + str(e)[:30], 0) + 1; break
                words = [w for ws, _ in parts for w in ws]; term = '[' + '; '.join(tt for _, tt in parts) + ']'
                cases.append((cfg, f, words, term))
    drv_out = {}
    for cfg in by_cfg:
        cs = [(i, c) for i, c in enumerate(cases) if c[0] == cfg]
        if not cs: continue
        binary = build_driver(cfg)
        lines = run_driver(binary, ['%d %s' % (c[1]['did'], ' '.join('%x' % w for w in c[2])) for _, c in cs])
        if len(lines) != len(cs): raise RuntimeError('driver %s returned %d lines for %d calls' % (cfg, len(lines), len(cs)))
        for (i, _), l in zip(cs, lines): drv_out[i] = l
    model, errs = eval_model(['out (run IEEEr tbl %d %d%%positive %s)' % (fuel, c[1]['fid'], c[3]) for c in cases], tag)
    agree = 0; bad = []; distinct = set(); panics = 0; noeval = 0
    for i, c in enumerate(cases):
        cfg, f, words, term = c; structs = idx.structs(cfg); enums = idx.enums(cfg)
        ret = f['self'] if (f['self_mut'] and f['ret'] == 'unit') else f['ret']
        for p in f['params']:
            if p[3] and isinstance(p[1], dict) and 's' in p[1]: ret = p[1]
        try:
            dv = canon_driver(structs, enums, ret, drv_out[i]); mv = canon_model(structs, enums, ret, model[i])
        except SymErr as e:
            skipped['ret:' + str(e)[:30]] = skipped.get('ret:' + str(e)[:30], 0) + 1; continue
        if dv == 'PANIC': panics += 1
        if mv == 'NOEVAL': noeval += 1; continue
        if dv == mv: agree += 1; distinct.add((f['fid'], tuple(words)))
        else: bad.append({'cfg': cfg, 'function': f['key'], 'file': f['file'], 'did': f['did'], 'fid': f['fid'], 'input_words': ['%x' % w for w in words], 'model_term': term, 'impl_result': dv if isinstance(dv, str) else ['%s' % x for x in dv], 'model_result': mv if isinstance(mv, str) else ['%s' % x for x in mv]})
    return {'calls': len(cases), 'agree': agree, 'disagree': len(bad), 'distinct_inputs': len(distinct), 'functions': len(set((c[0], c[1]['key']) for c in cases)), 'panics_both': panics, 'model_not_evaluated': noeval, 'skipped': skipped, 'model_eval_errors': errs[:3], 'input_classes': g.classes, 'configs': sorted(by_cfg), 's': round(time.time() - t0, 1), 'samples': [{'cfg': c[0], 'fn': c[1]['key'], 'in': ['%x' % w for w in c[2]], 'out': drv_out.get(i)} for i, c in list(enumerate(cases))[:3]]}, bad
